"""C07 Network daemons acknowledge a message if and only if exactly it was queued (DESIGN.md 4/C07)."""
from lib.daemonchk import *


def main(tier, replay=None):
    if replay:
        return vk_replay("C07", replay)
    res = Result("C07", tier, "fault_enumeration")
    th = ["thorough=1"] if tier == "thorough" else []
    fams = [dict(scn="c07", name="c07-" + f, opts=["family=" + f] + th, bounds="0,0,0,0", total=0, deadline=1200) for f in ("status", "cut", "stall", "limits", "multi", "peer")]
    fams.append(dict(scn="c07", name="c07-sessions", opts=["family=sessions", "maxlen=%d" % (5 if tier == "quick" else 6)], bounds="0,0,0,0", total=0, deadline=1200))
    fams.append(dict(scn="c07", name="c07-queue-program-exits-early", opts=["family=early"], bounds="%d,0,0,0" % (1 if tier == "quick" else 3), total=3, deadline=1200))
    nf = 1 if tier == "quick" else 2
    fams.append(dict(scn="c07", name="c07-faults", opts=["family=faults"], bounds="0,%d,0,0" % nf, total=nf, deadline=1200))
    fams.append(dict(scn="c07", name="c07-shortreads", opts=["family=shortreads"], bounds="0,%d,0,0" % nf, total=nf, deadline=1200))
    plain_src = run_families(res, "C07", tier, fams)
    res.rule = ("real qmail-smtpd, qmail-qmtpd and qmail-qmqpd with the real qmail.c (real fork/exec) under the virtual kernel; the queue program is a "
                "stand-in that records both streams, aborts with 54 on an incomplete envelope as qmail-queue(8) prescribes and otherwise exits "
                "with the scripted status (one family uses the real qmail-queue).  status: every exit status 0..255, status 82 with five texts, "
                "crash, a queue program exiting 11/31/53/81/82+text before it has read anything (under every interleaving with the daemon's writes within the preemption bound), RELAYCLIENT with a suffix; cut: client disconnect after every byte of a complete session; stall: the client falls silent after every (quick: every third) byte and keeps the connection open, the virtual clock runs to the read timeout; limits: bodies at databytes-1/0/+1 (file and DATABYTES), "
                "limits 2^31-1, 2^31, 2^32-2, 2^32-1 and 0 with a small message, 98..101 hop fields, address lengths 899..1003, NUL bytes, 8 malformed frames; sessions: every sequence of <=%d commands ending in DATA over "
                "{MAIL s1, MAIL s2, RCPT a, RCPT b, RCPT refused, RSET, HELO, DATA} on one connection against the RFC 5321 transaction state: reply codes, and each acknowledged message queued with the sender of its own MAIL and exactly the recipients accepted since; peer: every string of length <=3 (4) over "
                "{LF,(,),;,0x80,SP,backslash,a} in HELO and TCPREMOTEHOST/INFO/IP/TCPLOCALHOST; faults: every one (thorough: every two) failing "
                "fork/pipe/exec/dup2/chdir/read/write-to-the-queue-pipes or short read/write in the daemon and in its child before the exec, with "
                "the stand-in and with the real qmail-queue: never a positive acknowledgement without a commit, never a permanent refusal; shortreads: any one (two) reads of the daemon returning 1 byte or all-but-one bytes "
                "(network input, the queue program's error text): outcome unchanged.  Oracle: positive acknowledgement iff the queue "
                "program committed, the committed bytes are a Received field made only of safe characters + the decoded body + exactly the "
                "acknowledged envelope, and the refusal class is permanent for 11..40/size/hops/addresses and temporary otherwise" % (5 if tier == "quick" else 6))
    res.assumptions = ["virtual kernel (appendix A)", "exit status 115 (undocumented compatibility code) may map to either refusal class"]
    res.require_nonzero("evaluations", "acknowledged", "commits_verified", "refused_permanently", "refused_temporarily", "no_reply", "multi_message_connections", "runs_with_injected_fault", "transaction_sequences", "timeouts_waited")
    lib_conformance(res, rundir("C07lib"), plain_src, ['io', 'num', 'ctl', 'date'], tier, asan=False)
    return res.finish()
