"""C10 Recipients are routed and rewritten exactly by the control files (DESIGN.md 4/C10)."""
import os
from lib.common import *


def main(tier, replay=None):
    if replay:
        return vk_replay("C10", replay)
    res = Result("C10", tier, "exploration")
    rd = rundir("C10")
    src = scratch_build(rd, "asan")
    exe = compile_harness(src, os.path.join(rd, "c10"), [os.path.join(VERIF, "seq/c10_rewrite.c")], link_target="qmail-send")
    jobs = []
    n = 12
    for i in range(n):
        d = os.path.join(rd, "ctl%d" % i); os.makedirs(d)
        jobs.append(("%s %s %d %d </dev/null" % (exe, d, i, n), "full configuration product [shard %d/%d]" % (i, n)))
    nh = 4 if tier == "quick" else 16
    for i in range(nh):
        if tier == "quick" and i > 0:
            break   # quick: one shard of the HUP family (every 4th configuration pair)
        d = os.path.join(rd, "hup%d" % i); os.makedirs(d)
        jobs.append(("%s %s %d %d hup </dev/null" % (exe, d, i, nh), "HUP reread [shard %d/%d]" % (i, nh)))
    res.run_parallel(jobs)
    # process level: the real qmail-send preprocessing real envelopes, with locals/virtualdomains edited before every HUP
    vk_build()
    plain = scratch_build(rd, "plain")
    eb = 2 if tier == "quick" else 3
    for name, opts in (("mixed-envelopes-and-hup", ["msgs=mix5+mix5b+l1r1"]), ("catch-all-and-hup", ["msgs=mix5+r2+v1", "catchall=1"])):
        vk_run(res, "daemon", plain, rd, "0,0,0,%d" % eb, eb, 1500, "qmail-send-" + name, opts=["monitors=C10,C04", "inject=event", "verdicts=K", "reorder=1", "hupedit=1"] + opts)
    if tier == "quick":
        res.notes.append("quick tier runs 1 of 4 shards of the HUP family (every 4th configuration pair); thorough runs all")
    res.rule = ("full product of locals (4 subsets) x virtualdomains (256 subsets of 8 entries: user, domain, 3 wildcards, catch-all, "
                "2 empty-tag exceptions, mixed case) x percenthack (4) x envnoathost (2), written as real control files and read by the real "
                "getcontrols(); for each, 143 addresses (11 local parts x 13 domain suffixes incl. case changes, extra labels, no @, trailing @, "
                "several @ and %); HUP family: configuration pairs A->B through the real regetcontrols(); non-trivial/distinct = distinct "
                "(channel, rewritten address) results; senderadd(): 10 sender forms x 7 recipients")
    res.rule += ("; process level (VK): histories of the real qmail-send "
                "(deviation bound %d: injection times, TERM/ALRM/HUP, each HUP preceded by an edit of locals and virtualdomains that makes a remote "
                "domain local and adds a virtual domain, or back) over 5-recipient envelopes mixing local, virtual, wildcard-virtual, catch-all, "
                "exception and remote recipients in mixed case: local/N and remote/N must be the order-preserving partition of the envelope under "
                "the configuration read last, info/N holds the sender, and every delivery command carries the documented channel, address and sender" % eb)
    res.assumptions = ["model in seq/c10_rewrite.c written from qmail-send(8)/addresses(5)/envelopes(5)",
                       "percent hack whose 'fqdn' itself contains '@' with further '%' to its left is unspecified by the documents: such cases are executed (memory safety) but not compared",
                       "duplicate keys in a control file are outside the domain (property text)"]
    res.require_nonzero("evaluations", "routed_local", "routed_virtual", "routed_remote", "percent_hack_applied", "hup_rereads", "senderadd_cases", "partitions_checked", "control_edits")
    lib_conformance(res, rd, src, ['bytes', 'map', 'ctl'], tier, asan=True)
    return res.finish()
