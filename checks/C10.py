"""C10 Recipients are routed and rewritten exactly by the control files (DESIGN.md 4/C10)."""
import os
from lib.common import *


def main(tier, replay=None):
    res = Result("C10", tier, "exploration")
    rd = rundir("C10")
    src = scratch_build(rd, "asan")
    exe = compile_harness(src, os.path.join(rd, "c10"), [os.path.join(VERIF, "seq/c10_rewrite.c")], link_target="qmail-send")
    jobs = []
    n = 12
    for i in range(n):
        d = os.path.join(rd, "ctl%d" % i); os.makedirs(d)
        jobs.append(("%s %s %d %d </dev/null" % (exe, d, i, n), "full configuration product [shard %d/%d]" % (i, n)))
    nh = 4 if tier == "quick" else 16
    for i in range(nh):
        if tier == "quick" and i > 0:
            break   # quick: one shard of the HUP family (every 4th configuration pair)
        d = os.path.join(rd, "hup%d" % i); os.makedirs(d)
        jobs.append(("%s %s %d %d hup </dev/null" % (exe, d, i, nh), "HUP reread [shard %d/%d]" % (i, nh)))
    res.run_parallel(jobs)
    if tier == "quick":
        res.notes.append("quick tier runs 1 of 4 shards of the HUP family (every 4th configuration pair); thorough runs all")
    res.rule = ("full product of locals (4 subsets) x virtualdomains (256 subsets of 8 entries: user, domain, 3 wildcards, catch-all, "
                "2 empty-tag exceptions, mixed case) x percenthack (4) x envnoathost (2), written as real control files and read by the real "
                "getcontrols(); for each, 143 addresses (11 local parts x 13 domain suffixes incl. case changes, extra labels, no @, trailing @, "
                "several @ and %); HUP family: configuration pairs A->B through the real regetcontrols(); non-trivial/distinct = distinct "
                "(channel, rewritten address) results; senderadd(): 10 sender forms x 7 recipients")
    res.assumptions = ["model in seq/c10_rewrite.c written from qmail-send(8)/addresses(5)/envelopes(5)",
                       "percent hack whose 'fqdn' itself contains '@' with further '%' to its left is unspecified by the documents: such cases are executed (memory safety) but not compared",
                       "duplicate keys in a control file are outside the domain (property text)"]
    res.require_nonzero("evaluations", "routed_local", "routed_virtual", "routed_remote", "percent_hack_applied", "hup_rereads", "senderadd_cases")
    return res.finish()
