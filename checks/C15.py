"""C15 Retries back off quadratically, expire with the queue lifetime, earliest first (DESIGN.md 4/C15).
Arithmetic + priority queue (SEQ, exhaustive); daemon histories with the virtual clock are added by
the VK engine when available (see checks/C15vk hook below)."""
import os
from lib.common import *
from lib.daemonchk import *


def main(tier, replay=None):
    res = Result("C15", tier, "exploration")
    rd = rundir("C15")
    src = scratch_build(rd, "asan")
    exe = compile_harness(src, os.path.join(rd, "c15"), [os.path.join(VERIF, "seq/c15_sched.c")], link_target="qmail-send")
    jobs = []
    if tier == "quick":
        top, shards = 1 << 32, 64
        jobs += [("%s prioq 8 4" % exe, "prioq ops<=8,4 keys"), ("%s prioq 7 5" % exe, "prioq ops<=7,5 keys"),
                 ("%s prioqperm 8" % exe, "prioq 8! orders")]
    else:
        top, shards = 1 << 32, 64
        jobs += [("%s prioq 10 4" % exe, "prioq ops<=10,4 keys"), ("%s prioq 9 5" % exe, "prioq ops<=9,5 keys"),
                 ("%s prioq 8 6" % exe, "prioq ops<=8,6 keys"), ("%s prioqperm 10" % exe, "prioq 10! orders")]
    step = top // shards
    jobs += [("%s sqrt %d %d" % (exe, i * step, (i + 1) * step), "squareroot [%d,%d)" % (i * step, (i + 1) * step)) for i in range(shards)]
    jobs += [("%s sqrtedges" % exe, "squareroot edges"), ("%s retry" % exe, "nextretry grid")]
    res.run_parallel(jobs)
    # daemon-level schedule under the virtual clock (VK engine)
    M = "monitors=C15,C16"
    q = tier == "quick"
    vk_build()
    srcp = scratch_build(rd, "plain")
    fams = [
        dict(name="backoff-l1r1", opts=[M, "msgs=l1r1", "verdicts=KZ", "reorder=1"], bounds="0,0,0,%d" % (3 if q else 5), total=5),
        dict(name="expiry-slot-reuse", opts=[M, "msgs=l1+l1b", "inject=drain", "lifetime=50", "verdicts=KZ", "reorder=1", "signals=0"], bounds="0,0,0,%d" % (3 if q else 5), total=5),
        dict(name="expiry-lifetime0", opts=[M, "msgs=r1", "lifetime=0", "verdicts=KZ", "reorder=1", "signals=0"], bounds="0,0,0,%d" % (3 if q else 5), total=5),
        dict(name="restart-l3-conc1", opts=[M, "msgs=l3", "concl=1", "verdicts=KZ", "reorder=1"], bounds="0,0,0,%d" % (3 if q else 5), total=5),
        dict(name="restart-message-in-last-split-directory", opts=[M, "msgs=r1", "verdicts=KZ", "reorder=1", "bucket=22"], bounds="0,0,0,%d" % (3 if q else 4), total=4),
        dict(name="restart-message-in-first-split-directory", opts=[M, "msgs=l1", "verdicts=KZ", "reorder=1", "bucket=0"], bounds="0,0,0,%d" % (3 if q else 4), total=4),
        dict(name="deferred-restart-with-one-failing-call", opts=["monitors=C15", "msgs=l1r1", "verdicts=ZKT", "reorder=1", "concl=2"] + (["maxticks=4", "signals=2"] if q else ["maxticks=6", "signals=2"]), bounds="0,1,0,2", total=3),
        dict(name="clock-set-back-while-stopped", opts=["monitors=C15", "msgs=l1r1", "verdicts=ZK", "reorder=1", "clockback=1", "maxticks=%d" % (4 if q else 6)], bounds="0,0,0,%d" % (3 if q else 4), total=4),
        dict(name="alrm-while-the-daemon-is-busy", opts=["monitors=C15", "msgs=l1r1", "verdicts=KZ", "reorder=1", "busysig=1", "signals=0"], bounds="0,0,0,%d" % (3 if q else 4), total=4),
        dict(name="two-messages-order", opts=[M, "msgs=l1+r1b", "verdicts=KZ", "reorder=2", "signals=0"], bounds="0,0,0,%d" % (3 if q else 5), total=5),
    ]
    for f in fams:
        vk_run(res, "daemon", srcp, rd, f["bounds"], f["total"], 600 if q else 2400, f["name"], opts=f["opts"], qcap=0 if q else 4000000)
    res.rule = ("squareroot(): every age in [0,%d) plus k^2-1,k^2,k^2+1 for all k<65536 (non-trivial: all); nextretry(): grid of 7 births x "
                "ages -3..20000 dense, to 700000 stride 37, all square edges 140..999, both channels, against birth+(isqrt(age)+10|20)^2 and "
                "'> now'; prioq: DFS over every insert/delmin sequence up to the depth over the key values on the real heap, checking after "
                "every operation that prioq_min is an earliest-due element that is present (states = distinct heap arrays reached, "
                "transitions = operations applied); every insertion order of n distinct keys drained by delmin" % top)
    res.rule += ("; daemon level (VK): histories of the real qmail-send under the virtual clock, deviations bounded as in C03: back-off and expiry families "
                 "(%s), restarts with messages in the first/last split directory, every attempt deferred by default with one failing call, and the clock "
                 "set back two hours while the daemon is stopped (births in the future: such a message is young, not expired); monitors: no pass before the back-off time, "
                 "deferrals never marked done before the lifetime, ALRM honoured, earliest first" % ", ".join(f["name"] for f in fams))
    res.assumptions = ["ages >= 2^32 s (136 years) are outside the statement", "daemon histories: real qmail-send under the virtual kernel and clock; monitors: no new pass for a deferred message before birth+(isqrt(age)+10|20)^2 unless ALRM or an unclean restart intervened, the daemon never sleeps past the earliest due time, a deferral of an unexpired message never finishes a recipient, an expired one does"]
    res.require_nonzero("evaluations", "states", "transitions", "passes_started", "reports_Z", "ticks", "expired_deferrals", "signal_ALRM", "clean_stops", "clock_set_back")
    lib_conformance(res, rd, src, ['num'], tier, asan=True)
    return res.finish()
