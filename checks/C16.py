"""C16 New mail wakes the daemon: no lost trigger, no busy loop (DESIGN.md 4/C16)."""
import os
from lib.daemonchk import *


def main(tier, replay=None):
    if replay:
        return vk_replay("C16", replay)
    res = Result("C16", tier, "model_checking")
    nconf = vk_conformance(tier)   # the model is compared with the real kernel before anything is concluded from it
    q = tier == "quick"
    P = 2 if q else 4
    common = ["signals=0", "verdicts=K", "reorder=1"]
    fams = [
        dict(scn="c16", name="A-startup-scan-vs-injector", opts=["scenario=A", "msgs=l1"] + common, bounds="%d,0,0,1" % (P + 1), total=P + 2, deadline=900 if q else 3600, qcap=0 if q else 8000000),
        dict(scn="c16", name="B-two-injectors", opts=["scenario=B", "msgs=l1+r1"] + common, bounds="%d,0,0,1" % (P if q else P - 1), total=(P if q else P - 1) + 1, deadline=900 if q else 3600, qcap=0 if q else 8000000),
        dict(scn="c16", name="C-scan-with-older-entries", opts=["scenario=C", "msgs=l1"] + common, bounds="%d,0,0,1" % P, total=P + 1, deadline=900 if q else 3600, qcap=0 if q else 8000000),
        dict(scn="c16", name="D-injector-vs-HUP-reread", opts=["scenario=D", "msgs=l1"] + common, bounds="%d,0,0,1" % (P + 1), total=P + 2, deadline=900 if q else 3600, qcap=0 if q else 8000000),
        # timeout rules on quiescent states of delivery histories (C03/C15 histories with the C16 monitors)
        dict(scn="daemon", name="timeouts-deferred-remote", opts=["monitors=C16", "msgs=r1", "verdicts=KZ", "reorder=1", "halfsleep=1"], bounds="0,0,0,%d" % (2 if q else 3), total=3),
        dict(scn="daemon", name="timeouts-deferred-mixed", opts=["monitors=C16", "msgs=l1r1", "verdicts=KZ", "reorder=1"], bounds="0,0,0,%d" % (2 if q else 3), total=3),
        dict(scn="daemon", name="bounce-wakes-the-daemon", opts=["monitors=C16", "msgs=l1r1", "verdicts=KD", "reorder=1", "signals=0"], bounds="0,0,0,2", total=2),
        dict(scn="daemon", name="remote-concurrency-zero", opts=["monitors=C16", "msgs=l1r1", "verdicts=KZ", "reorder=1", "concr=0", "maxticks=6"], bounds="0,0,0,2", total=2),
        dict(scn="daemon", name="local-concurrency-zero", opts=["monitors=C16", "msgs=l1r1", "verdicts=KZ", "reorder=1", "concl=0", "maxticks=6"], bounds="0,0,0,2", total=2),
        dict(scn="daemon", name="term-with-held-delivery-and-injection", opts=["monitors=C16", "msgs=l1+r1b", "inject=event", "verdicts=KZ", "reorder=1"], bounds="0,0,0,%d" % (2 if q else 3), total=3),
    ]
    run_families(res, "C16", tier, fams)
    res.rule = ("A/B/C/D (D: a HUP reaches the idle daemon while an injector runs): every interleaving, at the granularity of the trigger/todo system calls, of the injector's {link todo, open/write/close "
                "trigger} with the daemon's {select, close+reopen trigger, opendir/readdir/closedir todo} within the preemption bound (plus both "
                "POSIX readdir behaviours), real binaries, clock frozen so the 25-minute rescan cannot hide a lost trigger; oracle at every "
                "quiescent point: no committed todo entry is left unnoticed; fairness: an identical block of calls repeated around select() "
                "yields, and is a busy loop when nobody else can run; timeouts-*: histories with deferrals/TERM where every blocking select "
                "must wake no later than the earliest due time + 1 s (a HUP arrives in the middle of a timed sleep: the rest of the sleep is computed from the current time); bounce-wakes-the-daemon: a bounce queued by the daemon itself is noticed at once; *-concurrency-zero: the same histories with concurrencyremote / concurrencylocal set to 0 "
                "(a channel on hold with mail due for it): the daemon must block, not spin")
    res.assumptions = ["virtual kernel FIFO/select semantics as measured on Linux (bin/conformance)", "calls of the three programs that touch neither todo/ nor lock/trigger commute with the other side and are not scheduling points"]
    res.require_nonzero("evaluations", "race_trigger_pulled_during_scan", "race_link_during_scan", "race_trigger_open_ENXIO_during_rearm", "readdir_sees_late_entry", "ticks", "reports_Z")
    res.notes.append("virtual kernel vs Linux: %d operation sequences compared before this run, all agree (bin/conformance)" % nconf)
    # "never sleeps past its earliest due event" rests on the priority queue returning the earliest entry: the exhaustive prioq
    # enumeration of C15 (every insert/delmin sequence against a sorted reference) is part of this check too
    rdq = rundir("C16prioq")
    srca = scratch_build(rdq, "asan")
    exe = compile_harness(srca, os.path.join(rdq, "c15"), [os.path.join(VERIF, "seq/c15_sched.c")], link_target="qmail-send")
    res.run_parallel([("%s prioq %d 4" % (exe, 8 if q else 10), "prioq operation sequences"), ("%s prioqperm %d" % (exe, 8 if q else 9), "prioq insertion orders")])
    res.rule += "; prioq: every insert/delmin sequence up to the depth over 4 key values and every insertion order of n distinct keys on the real heap against a sorted reference"
    return res.finish()
