"""C08 SMTP transactions are well-sequenced and relaying is gated by policy (DESIGN.md 4/C08)."""
import os
from lib.common import *

EXCL = ("timeoutread.o", "timeoutwrite.o", "qmail.o")


def main(tier, replay=None):
    if replay:
        return vk_replay("C08", replay)
    res = Result("C08", tier, "model_checking")
    rd = rundir("C08")
    src = scratch_build(rd, "asan")
    extra = [w for w in ("cdbmss.o", "cdbmake.a") if w not in load_line(src, "qmail-smtpd")]
    exe = compile_harness(src, os.path.join(rd, "c08"), [os.path.join(VERIF, "seq/c08_smtpd.c"), os.path.join(VERIF, "seq/net_stubs.c")],
                          link_target="qmail-smtpd", exclude=EXCL, extra_objs=extra)
    depth = 4 if tier == "quick" else 5
    jobs = []
    for cfg in range(72 + 18 + 18):
        d = os.path.join(rd, "cfg%d" % cfg); os.makedirs(d)
        jobs.append(("%s %s %d %d" % (exe, d, cfg, depth), "configuration %d" % cfg))
    res.run_parallel(jobs)
    # program level: the real qmail-newmrh compiles control/morercpthosts, the real qmail-smtpd process consults the result
    vk_build()
    plain = scratch_build(rd, "plain")
    vk_run(res, "c07", plain, rd, "0,0,0,0", 0, 600, "qmail-newmrh-then-qmail-smtpd", opts=["family=morercpt"])
    vk_run(res, "c07", plain, rd, "0,1,0,0", 1, 900, "command-sequences-arriving-in-two-pieces", opts=["family=sessions", "maxlen=3"])
    res.rule = ("for every configuration in {rcpthosts absent/present} x {morercpthosts.cdb absent/present (written with the cdbmss writer qmail-newmrh "
                "uses)} x {badmailfrom absent/address/@domain} x {localiphost absent/present} x RELAYCLIENT {unset, empty, @gw}, plus 18 configurations whose morercpthosts.cdb is unreadable and 18 whose rcpthosts exists without any entry: breadth-first "
                "search over command sequences of the real qmail-smtpd (one command per transition through the real commands() loop, DATA with "
                "a small and an over-size body), de-duplicated on the server's own transaction state, to depth %d; 38 command lines (HELO/EHLO/"
                "RSET/NOOP/VRFY/HELP/unknown/QUIT/DATA, 6 MAIL and 20 RCPT forms: exact, dot-wildcard, mixed case, cdb-only, foreign, no @, "
                "source route, quoted, backslash, bracketless, IP literals, 899/903-byte and literal-growing addresses); states = distinct "
                "server states, transitions = commands executed; every transition out of a state of depth <= 2 is repeated with the line ended by a bare LF and "
                "pipelined with a following NOOP in the same read: replies, server state and submission must not differ; program level (VK): the real "
                "qmail-newmrh compiles a morercpthosts source (mixed case, wildcard, trailing blanks, comments, no final newline; and an empty one) and "
                "the real qmail-smtpd process answers 13 recipients (exact, case-changed, wildcard, near misses) as the documented rule says; every command sequence <=3 ending in DATA (C07 family sessions) "
                "with the input arriving in two pieces cut at every byte (between CR and LF too): same replies, same queued envelopes" % depth)
    res.assumptions = ["reference transaction machine and rcpthosts/badmailfrom policy written from RFC 5321 and qmail-smtpd(8)",
                       "network and queue are harness stand-ins (smtpd_env.h); the queue side is C07's subject"]
    res.require_nonzero("evaluations", "states", "transitions", "recipients_accepted", "recipients_refused", "messages_submitted", "morercpthosts_recipients_checked")
    lib_conformance(res, rd, src, ['bytes', 'ctl', 'map', 'cdb', 'num'], tier, asan=True)
    return res.finish()
