"""C01 Queue acceptance is all-or-nothing and durable (DESIGN.md 4/C01): real qmail-queue under the virtual kernel."""
import os
from lib.common import *


def main(tier, replay=None):
    if replay:
        return vk_replay("C01", replay)
    res = Result("C01", tier, "fault_enumeration")
    nconf = vk_conformance(tier)   # the model is compared with the real kernel before anything is concluded from it
    rd = rundir("C01")
    vk_build()
    src = scratch_build(rd, "plain")
    if tier == "quick":
        vk_run(res, "c01", src, rd, "0,1,1,1", 1, 240, "one-deviation")
    else:
        vk_run(res, "c01", src, rd, "0,1,1,1", 1, 600, "one-deviation,full-grid", opts=["thorough=1"])
        vk_run(res, "c01", src, rd, "0,1,1,1", 2, 1500, "two-deviations", opts=[])
    # the clock: one second before a midnight at which the day number gets a second digit; the second may change at any time() call of the program
    vk_run(res, "c01", src, rd, "0,0,0,1", 1, 240, "second-changes-at-midnight", opts=["clock=1000079999"])
    # the documented compile-time feature QUEUE_EXTRA (extra.h, FAQ 8.2: a copy of every message to a log address): the same grid without deviations
    xsrc = os.path.join(rd, "src-extra"); sh("cp -r %s %s" % (src, xsrc))
    open(os.path.join(xsrc, "extra.h"), "w").write('#ifndef EXTRA_H\n#define EXTRA_H\n#define QUEUE_EXTRA "Tlog@extra.example\\0"\n#define QUEUE_EXTRALEN 19\n#endif\n')
    sh("make qmail-queue >make-extra.log 2>&1 || { tail -20 make-extra.log; exit 1; }", cwd=xsrc)
    vk_run(res, "c01", xsrc, rd, "0,0,0,0", 0, 240, "compiled-with-QUEUE_EXTRA", opts=["extra=log@extra.example"])
    res.rule = ("each execution runs the real qmail-queue binary to completion on the virtual kernel; level 0 = every input of the grid "
                "(message sizes straddling the 256/2048/8192 buffers, 0..2 recipients, 1002/1003/1004-byte addresses, wrong record letters, "
                "every truncation point of the envelope, four invoking uids); level 1 = for each input, every system call x {process kill, "
                "machine crash with every keep/lose pattern of unsynced files, each applicable errno, short write, short/interrupted read, SIGALRM (the program's own 24-hour timer) arriving before the call}; "
                "level 2 (thorough) = every pair; the all-or-nothing invariant is evaluated after every call and on every post-crash image; "
                "distinct = distinct (input, exit status, final queue tree); the level-0 grid again on a tree compiled with QUEUE_EXTRA (one extra recipient record)")
    res.assumptions = ["virtual kernel semantics (DESIGN.md appendix A), bound to Linux by bin/conformance",
                       "crash model of conf-qmail: directory operations synchronous, file data since last fsync may be lost per file, single writes not torn"]
    res.require_nonzero("evaluations", "machine_crashes", "process_kills", "faults_injected", "states_committed", "states_S3_leftover", "exits_success", "exits_failure", "signals_delivered", "clock_ticks_during_run")
    res.notes.append("virtual kernel vs Linux: %d operation sequences compared before this run, all agree (bin/conformance)" % nconf)
    lib_conformance(res, rd, src, ['io', 'num', 'date'], tier, asan=False)
    return res.finish()
