"""C02 Every queue entry is always in a documented state under any interleaving (DESIGN.md 4/C02)."""
from lib.daemonchk import *


def main(tier, replay=None):
    if replay:
        return vk_replay("C02", replay)
    res = Result("C02", tier, "model_checking")
    nconf = vk_conformance(tier)   # the model is compared with the real kernel before anything is concluded from it
    q = tier == "quick"
    common = ["signals=0", "verdicts=KD", "reorder=1"]
    fams = [
        dict(scn="c02", name="two-injectors-daemon-cleaner", opts=["family=interleave", "msgs=l1+r1", "inject=conc"] + common, bounds="2,0,0,%d" % (0 if q else 1), total=2 if q else 3, deadline=900),
        dict(scn="c02", name="three-injectors", opts=["family=interleave", "msgs=l1+r1+l1b", "inject=conc"] + common, bounds="%d,0,0,0" % (1 if q else 2), total=2, deadline=900 if q else 3600, qcap=0 if q else 6000000),
        dict(scn="c02", name="injector-vs-bounce-injection", opts=["family=interleave", "msgs=l1+r1b", "inject=event"] + common, bounds="1,0,0,2", total=3, deadline=900),
        dict(scn="c02", name="crash-any-process", opts=["family=interleave", "msgs=l1+r1", "inject=conc"] + common, bounds="%d,0,1,%d" % ((0, 1) if q else (1, 1)), total=2 if q else 3, deadline=1200),
        dict(scn="c02", name="failing-injections", opts=["family=failing", "msgs=l1"] + common, bounds="1,0,1,0", total=2),
        dict(scn="c02", name="triple-bounce-and-number-reuse", opts=["family=interleave", "msgs=dbl+l1b+empty", "inject=drain"] + common, bounds="0,0,%d,2" % (0 if q else 1), total=2 if q else 3),
        dict(scn="c02", name="hung-injector-24h-36h", opts=["family=stale", "msgs=l1", "maxticks=260"] + common, bounds="0,0,%d,0" % (0 if q else 1), total=1),
        dict(scn="c02", name="hung-injector-clock-set-back", opts=["family=stale", "msgs=l1", "maxticks=20", "clockback=1", "signals=2", "verdicts=K", "reorder=1"], bounds="0,0,0,2", total=2),
        dict(scn="c02", name="second-daemon-instance", opts=["family=second", "msgs=l1"] + common, bounds="0,0,0,1", total=1),
        dict(scn="c02", name="second-daemon-instance-lock-error", opts=["family=second", "msgs=l1"] + common, bounds="0,1,0,1", total=2),
        dict(scn="c02", name="one-failing-call-in-daemon-or-cleaner", opts=["family=interleave", "msgs=l1r1", "inject=seq", "verdicts=KD", "reorder=1", "signals=0", "queuerefuse=1"], bounds="0,1,0,%d" % (1 if q else 2), total=2 if q else 3, deadline=1200),
        dict(scn="c02", name="40h-old-backlog", opts=["family=backlog", "backlog=12"] + common, bounds="0,0,0,0", total=0),
    ]
    run_families(res, "C02", tier, fams)
    res.rule = ("real qmail-queue (1-3 injectors, plus the bounce injector started by qmail-send), qmail-send and qmail-clean run as processes under "
                "the virtual kernel with lowest-free inode allocation; every interleaving at system-call granularity within the preemption "
                "bound, every crash point of every process (machine crash with all keep/lose patterns, kill of qmail-send) with restart, failing "
                "and hung injections with the clock advanced past 24 h and 36 h, a second daemon instance, a 40-hour-old backlog; after every "
                "namespace-changing call the existence pattern of every message number must be one of S1-S5, a mess file's name equals its "
                "inode, a number is never handed out while its previous holder is still in the queue, leftovers are removed only after 36 h")
    res.assumptions = ["virtual kernel (appendix A); descriptors no other process can reach (preloaded input pipes, the daemon's log) are not scheduling points"]
    res.require_nonzero("evaluations", "qstate_S2", "qstate_S3", "qstate_S4", "qstate_S5", "machine_crashes", "bounces_queued", "stale_leftovers_collected", "second_instance_refused", "hung_injector_exit_52", "failing_injections")
    res.notes.append("virtual kernel vs Linux: %d operation sequences compared before this run, all agree (bin/conformance)" % nconf)
    return res.finish()
