"""C11 Local deliveries run as exactly the user the address belongs to, never root (DESIGN.md 4/C11)."""
from lib.daemonchk import *


def main(tier, replay=None):
    if replay:
        return vk_replay("C11", replay)
    res = Result("C11", tier, "exploration")
    fams = [
        dict(scn="c11", name="assign-tables-x-local-parts", opts=["family=tables"], bounds="0,0,0,0", total=0, deadline=900),
        dict(scn="c11", name="cdb-truncated-at-every-length", opts=["family=cdbcut"], bounds="0,0,0,0", total=0),
        dict(scn="c11", name="qmail-pw2u-options", opts=["family=pw2u"], bounds="0,0,0,0", total=0),
        dict(scn="c11", name="table-rebuilt-while-a-delivery-is-looked-up", opts=["family=update"], bounds="%d,0,0,0" % (1 if tier == "quick" else 2), total=2, deadline=1200),
        dict(scn="c11", name="one-failing-call", opts=["family=faults"], bounds="0,%d,0,0" % (1 if tier == "quick" else 2), total=2),
    ]
    plain_src = run_families(res, "C11", tier, fams)
    res.rule = ("for every ordered subset (size <= 3) of a 12-line users/assign pool (a uid of 2^32, exact, wildcards with nested prefixes and two break characters, "
                "duplicate exact and wildcard keys, mixed case, a uid-0 entry, a malformed line) the real qmail-newu compiles the table; the real "
                "qmail-lspawn (spawn.c, real qmail-getpw for the password-file fallback, virtual passwd with root/ownerless/missing homes, 31- and "
                "32-character names) receives one delivery command per local part of a 47-entry pool (keys, near misses, case flips, "
                "extensions); at the exec of bin/qmail-local the argument vector, uid, gid, group list and the order setgroups, setgid, setuid "
                "are compared with a reference lookup of qmail-users(5)/qmail-getpw(8); the table generator qmail-pw2u with each of 9 option sets on a password file (root, uid 2^32, upper case, home missing / not its own): an account gets an entry iff the documented rule for that option says so; qmail-newu run again while qmail-lspawn looks a delivery up, under every interleaving within the preemption bound (the lookup sees the old or the new table, never none); users/cdb truncated at every length and every single "
                "failing read/lseek/open/stat/fork/pipe/setgroups/setgid/setuid must defer, never bounce or change identity")
    res.assumptions = ["virtual kernel (appendix A)", "bin/qmail-local is a stand-in that exits 0 (its own behaviour is C12/C13)"]
    res.require_nonzero("evaluations", "lookups_checked", "deliveries_as_user", "deliveries_refused", "malformed_tables_refused", "deferred_on_error")
    lib_conformance(res, rundir("C11lib"), plain_src, ['bytes', 'cdb', 'num'], tier, asan=False)
    return res.finish()
