"""C13 Delivery instructions are interpreted as documented and loops are cut (DESIGN.md 4/C13)."""
from lib.daemonchk import *


def main(tier, replay=None):
    if replay:
        return vk_replay("C13", replay)
    res = Result("C13", tier, "exploration")
    fams = [dict(scn="local", name="c13-" + f, opts=["mode=c13", "family=" + f] + (["thorough=1"] if tier == "thorough" else []), bounds="0,0,0,0", total=0, deadline=1500, qcap=2000000) for f in ("select", "perm", "instr", "owner", "hdr")]
    fams.append(dict(scn="local", name="c13-control-file-io", opts=["mode=c13", "family=qmailio"], bounds="0,1,0,0", total=1, deadline=900))
    fams.append(dict(scn="local", name="c13-lock-timer-not-left-armed", opts=["mode=c13", "family=instr"], bounds="0,0,0,1", total=1, deadline=900, qcap=2000000))
    plain_src = run_families(res, "C13", tier, fams)
    res.rule = ("real qmail-local (-n and real mode, real fork/exec of a /bin/sh stand-in, real maildir child, real qmail-queue for forwards) in a "
                "virtual home.  select: all 256 subsets of 8 .qmail files x 16 extensions (case incl. the boundary letter Z, dots, slashes, trailing dash, 'default'); perm: "
                "6 file modes x 5 home modes x 5 bodies x {-n, real} x {.qmail, .qmail-list}; instr: every instruction list of length 1..3 (thorough: 4) over "
                "16 line kinds (comment, blank, programs exiting 0/99/100/111/64/1, mbox, maildir, two forward spellings, +list, program/maildir/mbox lines with trailing "
                "blanks) x {file ends with a newline, does not} x {-n, real, real with x bit}; owner: -owner / -owner-default x 3 senders; hdr: hostile senders/extensions x loop "
                "variants x 3 targets.  Each case is compared with a reference interpreter written from dot-qmail(5)/qmail-command(8): selected "
                "file, ordered actions, forward last and only on success, exit code class, header lines of every delivered copy; the instruction lists again with qmail-local's own alarm "
                "running out at any call at which it is still pending other than the lock wait itself (it must not be: no such call exists on a correct tree)")
    res.assumptions = ["virtual kernel (appendix A)", "conf-patrn is read from the tree (002)", "the clock advances one second whenever a process exits (maildir names of two deliveries by a re-used pid would otherwise collide, which qmail-local answers with a deferral)"]
    res.require_nonzero("evaluations", "c13_cases", "c13_exit0", "c13_exit100", "c13_exit111")
    lib_conformance(res, rundir("C13lib"), plain_src, ['bytes', 'io', 'ctl'], tier, asan=False)
    return res.finish()
