"""C20 No input can corrupt memory in any program of the suite (DESIGN.md 4/C20)."""
import os
from lib.common import *

SURFACES = ("smtpd", "qmtpd", "qmqpd", "pop3d", "popup", "maildirnames", "inject", "qreceipt", "queue", "dotqmail", "localmsg",
            "lspawn", "rspawn", "report", "newu", "pw2u", "ctl-smtpd", "ctl-qmtpd", "ctl-inject")
EXCL = ("timeoutread.o", "timeoutwrite.o")


def crash_only(res, before):
    """Re-runs of other properties' scenarios on the sanitised build: only crashes count here (the scenarios' own oracles
    are decided, with their known findings, by their own checks)."""
    keep = res.fails[:before] + [f for f in res.fails[before:] if f[0].startswith("crash:")]
    res.fails[:] = keep


def main(tier, replay=None):
    if replay:
        return vk_replay("C20", replay)
    q = tier == "quick"
    res = Result("C20", tier, "exploration")
    rd = rundir("C20")
    vk_build()
    src = scratch_build(rd, "asan")
    os.makedirs(os.path.join(rd, "ctl"))
    # --- library level, bounded-exhaustive (SEQ) -------------------------------------------------------------------------
    extra = [w for w in ["token822.o", "cdb.a", "cdbmss.o", "cdbmake.a"] if w not in load_line(src, "qmail-remote")]
    misc = compile_harness(src, os.path.join(rd, "c20"), [os.path.join(VERIF, "seq/c20_misc.c")], link_target="qmail-remote", extra_objs=extra)
    extra = [w for w in load_line(src, "qmail-rspawn") if w not in load_line(src, "qmail-remote") and w != "spawn.o"]
    rem = compile_harness(src, os.path.join(rd, "c20r"), [os.path.join(VERIF, "seq/c20_remote.c"), os.path.join(VERIF, "seq/c20_net.c")],
                          link_target="qmail-remote", exclude=EXCL, extra_objs=extra)
    c09 = compile_harness(src, os.path.join(rd, "c09"), [os.path.join(VERIF, "seq/c09_remote.c"), os.path.join(VERIF, "seq/c09_net.c")],
                          link_target="qmail-remote", exclude=EXCL, extra_objs=extra)
    toklen, tokshards, ctllen = (5, 2, 5) if q else (7, 16, 6)
    jobs = [("%s dns 0 1 0" % misc, "DNS answers: truncations and sizes"), ("%s dns 0 1 1" % misc, "DNS answers: field overwrites"),
            ("%s cdb %d" % (misc, 0 if q else 1), "corrupt cdb files"), ("%s ctl %s/ctl %d" % (misc, rd, ctllen), "control files")]
    nb = 4 if q else 16
    jobs += [("%s dns %d %d 2" % (misc, i, nb), "DNS answers: every byte := every value [shard %d/%d]" % (i, nb)) for i in range(nb)]
    jobs += [("%s tok %d %d %d" % (misc, toklen, i, tokshards), "address-list fields [shard %d/%d]" % (i, tokshards)) for i in range(tokshards)]
    jobs += [("%s %d 16" % (rem, i), "hostile SMTP replies [shard %d/16]" % i) for i in range(16)]
    jobs += [("%s report %d" % (c09, 6 if q else 7), "qmail-rspawn report(): every qmail-remote output")]
    res.run_parallel(jobs, timeout=3000)
    # --- real programs as processes, sanitised, under the virtual kernel ------------------------------------------------
    th = [] if q else ["thorough=1"]
    for s in SURFACES:
        vk_run(res, "c20", src, rd, "0,0,0,0", 0, 1500, "c20-" + s, opts=["surface=" + s] + th)
    # custom error texts of a queue program (descriptor 6, exit 82) around the 256-byte buffer of qmail.c, through all three daemons
    before0 = len(res.fails)
    vk_run(res, "c07", src, rd, "0,0,0,0", 0, 1500, "asan-c07-status", opts=["family=status"])
    crash_only(res, before0)
    if not q:
        before = len(res.fails)
        reruns = [("c07", "c07-cut", ["family=cut"]), ("c07", "c07-limits", ["family=limits"]), ("c07", "c07-peer", ["family=peer"]), ("c07", "c07-multi", ["family=multi"]),
                  ("c19", "c19-pop3d-graph", ["mode=pop3d"]), ("c19", "c19-popup", ["mode=popup", "maxdepth=3"]),
                  ("c17", "c17-lists", ["family=lists"]), ("c17", "c17-fields", ["family=fields"]), ("c17", "c17-senders", ["family=senders"]),
                  ("c11", "c11-cdbcut", ["family=cdbcut"]), ("c11", "c11-tables", ["family=tables"]),
                  ("local", "c13-instr", ["mode=c13", "family=instr"]), ("local", "c13-hdr", ["mode=c13", "family=hdr"]), ("local", "c13-select", ["mode=c13", "family=select"]),
                  ("c18clean", "c18-clean-requests", []),
                  ("remote", "qmail-remote-dns", ["family=dns"]), ("remote", "qmail-remote-connect", ["family=connect"]), ("remote", "qmail-remote-smtp", ["family=smtp", "maxrcpt=3"]),
                  ("remote", "qmail-remote-messages", ["family=msg", "maxlen=5"]),
                  ("c18spawn", "rspawn-ids", ["family=ids", "prog=rspawn"]), ("c18spawn", "lspawn-ids", ["family=ids", "prog=lspawn"]), ("c18spawn", "lspawn-multi", ["family=multi", "prog=lspawn"])]
        for scn, name, opts in reruns:
            vk_run(res, scn, src, rd, "0,0,0,0", 0, 1500, "asan-" + name, opts=opts)
        vk_run(res, "daemon", src, rd, "0,0,0,3", 3, 1500, "asan-qmail-send-reports", opts=["monitors=C04", "msgs=l1r1", "signals=0", "verdicts=KZDXF", "reorder=2"])
        crash_only(res, before)
    res.rule = ("every program is built with AddressSanitizer + UBSan (-fno-sanitize-recover); a sanitizer report, a fatal signal or an "
                "undocumented exit code is a violation.  SEQ, exhaustive over: DNS answer templates (A, MX, CNAME chain, PTR, compression "
                "loop) x {every truncation >= header, every 16-bit field := 0/1/0xFFFF/0x00FF, every single byte := every value 0..255, every total size 480..512 ending in a record "
                "header with rdlength 4/3/65535, 513..529 and 65535 bytes} through the real dns_ip/dns_mxip/dns_ptr with the unused part of "
                "the answer buffer poisoned; every address-list field body over 16 characters up to length %d and comment nesting to 200 "
                "through token822_parse/addrlist/unparse with exact-size buffers; a cdb image at every truncation and with every byte "
                ":= 0x00/0xFF (thorough: every value); every control file over 7 characters up to length %d; qmail-remote smtp() against 6 phases x 9 hostile reply "
                "forms x 3 codes x 36 lengths (0..5, ~1024, each of 4990..5010, ~8192, 70000, 10^6) x 3 read sizes x {disconnect, "
                "timeout}, output chained into qmail-rspawn report() on an exact-size heap copy.  VK: for each of 19 input surfaces "
                "(SMTP/QMTP/QMQP/POP3 streams, popup credentials, maildir file names, qmail-inject and qreceipt headers, qmail-queue "
                "envelopes, .qmail files, messages to qmail-local, spawner command streams, qmail-remote/qmail-local reports to the "
                "spawner, users/assign, passwd lines, the control files read by qmail-smtpd, qmail-qmtpd and qmail-inject) every single-point mutation of grammar-derived base inputs (every truncation, "
                "every byte := each hostile character, every byte deleted, every number := 16 extreme values, every byte repeated 1000x; "
                "thorough: + every insertion, 70000x) plus hand-written extremes around each documented limit" % (toklen, ctllen))
    res.assumptions = ["virtual kernel (appendix A)", "memory errors are those AddressSanitizer/UBSan detect at byte granularity (exact-size buffers and poisoned slack in the SEQ harnesses)",
                       "2^31-byte inputs are declared (netstring/number fields), not materialised"]
    res.require_nonzero("evaluations", "cases_smtpd", "cases_qmtpd", "cases_inject", "cases_report", "accepted_inputs", "rejected_inputs", "smtp_K", "smtp_D")
    lib_conformance(res, rd, src, ['io', 'bytes', 'num', 'map', 'cdb', 'date', 'alloc'], tier, asan=True)
    return res.finish()
