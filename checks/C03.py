"""C03 No accepted recipient is ever dropped: delivered or bounced (DESIGN.md 4/C03)."""
from lib.daemonchk import *


def main(tier, replay=None):
    if replay:
        return vk_replay("C03", replay)
    res = Result("C03", tier, "model_checking")
    M = "monitors=C03"
    q = tier == "quick"
    fams = [
        dict(name="outcomes-l1r1", opts=[M, "msgs=l1r1"], bounds="0,0,0,%d" % (2 if q else 4), total=4, deadline=1800),
        dict(name="outcomes-l3-saturated", opts=[M, "msgs=l6", "concl=2", "announce=2", "signals=0"], bounds="0,0,0,%d" % (1 if q else 3), total=3, deadline=1800),
        dict(name="outcomes-senders", opts=[M, "msgs=verp+empty+dbl", "signals=0"], bounds="0,0,0,%d" % (2 if q else 4), total=4, deadline=1800),
        dict(name="lost-spawner-l1r1", opts=[M, "msgs=l1r1", "signals=0", "verdicts=KZDE", "reorder=2"], bounds="0,0,0,%d" % (2 if q else 4), total=4, deadline=1800),
        dict(name="lost-spawner-l2-r2", opts=[M, "msgs=l2+r2", "signals=0", "verdicts=KDE", "reorder=2"], bounds="0,0,0,3", total=3, tier="thorough", deadline=1800),
        dict(name="stray-and-mangled-reports-l1r1", opts=[M, "msgs=l1r1", "signals=0", "verdicts=KZDghueOQkjzd", "reorder=2"], bounds="0,0,0,%d" % (2 if q else 3), total=3, deadline=1800),
        dict(name="catch-all-and-exception-domains", opts=[M, "msgs=r2+v1", "catchall=1", "signals=0", "verdicts=KZD", "reorder=2"], bounds="0,0,0,%d" % (2 if q else 3), total=3, deadline=1800),
        # acceptance while the cleanup pass runs: an injector that hangs must be dead (24 h) before its files count as abandoned (36 h), or an accepted message loses its body
        dict(scn="c02", name="hung-injector-24h-36h", opts=["family=stale", "msgs=l1", "maxticks=260", "signals=0", "verdicts=KD", "reorder=1"], bounds="0,0,0,0", total=0),
        dict(name="crash-l1r1", opts=[M, "msgs=l1r1"], bounds="0,0,1,%d" % (1 if q else 2), total=2 if q else 3, deadline=1800),
        dict(name="two-crashes-l1r1", opts=[M, "msgs=l1r1", "signals=0"], bounds="0,0,2,0", total=2, tier="thorough", deadline=1800),
        dict(name="crash-l2-bounces", opts=[M, "msgs=l2", "signals=0"], bounds="0,0,1,%d" % (2 if q else 3), total=2 if q else 4, deadline=1800),
        dict(name="faults-l1r1", opts=[M, "msgs=l1r1", "signals=0"], bounds="0,%d,0,1" % (1 if q else 2), total=2 if q else 3, deadline=1800),
        dict(name="faults-l2-bounces", opts=[M, "msgs=l2", "signals=0", "queuerefuse=1"], bounds="0,1,0,%d" % (2 if q else 3), total=3 if q else 4, deadline=1800),
        dict(name="crash-two-messages", opts=[M, "msgs=l1+r2", "signals=0"], bounds="0,0,1,2", total=3, tier="thorough", deadline=1800),
        dict(name="crash-and-fault-l1r1", opts=[M, "msgs=l1r1", "signals=0"], bounds="0,1,1,0", total=2, tier="thorough", deadline=1800),
    ]
    plain_src = run_families(res, "C03", tier, fams)
    res.rule = ("each execution is a complete history of the real qmail-send + qmail-clean (+ qmail-queue for injections and bounces) under the "
                "virtual kernel with controller-scripted spawners and a virtual clock, run until the queue is empty with every unscripted "
                "attempt answered success; deviations from that default are enumerated exhaustively up to the bound: which in-flight delivery "
                "is answered and with K/Z/D/garbled/stray/mangled/oversized reports, reports arriving in two pieces, or the death of its spawner, TERM/ALRM/HUP at quiescent points (env), machine crash with every keep/lose pattern or "
                "kill of qmail-send before every filesystem-mutating call of qmail-send/qmail-clean (crash), one failing call or the queue program started for a bounce exiting 31 (permanent refusal) / 53 at once (fault); "
                "monitors: a D mark only after a K/D report, recipient lists removed only when all done, info removed only when every "
                "recipient was delivered or named in a queued bounce, queue drains; states = distinct (history, final queue tree)")
    res.assumptions = ["virtual kernel (appendix A), crash model of conf-qmail", "bounce/N is documented as not crash-proof: recipients whose only missing artefact after lost data is their bounce paragraph are exempt",
                       "duplicate delivery after a crash is allowed"]
    res.require_nonzero("evaluations", "messages_finished", "bounces_queued", "reports_Z", "reports_D", "reports_garbage", "reports_stray", "spawner_lost", "machine_crashes", "daemon_kills", "marks_written", "faults_injected")
    lib_conformance(res, rundir("C03lib"), plain_src, ['io', 'bytes'], tier, asan=False)
    return res.finish()
