"""C12 Mailbox deliveries are complete or absent: maildir atomic, mbox rolled back (DESIGN.md 4/C12)."""
from lib.daemonchk import *


def main(tier, replay=None):
    if replay:
        return vk_replay("C12", replay)
    res = Result("C12", tier, "fault_enumeration")
    nconf = vk_conformance(tier)   # the model is compared with the real kernel before anything is concluded from it
    q = tier == "quick"
    fams = [
        dict(scn="local", name="maildir-crash-and-faults", opts=["mode=maildir"], bounds="0,1,1,0", total=1 if q else 2),
        dict(scn="local", name="maildir-two-same-second", opts=["mode=maildir", "two=1"], bounds="%d,0,0,0" % (1 if q else 2), total=2, deadline=900),
        dict(scn="local", name="maildir-timer-runs-out", opts=["mode=maildir"], bounds="0,%d,0,1" % (0 if q else 1), total=1 if q else 2),
        dict(scn="local", name="mbox-lock-timer-runs-out", opts=["mode=mbox"], bounds="0,%d,0,1" % (0 if q else 1), total=1 if q else 2, deadline=1200),
        dict(scn="local", name="mbox-messages-x-faults", opts=["mode=mbox"] + ([] if q else ["thorough=1"]), bounds="0,1,0,0", total=1, deadline=1200),
        dict(scn="local", name="mbox-empty-box-crash", opts=["mode=mbox", "emptybox=1"], bounds="0,0,1,0", total=1, tier="thorough"),
        dict(scn="local", name="mbox-2-concurrent", opts=["mode=mboxconc", "n=2"], bounds="%d,1,0,0" % (2 if q else 3), total=3 if q else 4),
        dict(scn="local", name="mbox-3-concurrent", opts=["mode=mboxconc", "n=3"], bounds="2,%d,0,0" % (0 if q else 1), total=2 if q else 3, deadline=900),
    ]
    plain_src = run_families(res, "C12", tier, fams)
    res.rule = ("real qmail-local under the virtual kernel.  maildir: 7 messages (0..3000 bytes around the 1024-byte buffers, NUL/8-bit, no final "
                "newline) x 7 envelope senders x {kill or machine crash (every keep/lose pattern) before every file operation of parent and "
                "child, every failing write/short write/fsync/close/link(EIO,EEXIST)/open/read/fork}: every file ever visible in new/ must be "
                "complete and synced, success iff such a file exists; two deliveries in the same second under every interleaving.  mbox: every "
                "message of <=3 (4) lines over {From_, >From_, >>From_, From, >, x, empty} with and without final newline, sizes around 1024, "
                "x 7 senders x every failing write/fsync: the reference mboxrd reader of mbox(5) must return exactly the delivered messages "
                "and the file is restored on failure; 2 and 3 concurrent deliveries under every interleaving within the preemption bound, "
                "with one injected write failure; the program's own timer (24 h for a maildir delivery, 30 s for the mbox lock) running out before every call made while it is pending "
                "(thorough: together with one failing call): the delivery is deferred with nothing visible, or complete")
    res.assumptions = ["virtual kernel (appendix A)", "mbox is documented as not crash-proof: machine crashes are not judged for mbox", "a failing flock() is outside the property (delivery proceeds unlocked, as documented 'if possible')"]
    res.require_nonzero("evaluations", "maildir_files_checked", "machine_crashes", "process_kills", "deliveries_ok", "deliveries_deferred", "timers_expired")
    res.notes.append("virtual kernel vs Linux: %d operation sequences compared before this run, all agree (bin/conformance)" % nconf)
    lib_conformance(res, rundir("C12lib"), plain_src, ['io', 'num', 'seek', 'date'], tier, asan=False)
    return res.finish()
