"""C06 Outbound SMTP DATA cannot be terminated or hijacked by message content (DESIGN.md 4/C06)."""
import os, sys
from lib.common import *


def main(tier, replay=None):
    if replay:
        return vk_replay("C06", replay)
    res = Result("C06", tier, "exploration")
    rd = rundir("C06")
    src = scratch_build(rd, "asan")
    exe = compile_harness(src, os.path.join(rd, "c06_blast"), [os.path.join(VERIF, "seq/c06_blast.c")],
                          link_target="qmail-remote")
    if tier == "quick":
        runs = [("alpha{CR,LF,.,a}", "0 10 7"), ("alpha{LF,.,0xFF,a,CR}", "2 8 6")]
    else:
        runs = [("alpha{CR,LF,.,a}", "0 12 9"), ("alpha{CR,LF,.,a,R}", "1 10 7"), ("alpha{LF,.,0xFF,a,CR}", "2 10 7")]
    res.run_parallel([("%s %s" % (exe, args), fam) for fam, args in runs])
    # program level: the same messages as real queue files sent by the real qmail-remote process to a scripted SMTP server
    vk_build()
    plain = scratch_build(rd, "plain")
    vk_run(res, "remote", plain, rd, "0,0,0,0", 0, 1500, "qmail-remote-process-messages", opts=["family=msg", "maxlen=%d" % (5 if tier == "quick" else 7)])
    # two recipients of one message, delivered at the same time by the real qmail-rspawn + two real qmail-remote processes (every interleaving within the preemption bound)
    vk_run(res, "remote", plain, rd, "%d,0,0,0" % (1 if tier == "quick" else 2), 2, 1500, "two-deliveries-of-one-message-at-the-same-time", opts=["family=pair"])
    vk_run(res, "remote", plain, rd, "0,1,0,0", 1, 1500, "qmail-remote-process-messages-read-in-pieces", opts=["family=msg", "maxlen=%d" % (3 if tier == "quick" else 5)])
    res.rule = ("every byte string over the alphabet up to the length bound is fed to the real blast() of "
                "qmail-remote.c (whole, in every chunking of reads up to the chunking bound, with a read error "
                "at every offset, and with the network taking only 1 or 3 bytes per write); non-trivial = contains a CR or a '.' at a line start (the cases where "
                "stuffing / CR handling is exercised); distinct counted per input string; program level (VK): every message over {CR,LF,.,a} "
                "up to length %d plus 17 hand-written ones (NUL, 8-bit, 998/1500-byte lines, no final newline) as a queue file on standard input "
                "of the real qmail-remote process (resolver, connect and server scripted; and the real qmail-rspawn running two real qmail-remote processes for two recipients of one message whose SMTP dialogues proceed in lock step, under every interleaving within the preemption bound): the DATA payload that reaches the server must be one "
                "dot-terminated stream that decodes to the message's lines; incomplete last lines are refused without the end-of-data mark; the same with any one read of the message returning 1 byte, half or all but one of the bytes that are there" % (5 if tier == "quick" else 7))
    res.assumptions = ["reference receiver seq/ref_smtp.h implements RFC 5321 4.5.2",
                       "bare CR, CR LF and LF each end a line of the stored message (fixed by tests/unittest_qmail-remote.c)"]
    res.require_nonzero("evaluations", "distinct_nontrivial", "completed", "aborted", "short_write_runs", "messages_decoded_from_wire", "short_reads_of_the_message", "pairs_both_delivered")
    lib_conformance(res, rd, src, ['io', 'bytes'], tier, asan=True)
    return res.finish()
