"""C06 Outbound SMTP DATA cannot be terminated or hijacked by message content (DESIGN.md 4/C06)."""
import os, sys
from lib.common import *


def main(tier, replay=None):
    res = Result("C06", tier, "exploration")
    rd = rundir("C06")
    src = scratch_build(rd, "asan")
    exe = compile_harness(src, os.path.join(rd, "c06_blast"), [os.path.join(VERIF, "seq/c06_blast.c")],
                          link_target="qmail-remote")
    if tier == "quick":
        runs = [("alpha{CR,LF,.,a}", "0 10 7"), ("alpha{LF,.,0xFF,a,CR}", "2 8 6")]
    else:
        runs = [("alpha{CR,LF,.,a}", "0 12 9"), ("alpha{CR,LF,.,a,R}", "1 10 7"), ("alpha{LF,.,0xFF,a,CR}", "2 10 7")]
    res.run_parallel([("%s %s" % (exe, args), fam) for fam, args in runs])
    res.rule = ("every byte string over the alphabet up to the length bound is fed to the real blast() of "
                "qmail-remote.c (whole, in every chunking of reads up to the chunking bound, and with a read error "
                "at every offset); non-trivial = contains a CR or a '.' at a line start (the cases where "
                "stuffing / CR handling is exercised); distinct counted per input string")
    res.assumptions = ["reference receiver seq/ref_smtp.h implements RFC 5321 4.5.2",
                       "bare CR, CR LF and LF each end a line of the stored message (fixed by tests/unittest_qmail-remote.c)"]
    res.require_nonzero("evaluations", "distinct_nontrivial", "completed", "aborted")
    return res.finish()
