"""C17 Address quoting and parsing agree; header recipients become the envelope (DESIGN.md 4/C17)."""
import os
from lib.daemonchk import *
from checks.C05 import EXCL


def main(tier, replay=None):
    if replay:
        return vk_replay("C17", replay)
    res = Result("C17", tier, "exploration")
    q = tier == "quick"
    rd = rundir("C17seq")
    srca = scratch_build(rd, "asan")
    robj = prefixed_object(srca, "qmail-remote.o", "r_", os.path.join(rd, "r_qmail-remote.o"))
    extra = [robj] + [w for w in load_line(srca, "qmail-remote") if w not in EXCL and w not in load_line(srca, "qmail-smtpd")] + ["token822.o"]
    exe = compile_harness(srca, os.path.join(rd, "c17"), [os.path.join(VERIF, "seq/c17_quote.c"), os.path.join(VERIF, "seq/net_stubs.c")],
                          link_target="qmail-smtpd", exclude=EXCL, extra_objs=extra)
    n = 16
    res.run_parallel([("%s %d %d %d" % (exe, 4 if q else 5, i, n), "quote/parse round trips [shard %d/%d]" % (i, n)) for i in range(n)])
    th = [] if q else ["thorough=1"]
    fams = [dict(scn="c17", name="inject-" + f, opts=["family=" + f] + th, bounds="0,0,0,0", total=0, deadline=1500) for f in ("lists", "fields", "senders", "resent")]
    fams.append(dict(scn="c17", name="inject-default-host-with-plus", opts=["family=senders", "dplus=1"], bounds="0,0,0,0", total=0))
    fams.append(dict(scn="c17", name="inject-lists-QMAILINJECT-cfi", opts=["family=fields", "qmailinject=cfi"], bounds="0,0,0,0", total=0))
    fams.append(dict(scn="c17", name="inject-control-file-errors", opts=["family=senders"], bounds="0,1,0,0", total=1, deadline=1500))
    # the SMTP side at process level: a recipient whose local part holds a quoted CR, the session arriving in two pieces cut at every byte
    fams.append(dict(scn="c07", name="smtpd-addresses-arriving-in-two-pieces", opts=["family=shortreads"], bounds="0,1,0,0", total=1, deadline=900))
    run_families(res, "C17", tier, fams)
    res.rule = ("round trips: every local part of length <=4 (5) over 23 bytes {()<>@,;:\\\\\".[] SP CR TAB 0x80 0xFF a B 1 + -} with domains h.dom and "
                "[1.2.3.4]: quote2() -> To: field -> token822_parse/addrlist/unquote, and addrmangle() (qmail-remote) -> MAIL FROM:<...> -> "
                "addrparse() (qmail-smtpd), must return the identical address.  headers: the real qmail-inject with a recording queue stand-in: "
                "address lists composed of 1-2 (3) of 23 grammar templates (addr-spec, bare local part, dot-less host, plus host, phrase + "
                "route-addr, quoted phrase, source route, comments incl. nested and escaped, quoted local parts, domain literal, groups, "
                "folding, missing comma without and with a comment in the gap) whose mailboxes are known by construction, in To/cc/Bcc, with -h/-a/-H/-A and arguments, -f sender "
                "forms, QMAILINJECT letters; the envelope must be those mailboxes after default-host/domain/plus rewriting, Bcc and "
                "Return-Path gone, and the rewritten header injected again must give the same To+Cc addresses; resent: every one and every two of the 8 Resent- fields before/after "
                "ordinary To/Cc/Bcc fields: the recipients are then exactly those of Resent-To/Cc/Bcc; the real qmail-smtpd process with a recipient whose local part holds a quoted CR, "
                "the session cut in two at every byte: the queued recipient is that address")
    res.assumptions = ["NUL and LF are excluded from local parts (property text)", "virtual kernel (appendix A); queue program is a recording stand-in"]
    res.require_nonzero("evaluations", "local_parts_needing_quotes", "injections", "reparses")
    lib_conformance(res, rd, srca, ['bytes', 'ctl'], tier, asan=True)
    return res.finish()
