"""C04 Finished recipients are never retried; at most one attempt in flight (DESIGN.md 4/C04)."""
from lib.daemonchk import *


def main(tier, replay=None):
    if replay:
        return vk_replay("C04", replay)
    res = Result("C04", tier, "model_checking")
    M = "monitors=C04"
    q = tier == "quick"
    fams = [
        dict(name="outcomes-l1r1", opts=[M, "msgs=l1r1"], bounds="0,0,0,%d" % (2 if q else 4), total=4, deadline=1800),
        dict(name="passes-l3", opts=[M, "msgs=l3", "concl=3", "verdicts=KZ", "reorder=1", "signals=0"], bounds="0,0,0,%d" % (3 if q else 5), total=5, deadline=1800),
        dict(name="passes-l2-all-verdicts", opts=[M, "msgs=l2", "signals=0"], bounds="0,0,0,%d" % (2 if q else 4), total=4, deadline=1800),
        dict(name="lost-spawner-restart-l3", opts=[M, "msgs=l3", "concl=2", "signals=0", "verdicts=KDE", "reorder=2"], bounds="0,0,0,%d" % (2 if q else 4), total=4, deadline=1800),
        dict(name="faults-l1r1", opts=[M, "msgs=l1r1", "signals=0", "verdicts=KZ", "reorder=1"], bounds="0,1,0,%d" % (1 if q else 2), total=2 if q else 3, deadline=1800),
        dict(name="faults-l2-second-message", opts=[M, "msgs=l2+l1b", "inject=event", "signals=0", "verdicts=K", "reorder=1"], bounds="0,1,0,%d" % (1 if q else 2), total=2 if q else 3, deadline=1800),
        # every attempt is deferred unless chosen otherwise (the default answer costs nothing), so restarts find both channels pending
        dict(name="deferred-restart-fault-and-slow-deliveries", opts=[M, "msgs=l1r1", "verdicts=ZKT", "reorder=1", "concl=2"] + (["maxticks=4", "signals=2"] if q else ["maxticks=8"]), bounds="0,1,0,2", total=3, deadline=2400, qcap=0 if q else 3000000),
        dict(name="slow-deliveries-l3", opts=[M, "msgs=l3", "concl=2", "signals=0", "verdicts=KZT", "reorder=2"], bounds="0,0,0,%d" % (3 if q else 4), total=4, deadline=1800),
        dict(name="crash-l1r1", opts=[M, "msgs=l1r1", "signals=0"], bounds="0,0,1,%d" % (1 if q else 2), total=2 if q else 3, deadline=1800),
        dict(name="two-crashes-l1r1", opts=[M, "msgs=l1r1", "signals=0"], bounds="0,0,2,0", total=2, tier="thorough", deadline=1800),
        dict(name="crash-l2", opts=[M, "msgs=l2", "signals=0", "verdicts=KZD", "reorder=1"], bounds="0,0,1,%d" % (1 if q else 3), total=3 if q else 4, deadline=1800),
        dict(name="term-restart-l3", opts=[M, "msgs=l3", "concl=2", "verdicts=KZ", "reorder=2"], bounds="0,0,0,%d" % (2 if q else 4), total=4, deadline=1800),
    ]
    # "at most one attempt in flight" rests on there being one daemon: a second qmail-send started against the same queue (while the first runs, or drains after TERM) must refuse
    fams.append(dict(scn="c02", name="second-daemon-instance", opts=["family=second", "msgs=l1", "signals=0", "verdicts=KD", "reorder=1"], bounds="0,0,0,1", total=1))
    for cl in (0, 1, 2):
        for an in (0, 1, 2, 255):
            fams.append(dict(name="limits-c%d-a%d" % (cl, an), opts=[M, "msgs=l3+r2", "concl=%d" % cl, "concr=%d" % cl, "announce=%d" % an, "signals=0", "verdicts=KZ", "reorder=1", "maxticks=3"], bounds="0,0,0,%d" % (0 if q else 1), total=1))
    fams.append(dict(name="limits-c250-a200", opts=[M, "msgs=l1", "concl=250", "concr=250", "announce=200", "signals=0"], bounds="0,0,0,0", total=0))
    fams.append(dict(name="limits-c200-a128", opts=[M, "msgs=l1", "concl=200", "concr=130", "announce=128", "signals=0"], bounds="0,0,0,0", total=0))
    plain_src = run_families(res, "C04", tier, fams)
    res.rule = ("same history exploration as C03 (real qmail-send/qmail-clean/qmail-queue under the virtual kernel) with the C04 monitors: at every "
                "delivery command the named record must be T in the on-disk recipient list and have no outstanding attempt, outstanding attempts "
                "per channel <= min(configured, announced), no attempt after a K/D report in crash-free histories (also with slow deliveries: time passing to the daemon's next deadline while attempts are outstanding; with single failing calls of qmail-send and qmail-clean; with every attempt deferred by default so that restarts find work on both channels), every completion mark lands on "
                "the reported recipient's own record, limits taken from the daemon's own status line equal min(configured, announced) for the grid "
                "configured {0,1,2,200,250} x announced {0,1,2,128,200,255}")
    res.assumptions = ["virtual kernel (appendix A)", "recipient addresses are pairwise distinct so that a delivery command identifies its record", "a mark lost with un-fsynced data is not counted against the code"]
    res.require_nonzero("evaluations", "marks_written", "reports_Z", "machine_crashes", "clean_stops", "clamp_checks", "local_attempts", "remote_attempts")
    lib_conformance(res, rundir("C04lib"), plain_src, ['ctl', 'num', 'io'], tier, asan=False)
    return res.finish()
