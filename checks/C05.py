"""C05 Inbound SMTP DATA is decoded transparently and framed only by CRLF.CRLF (DESIGN.md 4/C05)."""
import os
from lib.common import *

EXCL = ("timeoutread.o", "timeoutwrite.o", "qmail.o")


def build(rd):
    src = scratch_build(rd, "asan")
    robj = prefixed_object(src, "qmail-remote.o", "r_", os.path.join(rd, "r_qmail-remote.o"))
    extra = [robj] + [w for w in load_line(src, "qmail-remote") if w not in EXCL and w not in load_line(src, "qmail-smtpd")]
    exe = compile_harness(src, os.path.join(rd, "c05"), [os.path.join(VERIF, "seq/c05_smtpd_blast.c"), os.path.join(VERIF, "seq/net_stubs.c")],
                          link_target="qmail-smtpd", exclude=EXCL, extra_objs=extra)
    return exe


def main(tier, replay=None):
    if replay:
        return vk_replay("C05", replay)
    res = Result("C05", tier, "exploration")
    rd = rundir("C05")
    exe = build(rd)
    if tier == "quick":
        jobs = [("%s blast 0 10 7" % exe, "decoder,{CR,LF,.,a}<=10"),
                ("%s blast 1 8 0" % exe, "decoder,{CR,LF,.,a,R}<=8"),
                ("%s roundtrip 0 10" % exe, "roundtrip<=10"),
                ("%s session 0 8" % exe, "session,payload<=8")]
    else:
        jobs = [("%s blast 0 12 9" % exe, "decoder,{CR,LF,.,a}<=12"),
                ("%s blast 1 10 0" % exe, "decoder,{CR,LF,.,a,R}<=10"),
                ("%s blast 2 11 0" % exe, "decoder,{CR,LF,.,SP}<=11"),
                ("%s roundtrip 0 12" % exe, "roundtrip<=12"),
                ("%s roundtrip 1 10" % exe, "roundtrip5<=10"),
                ("%s session 0 10" % exe, "session,payload<=10")]
    res.run_parallel(jobs)
    # program level: the real qmail-smtpd process (real fork/exec of a recording queue program) on every short DATA payload
    vk_build()
    plain = scratch_build(rd, "plain")
    ml = 5 if tier == "quick" else 7
    vk_run(res, "c07", plain, rd, "0,0,0,0", 0, 1500, "qmail-smtpd-process-payloads", opts=["family=payload", "maxlen=%d" % ml])
    # framing must hold whatever happens on the queue side: one failing fork/pipe/exec/read/write anywhere in a complete session
    vk_run(res, "c07", plain, rd, "0,1,0,0", 1, 900, "qmail-smtpd-framing-with-one-failing-call", opts=["family=faults"])
    vk_run(res, "c07", plain, rd, "0,0,0,0", 0, 1500, "qmail-smtpd-process-payloads-over-a-size-limit", opts=["family=payload", "maxlen=%d" % ml, "databytes=2"])
    # the session arriving in two pieces, cut at every byte
    vk_run(res, "c07", plain, rd, "0,1,0,0", 1, 900, "qmail-smtpd-input-in-two-pieces", opts=["family=shortreads"])
    # ... and whatever makes the server refuse the message while it is still arriving (size limit, hop limit, over-long addresses)
    vk_run(res, "c07", plain, rd, "0,0,0,0", 0, 900, "qmail-smtpd-framing-at-the-limits", opts=["family=limits"])
    res.rule = ("every byte string over the alphabet up to the bound is fed to the real blast() of qmail-smtpd.c followed by EOF "
                "(whole and in every chunking of reads for the shorter ones), through the real commands() loop as a DATA payload, "
                "and every message (complete lines) through a reference RFC 5321 sender and the real qmail-remote encoder into the "
                "real decoder; non-trivial = contains CR, LF or '.'; distinct counted per input string; program level (VK): every payload over "
                "{CR,LF,.,a} up to length %d followed by CRLF.CRLF through the real qmail-smtpd process with a recording queue program: the queued "
                "body equals the reference decoding and is acknowledged, a bare LF yields 451 and nothing queued; and complete sessions with one failing fork/pipe/exec/read/write: after a 354 reply "
                "exactly the message and the QUIT are answered, message lines are never executed as commands; the same for messages refused while arriving (body at the "
                "size limit -1/0/+1, 98..101 hop fields), for every payload again under a 2-byte size limit (refused permanently iff the decoded body is longer, and still consumed to its own end mark), "
                "and for complete sessions arriving in two pieces cut at every byte" % ml)
    res.assumptions = ["reference receiver/sender in seq/ref_smtp.h and c05_smtpd_blast.c follow RFC 5321 4.5.2",
                       "a line '.' CR <data> (never produced by a conforming sender) may keep or lose its dot: qmail keeps it, RFC strips it; both accepted",
                       "timeoutread/timeoutwrite and the qmail_* queue API are harness stand-ins (the queue side is C07's subject)"]
    res.require_nonzero("evaluations", "ref_end", "ref_barelf", "ref_eof", "roundtrips_qmail_remote", "sessions", "chunked_runs", "commits_verified", "refused_temporarily", "data_phase_framing_checked")
    lib_conformance(res, rd, plain, ['io', 'bytes'], tier, asan=False)
    return res.finish()
