"""C18 Helpers at trust boundaries act only on validated requests (DESIGN.md 4/C18)."""
import os
from lib.common import *


def main(tier, replay=None):
    if replay:
        return vk_replay("C18", replay)
    res = Result("C18", tier, "exploration")
    rd = rundir("C18")
    vk_build()
    src = scratch_build(rd, "plain")
    opts = ["thorough=1"] if tier == "thorough" else []
    vk_run(res, "c18clean", src, rd, "0,1,0,0", 1, 1800 if tier == "thorough" else 300, "qmail-clean-requests", opts=opts)
    th = ["thorough=1"] if tier == "thorough" else []
    for prog in ("rspawn", "lspawn"):
        for fam in ("ids", "cut", "multi", "split", "reuse"):
            vk_run(res, "c18spawn", src, rd, "0,0,0,0", 0, 1500, "%s-command-streams-%s" % (prog, fam), opts=["family=" + fam, "prog=" + prog] + th)
    # one report per command also when the delivery program is quicker than the spawner: every interleaving of spawner and child within the preemption bound
    for prog in ("rspawn", "lspawn"):
        vk_run(res, "c18spawn", src, rd, "%d,0,0,0" % (2 if tier == "quick" else 3), 3, 1500, "%s-child-races-the-spawner" % prog, opts=["family=fate", "prog=" + prog])
    res.rule = ("qmail-clean: every request of the set {f,o,p,t,d,/,x}^5 x representative suffixes + near-miss keywords x every suffix over "
                "{1,2,/,.,x,0xFF}^<=4 (thorough: the full product), lengths around the 7/100 limits, numbers around 2^64, unterminated final "
                "request; each request is fed alone (the helper is quiescent before the next one), the oracle compares the paths passed to "
                "unlink() and the bytes answered with the documented behaviour; plus a batch with every unlink failing once (EIO/EISDIR)")
    for prog in ("rspawn", "lspawn"):
        vk_run(res, "c18spawn", src, rd, "0,1,0,0", 1, 900, "%s-resource-failures" % prog, opts=["family=multi", "prog=" + prog])
    # qmail-send's report channels: stray, mangled and oversized reports while deliveries are in flight.  Run on the sanitised build as
    # well: a range check that is off by one reads a slot behind the delivery table, whose content is whatever the heap holds
    asan = scratch_build(rd, "asan")
    eb = 2 if tier == "quick" else 3
    for kind, tree in (("plain", src), ("sanitised", asan)):
        for msgs in (("l1r1",) if tier == "quick" else ("l1r1", "l3", "r2")):
            vk_run(res, "daemon", tree, rd, "0,0,0,%d" % eb, eb, 1500, "qmail-send-report-channels-%s-%s" % (msgs, kind),
                   opts=["monitors=C04,C03", "msgs=" + msgs, "signals=0", "verdicts=KZDghueOQkjzdmn", "reorder=2"] + (["concl=3"] if msgs == "l3" else []))
    res.rule += ("; qmail-send (real qmail-send/qmail-clean, the harness plays both spawners): while 1-3 deliveries are in flight every choice "
                 "of {success, deferral, failure, report numbered == concurrency, 255, a free slot, bare number+NUL, unknown status letter, "
                 "12000-byte deferral, success/deferral/failure reports arriving in two pieces (cut after the number, after the status letter, inside the text), a report cut after the status letter whose rest is overtaken by the next report of the other channel} for each of the 2 oldest deliveries, up to %d deviations from all-success, on the plain and the "
                 "sanitised build; oracle: stray reports change nothing (done-marks only after a matching verdict, every recipient still "
                 "attempted and resolved, no crash), mangled ones defer, oversized ones are truncated" % eb)
    res.rule += ("; spawners (real qmail-lspawn and qmail-rspawn, delivery programs are recording stand-ins): one command for every message id "
                 "of a 33-entry catalogue (valid, wrong owner, directory, FIFO, missing, absolute, dot-dot, doubled slash, letters, high bytes, "
                 "99/100/101 bytes, empty) x delivery numbers {0,1,119,120,127,128,255} x recipient/sender forms; a two-command stream cut after "
                 "every byte; every sequence of <=3 (thorough 4) commands over 7 (same delivery number twice, invalid between valid); oracle: "
                 "the spawner opens only numerically named paths below queue/mess, a delivery program is started iff id numeric + regular "
                 "file + queue owner + host part and reads exactly that message, exactly one report per complete command carrying its "
                 "delivery number, documented status letter; the same command sequences with one failing fork/pipe/open of the spawner itself: still one "
                 "report per command, a temporary one for the command that hit the failure, and the spawner exits at end of input; split: a first delivery program takes its time, "
                 "the second command arrives cut after every byte and the first delivery finishes between the two pieces: each report carries its own delivery number; "
                 "reuse: two deliveries one after the other through the same number, every ordered pair of 9 child fates; fate: one command whose delivery program ends in each of 9 ways, under every interleaving of spawner and child within the preemption bound (a child that is gone before the spawner has recorded it)")
    res.assumptions = ["a request is valid iff it is (foop|todo)/<decimal number < 2^64> NUL with total length 7..100"]
    res.require_nonzero("evaluations", "valid_requests", "rejected_requests", "unlink_failures_injected", "children_started", "reports_checked", "spawner_opens_checked", "reports_stray", "reports_garbage", "reports_oversized", "split_commands", "slot_reuses", "reports_in_two_pieces")
    lib_conformance(res, rd, src, ['num', 'io'], tier, asan=False)
    return res.finish()
