"""C18 Helpers at trust boundaries act only on validated requests (DESIGN.md 4/C18)."""
import os
from lib.common import *


def main(tier, replay=None):
    if replay:
        return vk_replay("C18", replay)
    res = Result("C18", tier, "exploration")
    rd = rundir("C18")
    vk_build()
    src = scratch_build(rd, "plain")
    opts = ["thorough=1"] if tier == "thorough" else []
    vk_run(res, "c18clean", src, rd, "0,1,0,0", 1, 1800 if tier == "thorough" else 300, "qmail-clean-requests", opts=opts)
    for f in sorted(globals().get("EXTRA_FAMILIES", [])):
        pass
    res.rule = ("qmail-clean: every request of the set {f,o,p,t,d,/,x}^5 x representative suffixes + near-miss keywords x every suffix over "
                "{1,2,/,.,x,0xFF}^<=4 (thorough: the full product), lengths around the 7/100 limits, numbers around 2^64, unterminated final "
                "request; each request is fed alone (the helper is quiescent before the next one), the oracle compares the paths passed to "
                "unlink() and the bytes answered with the documented behaviour; plus a batch with every unlink failing once (EIO/EISDIR)")
    res.assumptions = ["a request is valid iff it is (foop|todo)/<decimal number < 2^64> NUL with total length 7..100"]
    res.require_nonzero("evaluations", "valid_requests", "rejected_requests", "unlink_failures_injected")
    return res.finish()
