"""C09 Remote delivery verdicts are sound for every server behaviour (DESIGN.md 4/C09)."""
import os
from lib.common import *

EXCL = ("timeoutread.o", "timeoutwrite.o")


def main(tier, replay=None):
    res = Result("C09", tier, "exploration")
    if replay:
        return vk_replay("C09", replay)
    rd = rundir("C09")
    src = scratch_build(rd, "asan")
    extra = [w for w in load_line(src, "qmail-rspawn") if w not in load_line(src, "qmail-remote") and w != "spawn.o"]
    exe = compile_harness(src, os.path.join(rd, "c09"), [os.path.join(VERIF, "seq/c09_remote.c"), os.path.join(VERIF, "seq/c09_net.c")],
                          link_target="qmail-remote", exclude=EXCL, extra_objs=extra)
    def sh_(args, name, n=1):
        return [("%s %s %d %d" % (exe, args, i, n), name + (" [shard %d/%d]" % (i, n) if n > 1 else "")) for i in range(n)]
    if tier == "quick":
        jobs = (sh_("smtp 1 1 1", "smtp tree n=1, single+multi-line, all variants", 12) +
                sh_("smtp 1 2 0", "smtp tree n=1, all reply forms") +
                sh_("smtp 2 1 0", "smtp tree n=2, single+multi-line") +
                sh_("smtp 3 0 0", "smtp tree n=3, single-line") +
                [("%s report 6" % exe, "report() outputs<=6")])
    else:
        jobs = (sh_("smtp 1 2 1", "smtp tree n=1, all reply forms, all variants", 16) +
                sh_("smtp 2 2 0", "smtp tree n=2, all reply forms", 4) +
                sh_("smtp 2 1 1", "smtp tree n=2, single+multi-line, all variants", 16) +
                sh_("smtp 3 1 0", "smtp tree n=3, single+multi-line", 8) +
                [("%s report 7" % exe, "report() outputs<=7")])
    res.run_parallel(jobs)
    # process level: the spawner must relay the child's fate, whatever the order of end-of-file on the report pipe and SIGCHLD
    vk_build()
    plain = scratch_build(rd, "plain")
    pb = 2 if tier == "quick" else 4
    for prog in ("rspawn", "lspawn"):
        vk_run(res, "c18spawn", plain, rd, "%d,0,0,0" % pb, pb, 1500, "%s-relays-child-fate" % prog, opts=["family=fate", "prog=" + prog])
        vk_run(res, "c18spawn", plain, rd, "0,0,0,0", 0, 1500, "%s-slot-used-again" % prog, opts=["family=reuse", "prog=" + prog, "seqlen=%d" % (2 if tier == "quick" else 3)])
    # program level: the real qmail-remote process with scripted resolver answers, connect() outcomes and SMTP server
    for fam, opts in (("dns", []), ("connect", []), ("tcpto", []), ("smtp", ["maxrcpt=%d" % (2 if tier == "quick" else 3)]), ("msg", ["maxlen=%d" % (3 if tier == "quick" else 5)])):
        vk_run(res, "remote", plain, rd, "0,0,0,0", 0, 1500, "qmail-remote-process-" + fam, opts=["family=" + fam] + opts)
    res.rule = ("depth-first enumeration of the complete tree of server scripts: at each phase (greeting, HELO, MAIL, each RCPT, DATA, "
                "final dot) every answer of the phase's pool (reply codes of classes 2xx-5xx incl. boundary codes 399/400/499/500/599 in "
                "single-line, multi-line and odd forms incl. one 73-line reply of 5400 bytes (more than the client keeps for its report); garbage reply; disconnect or stall before / inside a reply), pruned only where the "
                "reference says the client has finished; variants = every single split point of the reply stream, 1-byte reads, replies sent "
                "ahead of the commands, each client write failing; each run executes the real smtp() and (n=1) feeds its output to the real "
                "report(); report() alone on every (status, output) pair; non-trivial = scripts (each distinct by construction)")
    res.rule += ("; process level (VK): the real qmail-rspawn and qmail-lspawn with a scripted delivery program that prints one of 9 "
                 "reports, closes its output and then exits 0/1/100/111 or dies from SIGSEGV/SIGKILL, under every interleaving of spawner and "
                 "child within the preemption bound (%d): the relayed status must follow the child's fate (crash/111 -> Z, other failure -> D); and %d "
                 "deliveries one after the other through the same delivery number, every ordered tuple of the 9 fates, each command sent when the "
                 "previous report has arrived: each report must be the verdict of its own child alone" % (pb, 2 if tier == "quick" else 3))
    res.rule += ("; program level (VK): the real qmail-remote process with the resolver, connect() and the peer scripted: 13 DNS situations (MX with "
                 "and without addresses, fallback to the host's address, no such domain, resolver failure, MX pointing back to this host, CNAME-only, "
                 "truncated/short MX records), 3 candidate addresses x {connected, refused, timed out, asynchronously connected/refused} each x "
                 "{normal, 4xx greeting}: attempts in preference order stopping at the first success; 4 states of lock/tcpto (all candidates marked as timed out once/twice, 100/3000/10000 s ago): marked addresses are not tried and the verdict is then a deferral; 1-3 recipients x the tree of {2xx,4xx,5xx,"
                 "closed,stalled until the timeout} per phase; verdicts, order of reports, 'possible duplicate' flag and exit status against the reference")
    res.assumptions = ["reference verdict function written from qmail-remote(8) and the property statement (seq/c09_remote.c ref_verdict)",
                       "function level: network = harness stand-ins for timeoutread/timeoutwrite; program level: resolver answers, connect() results and the peer are scripted by the virtual kernel scenario (vk/scn_remote.cpp)"]
    res.require_nonzero("evaluations", "verdict_K", "verdict_Z", "verdict_D", "possible_duplicate", "chained_into_report", "connect_attempts", "dns_queries", "messages_decoded_from_wire", "slot_reuses")
    lib_conformance(res, rd, src, ['io', 'num'], tier, asan=True)
    return res.finish()
