"""C19 The POP3 server shows the maildir faithfully and deletes only on request (DESIGN.md 4/C19)."""
from lib.daemonchk import *


def main(tier, replay=None):
    if replay:
        return vk_replay("C19", replay)
    res = Result("C19", tier, "model_checking")
    q = tier == "quick"
    fams = [
        dict(scn="c19", name="pop3d-state-graph", opts=["mode=pop3d", "fulldepth=%d" % (2 if q else 3)] + ([] if q else ["thorough=1"]), bounds="0,0,0,0", total=0, deadline=1800, qcap=0 if q else 8000000),
        dict(scn="c19", name="popup-sessions", opts=["mode=popup", "maxdepth=%d" % (3 if q else 4)], bounds="0,0,0,0", total=0, deadline=900),
    ]
    fams.append(dict(scn="c19", name="pop3d-clock-after-2038", opts=["mode=pop3d", "fulldepth=1", "epoch=2147483748"], bounds="0,0,0,0", total=0, deadline=900))
    fams.append(dict(scn="c19", name="pop3d-message-file-errors", opts=["mode=pop3d", "maxdepth=%d" % (1 if q else 2)], bounds="0,1,0,0", total=1, deadline=1200))
    plain_src = run_families(res, "C19", tier, fams)
    res.rule = ("pop3d: explicit-state exploration on the real qmail-pop3d under the virtual kernel: for each maildir population (empty; new/ and cur/; "
                "dot-leading lines, no final newline, empty and header-only files, files stored with CR LF line ends and a bare CR, hidden/future/tmp files) sessions are extended one command "
                "at a time from the alphabet {STAT, LIST [k], UIDL [k], DELE k, RETR k, TOP k j, RSET, LAST, NOOP, QUIT, unknown, lower case, a file "
                "vanishing, disconnect} with k in {0,1,2,n,n+1,2^32+1,2^64+1,x,empty}, j in {0,1,99}; a session stops at a state (deletion marks, "
                "vanished files) that was already extended - but never before its %d-th command, so every command is also seen directly after every other command (state the model does not know of, e.g. read-ahead of the previous message) - so every (state, command) transition of the reachable graph is executed at least once and "
                "compared with an RFC 1939 reference; the maildir is compared after QUIT / disconnect; the same graph with the clock at 2^31+100 s (time stamps beyond 31 bits); uid 0 must be refused; popup: every "
                "sequence of up to 3 (4) lines from 17 pre-authentication commands, replies and the bytes received by the checker on descriptor 3" % (3 if q else 4))
    res.assumptions = ["STAT's message count and LAST's value are outside the comparison (property text)", "messages have pairwise distinct mtimes (order among equal mtimes is unspecified)"]
    res.require_nonzero("evaluations", "replies_checked", "sessions_quit", "sessions_disconnected", "files_vanished", "root_refusals", "authentications", "sessions_merged_into_visited_state")
    lib_conformance(res, rundir("C19lib"), plain_src, ['num', 'io'], tier, asan=False)
    return res.finish()
