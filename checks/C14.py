"""C14 Bounces go back once, to the sender, and can neither loop nor be forged (DESIGN.md 4/C14)."""
import os
from lib.daemonchk import *


def main(tier, replay=None):
    if replay:
        return vk_replay("C14", replay)
    res = Result("C14", tier, "model_checking")
    q = tier == "quick"
    rd = rundir("C14seq")
    srca = scratch_build(rd, "asan")
    exe = compile_harness(srca, os.path.join(rd, "c14"), [os.path.join(VERIF, "seq/c14_addbounce.c")], link_target="qmail-send", exclude=("open.a",),
                          extra_objs=["open_read.o", "open_write.o", "open_excl.o", "open_trunc.o"])
    n = 16
    res.run_parallel([("%s %d %d %d" % (exe, 8 if q else 10, i, n), "addbounce text [shard %d/%d]" % (i, n)) for i in range(n)])
    M = "monitors=C14,C02"
    fams = [
        dict(name="subsets-and-orders-l3", opts=[M, "msgs=l3", "concl=3", "signals=0", "verdicts=KDF", "reorder=3"], bounds="0,0,0,%d" % (3 if q else 4), total=4, deadline=2400, qcap=0 if q else 4000000),
        dict(name="chain-bounce-double-discard", opts=[M, "msgs=l1r1", "signals=0", "verdicts=KD", "reorder=2"], bounds="0,0,0,%d" % (3 if q else 5), total=5, deadline=2400, qcap=0 if q else 4000000),
        dict(name="senders-verp-empty-dbl", opts=[M, "msgs=verp+empty+dbl", "signals=0", "verdicts=KD", "reorder=1"], bounds="0,0,0,%d" % (3 if q else 5), total=5, deadline=2400, qcap=0 if q else 4000000),
        dict(name="virtual-domain-recipients", opts=[M, "msgs=v1", "signals=0", "verdicts=KDF", "reorder=2"], bounds="0,0,0,%d" % (2 if q else 4), total=4, deadline=2400),
        dict(name="catch-all-and-exception-domains", opts=[M, "msgs=r2+v1", "catchall=1", "signals=0", "verdicts=KD", "reorder=2"], bounds="0,0,0,%d" % (2 if q else 3), total=3, deadline=2400),
        dict(name="expired-deferrals", opts=[M, "msgs=l2", "lifetime=50", "signals=0", "verdicts=KZD", "reorder=1"], bounds="0,0,0,%d" % (3 if q else 5), total=5, deadline=2400, qcap=0 if q else 4000000),
        dict(name="bounce-with-crash", opts=[M, "msgs=l2", "signals=0", "verdicts=KD", "reorder=1"], bounds="0,0,1,%d" % (2 if q else 3), total=3 if q else 4, deadline=2400),
    ]
    fams.append(dict(name="bounce-with-one-failing-call", opts=[M, "msgs=l1r1", "signals=0", "verdicts=KD", "reorder=1"], bounds="0,1,0,%d" % (2 if q else 3), total=3 if q else 4, deadline=2400))
    fams.append(dict(name="signal-while-waiting-for-the-bounce-injection", opts=[M, "msgs=l1r1", "signals=0", "verdicts=KD", "reorder=1", "sigwait=1"], bounds="0,0,0,%d" % (2 if q else 3), total=3, deadline=2400))
    fams.append(dict(name="configured-bounce-addresses", opts=[M, "msgs=l1r1+verp", "signals=0", "verdicts=KD", "reorder=2", "bouncectl=1"], bounds="0,0,0,%d" % (3 if q else 4), total=4, deadline=2400))
    run_families(res, "C14", tier, fams)
    res.rule = ("text: every failure text over {a,LF,<,>,:} up to the bound x a recipient pool (newlines, virtual prefixes, near misses) through the real "
                "addbounce(): the appended bytes must be exactly one paragraph with the documented header; chain: histories of the real "
                "qmail-send/qmail-clean/qmail-queue where every subset and order of recipients fails (D, hostile text, or Z past the queue "
                "lifetime), for ordinary, VERP, empty and #@[] senders and virtual-domain recipients, each generated notice followed until the "
                "queue is empty with its own delivery failing too; with a single failing call of qmail-send or qmail-clean anywhere; with default and with configured bouncefrom/bouncehost/doublebounceto/doublebouncehost; every notice queued by the daemon is parsed: From/To header, envelope, one paragraph per "
                "failed recipient and no other, original appended, no notice for a #@[] sender")
    res.assumptions = ["virtual kernel (appendix A)", "failed recipients' addresses are pairwise distinct, which identifies the original of a notice"]
    res.require_nonzero("evaluations", "blank_lines_neutralised", "virtual_prefix_stripped", "single_bounces_checked", "double_bounces_checked", "expired_deferrals", "machine_crashes", "signals_during_wait")
    lib_conformance(res, rd, srca, ['bytes', 'io', 'date'], tier, asan=True)
    return res.finish()
