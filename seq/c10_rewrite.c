/* C10: the real rewrite()/senderadd()/getcontrols()/regetcontrols() of qmail-send.c over the full
 * product of control-file configurations and an address pool, against an independent model of
 * qmail-send(8)/addresses(5).
 *   usage: c10_rewrite <scratchdir> <shard> <nshards> [hup]
 */
#define _GNU_SOURCE
#define main qmail_send_main
#include "qmail-send.c"
#undef main
#include "harness.h"
#include <ctype.h>
#include <sys/stat.h>
#include <fcntl.h>

static long n_eval, n_nontrivial, n_cfg, n_local, n_virtual, n_remote, n_hack, n_unspec, n_hup, n_sender;
static h_set distinct_out;

/* ---- configuration pools ---- */
static const char *P_locals[] = { "a.com", "Z.ORG" };
static const char *P_vdoms[] = { "u@a.com:t1", "A.com:t2", ".a.com:t3", ".com:t4", ":t5", "z.org:", "x.z.org:", ".z.org:t6" };
static const char *P_hack[] = { "a.com", "z.org" };
static const char *P_noat[] = { "me.net", "a.com" };
#define NL 2
#define NV 8
#define NH 2
#define NN 2
static const char *A_local[] = { "u", "U", "v", "u%z.org", "u%z.org%a.com", "", "u%x@z.org", "u%c.net", "u%", "%z.org", "a.b" };
static const char *A_suffix[] = { 0, "@a.com", "@A.Com", "@x.a.com", "@y.x.a.com", "@z.org", "@x.z.org", "@c.net", "@a.com@z.org", "@", "@com", "@.com", "@xa.com" };
#define NAL (sizeof A_local / sizeof A_local[0])
#define NAS (sizeof A_suffix / sizeof A_suffix[0])

struct cfg { unsigned locals, vdoms, hack, noat; };

static void wfile(const char *name, const char *const *pool, int n, unsigned mask, int always)
{
  char path[256]; FILE *f; int i;
  snprintf(path, sizeof path, "control/%s", name);
  if (!mask && !always) { unlink(path); return; }
  f = fopen(path, "w"); if (!f) { printf("HARNESS cannot write %s\n", path); h_real_exit(2); }
  for (i = 0; i < n; i++) if (mask & (1u << i)) fprintf(f, "%s\n", pool[i]);
  fclose(f);
}
static void write_cfg(const struct cfg *c, int all)
{
  wfile("locals", P_locals, NL, c->locals, 1);       /* present even when empty: no fallback to me */
  wfile("virtualdomains", P_vdoms, NV, c->vdoms, 0);
  if (all) {
    FILE *f;
    wfile("percenthack", P_hack, NH, c->hack, 0);
    f = fopen("control/envnoathost", "w"); fprintf(f, "%s\n", P_noat[c->noat]); fclose(f);
  }
}

/* ---- independent model ---- */
static int ci_eq(const char *a, size_t al, const char *b) { return strlen(b) == al && !strncasecmp(a, b, al); }
static int in_list(const char *const *pool, int n, unsigned mask, const char *s, size_t l)
{ int i; for (i = 0; i < n; i++) if ((mask & (1u << i)) && ci_eq(s, l, pool[i])) return 1; return 0; }
/* virtualdomains lookup: returns the tag for key s[0..l) or 0 */
static const char *vd_lookup(unsigned mask, const char *s, size_t l)
{
  int i;
  for (i = 0; i < NV; i++) if (mask & (1u << i)) {
    const char *e = P_vdoms[i], *colon = strchr(e, ':');
    if ((size_t) (colon - e) == l && !strncasecmp(e, s, l)) return colon + 1;
  }
  return 0;
}
static long rfind(const char *s, size_t n, char c) { long i; for (i = (long) n - 1; i >= 0; i--) if (s[i] == c) return i; return -1; }

/* returns channel 1 local / 2 remote; out = rewritten address.  *unspec = 1 if the documents do not
 * determine the result (percent hack producing a "fqdn" that itself contains '@' with further '%'). */
static int model(const struct cfg *c, const char *recip, char *out, int *unspec, int *hacked)
{
  char a[512]; size_t n; long at;
  *unspec = 0; *hacked = 0;
  snprintf(a, sizeof a, "%s", recip); n = strlen(a);
  if (rfind(a, n, '@') < 0) { n += snprintf(a + n, sizeof a - n, "@%s", P_noat[c->noat]); }
  for (;;) {
    long pc;
    at = rfind(a, n, '@');
    if (!in_list(P_hack, NH, c->hack, a + at + 1, n - at - 1)) break;
    pc = rfind(a, at, '%');
    if (pc < 0) break;
    /* user%fqdn@domain -> user@fqdn */
    a[pc] = '@'; n = at; a[n] = 0; *hacked = 1;
    if (memchr(a + pc + 1, '@', n - pc - 1) && rfind(a, pc, '%') >= 0) { *unspec = 1; }
  }
  at = rfind(a, n, '@');
  if (in_list(P_locals, NL, c->locals, a + at + 1, n - at - 1)) { strcpy(out, a); return 1; }
  {
    const char *tag = 0; size_t i;
    tag = vd_lookup(c->vdoms, a, n);                                  /* full address */
    if (!tag) tag = vd_lookup(c->vdoms, a + at + 1, n - at - 1);      /* domain */
    if (!tag) for (i = at + 1; i < n && !tag; i++) if (a[i] == '.') tag = vd_lookup(c->vdoms, a + i, n - i); /* longest dot-suffix first */
    if (!tag) tag = vd_lookup(c->vdoms, "", 0);                       /* catch-all */
    if (tag && *tag) { snprintf(out, 600, "%s-%s", tag, a); return 1; }
  }
  strcpy(out, a);
  return 2;
}

static void check_addr(const struct cfg *c, const char *recip, const char *ctx)
{
  char want[700], tmp[512], key[900]; int wch, unspec, hacked, r;
  wch = model(c, recip, want, &unspec, &hacked);
  snprintf(tmp, sizeof tmp, "%s", recip);
  snprintf(h_cur, sizeof h_cur, "c10 cfg=L%x,V%x,H%x,N%u recip=%s %s", c->locals, c->vdoms, c->hack, c->noat, recip, ctx);
  r = rewrite(tmp);
  n_eval++;
  if (unspec) { n_unspec++; return; }
  if (hacked) n_hack++;
  snprintf(key, sizeof key, "rewrite:L%x,V%x,H%x,N%u:%s%s", c->locals, c->vdoms, c->hack, c->noat, H_ESC(recip, strlen(recip)), ctx);
  if (r != wch) { H_FAIL(key, "routed %s, documented rules say %s (model address %s, got %s)", r == 1 ? "local" : r == 2 ? "remote" : "error", wch == 1 ? "local" : "remote", want, H_ESC(rwline.s, rwline.len)); return; }
  if (rwline.len != strlen(want) + 2 || rwline.s[0] != 'T' || memcmp(rwline.s + 1, want, strlen(want) + 1)) {
    H_FAIL(key, "rewritten as %s, documented rules give T%s", H_ESC(rwline.s, rwline.len), want); return;
  }
  if (wch == 1 && strcmp(want, recip) && !hacked) n_virtual++; else if (wch == 1) n_local++; else n_remote++;
  if (h_set_add(&distinct_out, h_fnv(rwline.s, rwline.len, r))) n_nontrivial++;
  if ((n_eval % 150001) == 1) H_SAMPLE("locals=%x vdoms=%x percenthack=%x envnoathost=%s: %s -> %s %s", c->locals, c->vdoms, c->hack, P_noat[c->noat], recip, r == 1 ? "local" : "remote", H_ESC(rwline.s + 1, rwline.len - 2));
}

static void all_addrs(const struct cfg *c, const char *ctx)
{
  unsigned i, j; char recip[256];
  for (i = 0; i < NAL; i++) for (j = 0; j < NAS; j++) {
    snprintf(recip, sizeof recip, "%s%s", A_local[i], A_suffix[j] ? A_suffix[j] : "");
    check_addr(c, recip, ctx);
  }
}

static void ref_senderadd(const char *sender, const char *recip, char *out)
{
  size_t i = strlen(sender); long j, k;
  if (i >= 4 && !strcmp(sender + i - 4, "-@[]")) {
    j = rfind(sender, i - 4, '@'); k = rfind(recip, strlen(recip), '@');
    if (j >= 0 && k >= 0) {
      /* owner-@host-@[] -> owner-recipbox=reciphost@host */
      sprintf(out, "%.*s%.*s=%s@%.*s", (int) j, sender, (int) k, recip, recip + k + 1, (int) (i - 5 - j), sender + j + 1);
      return;
    }
  }
  strcpy(out, sender);
}

int main(int argc, char **argv)
{
  struct cfg c; int shard, nshards, hup = 0; long cfgno = 0;
  h_init();
  if (argc < 4) return 2;
  if (chdir(argv[1]) == -1) return 2;
  mkdir("control", 0755);
  { FILE *f = fopen("control/me", "w"); fprintf(f, "me.example\n"); fclose(f); }
  shard = atoi(argv[2]); nshards = atoi(argv[3]); if (argc > 4) hup = 1;
  if (!hup) {
    for (c.locals = 0; c.locals < (1u << NL); c.locals++)
      for (c.vdoms = 0; c.vdoms < (1u << NV); c.vdoms++)
        for (c.hack = 0; c.hack < (1u << NH); c.hack++)
          for (c.noat = 0; c.noat < NN; c.noat++) {
            if ((cfgno++ % nshards) != shard) continue;
            write_cfg(&c, 1);
            if (!getcontrols()) { printf("HARNESS getcontrols failed\n"); h_real_exit(2); }
            n_cfg++;
            all_addrs(&c, "");
          }
    if (shard == 0) {
      static const char *S[] = { "", "#@[]", "o-@h-@[]", "-@[]", "o@h", "o-@h@x-@[]", "a-@[]", "list-owner-@lists.example-@[]", "@-@[]", "x-@[]y" };
      static const char *R[] = { "r@d", "r", "r@d@e", "", "r@", "@d", "a=b@d" };
      unsigned i, j;
      for (i = 0; i < sizeof S / sizeof S[0]; i++) for (j = 0; j < sizeof R / sizeof R[0]; j++) {
        static stralloc sa = {0}; char want[512], key[256];
        sa.len = 0; senderadd(&sa, (char *) S[i], (char *) R[j]); n_eval++; n_sender++;
        ref_senderadd(S[i], R[j], want);
        snprintf(key, sizeof key, "senderadd:%s:%s", S[i], R[j]);
        if (sa.len != strlen(want) || memcmp(sa.s, want, sa.len)) H_FAIL(key, "sender %s for recipient %s expanded to %s, documented %s", S[i], R[j], H_ESC(sa.s, sa.len), want);
        if (i == 2 && j == 0) H_SAMPLE("senderadd(%s, %s) = %s", S[i], R[j], want);
      }
    }
  } else {
    /* HUP: start with configuration A, rewrite locals/virtualdomains to B, regetcontrols(); B's locals and
     * virtualdomains must apply with A's percenthack/envnoathost */
    struct cfg a, b, eff;
    for (a.locals = 0; a.locals < (1u << NL); a.locals++) for (a.vdoms = 0; a.vdoms < (1u << NV); a.vdoms += 37)
      for (b.locals = 0; b.locals < (1u << NL); b.locals++) for (b.vdoms = 0; b.vdoms < (1u << NV); b.vdoms++) {
        if ((cfgno++ % nshards) != shard) continue;
        a.hack = (cfgno >> 1) & 3; a.noat = cfgno & 1; b.hack = 0; b.noat = 0;
        write_cfg(&a, 1);
        if (!getcontrols()) { printf("HARNESS getcontrols failed\n"); h_real_exit(2); }
        write_cfg(&b, 0);
        regetcontrols(); n_hup++; n_cfg++;
        eff = a; eff.locals = b.locals; eff.vdoms = b.vdoms;
        all_addrs(&eff, ":after-HUP");
      }
    /* documented default: no control/locals file means locals = me; HUP must keep working */
    if (shard == 0) {
      struct cfg z = { 0, 0, 0, 0 }; char tmp[64], key[64];
      write_cfg(&z, 1); unlink("control/locals");
      if (!getcontrols()) { printf("HARNESS getcontrols failed\n"); h_real_exit(2); }
      z.vdoms = 1u << 1; /* A.com:t2 */
      wfile("virtualdomains", P_vdoms, NV, z.vdoms, 0);
      regetcontrols(); n_hup++;
      strcpy(tmp, "u@a.com"); strcpy(key, "rewrite:HUP-without-locals-file:u@a.com");
      n_eval++;
      if (rewrite(tmp) != 1 || strcmp(rwline.s + 1, "t2-u@a.com")) H_FAIL(key, "after HUP with no control/locals (default me), new virtual domain a.com not applied: %s", H_ESC(rwline.s, rwline.len));
      strcpy(tmp, "u@me.example"); n_eval++;
      if (rewrite(tmp) != 1 || strcmp(rwline.s + 1, "u@me.example")) H_FAIL("rewrite:HUP-without-locals-file:u@me.example", "default locals=me lost after HUP: %s", H_ESC(rwline.s, rwline.len));
    }
  }
  printf("STAT evaluations=%ld distinct_nontrivial=%ld configurations=%ld routed_local=%ld routed_virtual=%ld routed_remote=%ld percent_hack_applied=%ld unspecified_skipped=%ld hup_rereads=%ld senderadd_cases=%ld\n",
         n_eval, n_nontrivial, n_cfg, n_local, n_virtual, n_remote, n_hack, n_unspec, n_hup, n_sender);
  fflush(stdout);
  h_real_exit(h_nfail ? 1 : 0);
}
