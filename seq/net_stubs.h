/* state shared between a harness and net_stubs.c (stand-ins for timeoutread.o/timeoutwrite.o) */
#ifndef NET_STUBS_H
#define NET_STUBS_H
#include <stddef.h>
extern const unsigned char *net_in; extern size_t net_in_len, net_in_off;
extern unsigned long net_chunkmask;      /* bit i: read boundary after byte i (first 64 bytes) */
extern int net_read_error_at;            /* offset at which read fails with EIO (-1: never) */
extern int net_timeout_at;               /* offset at which read times out (-1: never) */
extern unsigned char net_out[1 << 17]; extern size_t net_out_len;
extern long net_reads, net_writes;
#endif
