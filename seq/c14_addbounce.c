/* C14 (text part): the real addbounce()/stripvdomprepend() of qmail-send.c on every failure text over
 * {a, LF, '<', '>', ':'} up to a length bound and a recipient pool (newlines, virtual-domain prefixes).
 * The bounce file is a memfd handed out by a harness open_append().
 *   usage: c14_addbounce <maxlen> <shard> <nshards>
 */
#define _GNU_SOURCE
#define main qmail_send_main
#include "qmail-send.c"
#undef main
#include "harness.h"
#include <sys/mman.h>
#include <fcntl.h>

static int mfd = -1;
int open_append(const char *fn) { (void) fn; lseek(mfd, 0, SEEK_END); return dup(mfd); }

static long n_eval, n_nontrivial, n_blank_neutralised, n_stripped;
static h_set distinct_out;

static void check(const char *recip, const char *want_addr, const unsigned char *t, size_t tn)
{
  static char rep[64], rc[128], P[4096], key[400]; ssize_t pl; size_t hl, i, j; char hdr[200];
  memcpy(rep, t, tn); rep[tn] = 0;
  snprintf(rc, sizeof rc, "%s", recip);
  snprintf(h_cur, sizeof h_cur, "c14 recip=%s report=%s", H_ESC(recip, strlen(recip)), H_ESC(t, tn));
  if (ftruncate(mfd, 0) == -1) h_real_exit(2);
  addbounce(77, rc, rep);
  n_eval++;
  pl = pread(mfd, P, sizeof P - 1, 0); if (pl < 0) h_real_exit(2); P[pl] = 0;
  snprintf(key, sizeof key, "addbounce:%s:%s", H_ESC(recip, strlen(recip)), H_ESC(t, tn));
  /* header: <address>:\n with newlines of the address neutralised and the virtual prefix removed */
  snprintf(hdr, sizeof hdr, "<%s>:\n", want_addr);
  for (i = 1; hdr[i + 3]; i++) if (hdr[i] == '\n') hdr[i] = '_';
  hl = strlen(hdr);
  if ((size_t) pl < hl || memcmp(P, hdr, hl)) { H_FAIL(key, "paragraph starts with %s, documented header %s", H_ESC(P, pl < 60 ? pl : 60), H_ESC(hdr, hl)); return; }
  /* exactly one paragraph: ends with a blank line, and no blank line before the end */
  if (pl < 2 || P[pl - 1] != '\n' || P[pl - 2] != '\n') { H_FAIL(key, "paragraph is not terminated by an empty line: %s", H_ESC(P, pl)); return; }
  { ssize_t e = pl; while (e > 0 && P[e - 1] == '\n') e--;
    for (i = 0; i + 1 < (size_t) e; i++) if (P[i] == '\n' && P[i + 1] == '\n') { H_FAIL(key, "failure text opens a new paragraph inside the notice (empty line at offset %zu): %s", i, H_ESC(P, pl)); return; } }
  /* the text itself is preserved: all non-newline bytes in order, same number of lines or fewer */
  for (i = hl, j = 0; j < tn; j++) { if (t[j] == '\n') continue; while (i < (size_t) pl && (P[i] == '\n' || (P[i] == '/' && t[j] != '/'))) i++; if (i >= (size_t) pl || P[i] != (char) t[j]) { H_FAIL(key, "failure text not preserved: %s", H_ESC(P, pl)); return; } i++; }
  for (j = 0; j + 1 < tn; j++) if (t[j] == '\n' && t[j + 1] == '\n') { n_blank_neutralised++; break; }
  if (strcmp(recip, want_addr)) n_stripped++;
  if (h_set_add(&distinct_out, h_fnv(P, pl, 0))) n_nontrivial++;
  if ((n_eval % 200003) == 1) H_SAMPLE("recipient %s report %s -> %s", H_ESC(recip, strlen(recip)), H_ESC(t, tn), H_ESC(P, pl));
}

int main(int argc, char **argv)
{
  static const char alpha[] = { 'a', '\n', '<', '>', ':' };
  static const char *R[][2] = { { "u@a.com", "u@a.com" }, { "vuser-info@virt.example", "info@virt.example" }, { "vsub-x@sub.virt.example", "x@sub.virt.example" },
    { "vuserinfo@virt.example", "vuserinfo@virt.example" }, { "other-info@virt.example", "other-info@virt.example" }, { "u\nv@a.com", "u\nv@a.com" },
    { "\n\n<x@a.com>:\n@a.com", "\n\n<x@a.com>:\n@a.com" }, { "vuser-a\n\nb@virt.example", "a\n\nb@virt.example" }, { "noat", "noat" }, { "vsub-@deep.sub.virt.example", "@deep.sub.virt.example" },
    { "VUSER-info@VIRT.example", "VUSER-info@VIRT.example" }, { "", "" },
    /* with the second configuration (catch-all ":catchall" and exception "far2.example:") */
    { "catchall-joe@nowhere.test", "joe@nowhere.test" }, { "catchall-joe@far2.example", "catchall-joe@far2.example" }, { "vuser-info@virt.example", "info@virt.example" },
    { "catchall-@x", "@x" }, { "catchalljoe@nowhere.test", "catchalljoe@nowhere.test" } };
#define NR1 12
  int maxlen, shard, nshards, n, idx[16]; unsigned char t[16]; long cnt = 0; unsigned r;
  static char vd[] = "virt.example:vuser\0.virt.example:vsub\0";
  static char vd2[] = "virt.example:vuser\0.virt.example:vsub\0:catchall\0far2.example:\0";
  h_init();
  if (argc < 4) return 2;
  maxlen = atoi(argv[1]); shard = atoi(argv[2]); nshards = atoi(argv[3]);
  mfd = memfd_create("bounce", 0); if (mfd < 0) return 2;
  if (!constmap_init(&mapvdoms, vd, sizeof vd - 1, 1)) return 2;
  fnmake_init();
  for (n = 0; n <= maxlen; n++) {
    memset(idx, 0, sizeof idx);
    do {
      int i; if ((cnt++ % nshards) != shard) continue;
      for (i = 0; i < n; i++) t[i] = alpha[idx[i]];
      for (r = 0; r < NR1; r++) { if (r >= 2 && n > 6) break; check(R[r][0], R[r][1], t, n); }
    } while (h_odo_next(idx, n, 5));
  }
  if (shard == 0) {
    static const unsigned char tt[] = "no such user\n";
    constmap_free(&mapvdoms);
    if (!constmap_init(&mapvdoms, vd2, sizeof vd2 - 1, 1)) return 2;
    for (r = NR1; r < sizeof R / sizeof R[0]; r++) check(R[r][0], R[r][1], tt, sizeof tt - 1);
  }
  printf("STAT evaluations=%ld distinct_nontrivial=%ld blank_lines_neutralised=%ld virtual_prefix_stripped=%ld\n", n_eval, n_nontrivial, n_blank_neutralised, n_stripped);
  fflush(stdout);
  h_real_exit(h_nfail ? 1 : 0);
}
