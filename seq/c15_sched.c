/* C15 (arithmetic and priority-queue part): the real squareroot()/nextretry() of qmail-send.c and the
 * real prioq.c, exhaustively within bounds.
 *   sqrt <lo> <hi>            every x in [lo,hi): r*r <= x < (r+1)*(r+1)
 *   sqrtedges                 k*k-1, k*k, k*k+1 for every k < 65536, and x near 2^32
 *   retry                     nextretry() on a dense (birth, now, channel) grid vs. the formula
 *   prioq <depth> <nkeys>     every sequence of <= depth insert/delmin operations over nkeys key
 *                             values (DFS over the real heap, reference = unsorted multiset)
 *   prioqperm <n>             every insertion order of n distinct keys, then n delmins
 */
#define main qmail_send_main
#include "qmail-send.c"
#undef main
#include "harness.h"

static long n_eval, n_nontrivial, n_states, n_trans;

static uint64_t isqrt_ref(uint64_t x)
{ /* independent: Newton iteration on 64-bit integers */
  uint64_t r, r1;
  if (x < 2) return x;
  r = x; r1 = (r + 1) / 2;
  while (r1 < r) { r = r1; r1 = (r + x / r) / 2; }
  return r;
}

static void check_sqrt(uint64_t x)
{
  uint64_t r = (uint64_t) squareroot((datetime_sec) x);
  n_eval++;
  if (!(r * r <= x && x < (r + 1) * (r + 1))) {
    char key[64]; snprintf(key, sizeof key, "squareroot:%llu", (unsigned long long) x);
    H_FAIL(key, "squareroot(%llu) = %llu, want %llu", (unsigned long long) x, (unsigned long long) r, (unsigned long long) isqrt_ref(x));
  }
}

static void check_retry(datetime_sec birth, datetime_sec nowv, int c)
{
  datetime_sec got, want; uint64_t age, n;
  recent = nowv;
  got = nextretry(birth, c);
  n_eval++;
  age = birth > nowv ? 0 : (uint64_t) (nowv - birth);
  n = isqrt_ref(age) + (c == 0 ? 10 : 20);
  want = birth + (datetime_sec) (n * n);
  if (age > 0) n_nontrivial++;
  if (got != want || !(got > nowv)) {
    char key[96]; snprintf(key, sizeof key, "nextretry:birth=%ld,now=%ld,chan=%d", (long) birth, (long) nowv, c);
    H_FAIL(key, "nextretry = %ld, formula gives %ld (must be > now=%ld)", (long) got, (long) want, (long) nowv);
  }
}

/* ---- prioq ---- */
#define MAXE 16
static struct { datetime_sec dt; unsigned long id; } refset[MAXE]; static int refn;
static prioq pq;
static h_set heapstates;
static char opstr[64];

static void pq_check(const char *where)
{
  struct prioq_elt pe; int i, found = 0; datetime_sec mn = 0;
  n_eval++;
  if ((int) pq.len != refn) { char key[128]; snprintf(key, sizeof key, "prioq:%s", opstr); H_FAIL(key, "%s: heap holds %d elements, reference %d", where, (int) pq.len, refn); return; }
  if (!prioq_min(&pq, &pe)) { if (refn) { char key[128]; snprintf(key, sizeof key, "prioq:%s", opstr); H_FAIL(key, "%s: prioq_min says empty, reference has %d", where, refn); } return; }
  if (!refn) { char key[128]; snprintf(key, sizeof key, "prioq:%s", opstr); H_FAIL(key, "%s: prioq_min returned an element from an empty queue", where); return; }
  for (i = 0; i < refn; i++) { if (i == 0 || refset[i].dt < mn) mn = refset[i].dt; if (refset[i].id == pe.id && refset[i].dt == pe.dt) found = 1; }
  if (!found || pe.dt != mn) {
    char key[128]; snprintf(key, sizeof key, "prioq:%s", opstr);
    H_FAIL(key, "%s: prioq_min returned (dt=%ld,id=%lu); earliest due is dt=%ld (present=%d)", where, (long) pe.dt, pe.id, (long) mn, found);
  }
}

static void pq_dfs(int depth, int maxdepth, int nkeys, unsigned long nextid)
{
  int op;
  struct prioq_elt save[MAXE]; int savelen = pq.len, saverefn = refn, i;
  typeof(refset[0]) saveref[MAXE];
  if (depth == maxdepth) return;
  memcpy(save, pq.p, sizeof(struct prioq_elt) * pq.len);
  memcpy(saveref, refset, sizeof saveref);
  for (op = 0; op <= nkeys; op++) {
    size_t l = strlen(opstr);
    if (op < nkeys) {
      static const datetime_sec keys[] = { 100, 200, 10000, 50, 300, 7 };
      struct prioq_elt pe; pe.dt = keys[op]; pe.id = nextid;
      if (refn >= MAXE) continue;
      snprintf(opstr + l, sizeof opstr - l, "i%d", op);
      if (!prioq_insert(&pq, &pe)) { printf("HARNESS prioq_insert nomem\n"); h_real_exit(2); }
      refset[refn].dt = pe.dt; refset[refn].id = pe.id; refn++;
    } else {
      struct prioq_elt pe;
      snprintf(opstr + l, sizeof opstr - l, "d");
      if (prioq_min(&pq, &pe)) {
        for (i = 0; i < refn; i++) if (refset[i].id == pe.id) { refset[i] = refset[refn - 1]; refn--; break; }
      }
      prioq_delmin(&pq);
    }
    n_trans++;
    pq_check("after op");
    {
      uint64_t h = 0; unsigned int k;
      for (k = 0; k < pq.len; k++) h = h_fnv(&pq.p[k].dt, sizeof pq.p[k].dt, h ? h : 7);
      h = h_fnv(&pq.len, sizeof pq.len, h ? h : 9);
      if (h_set_add(&heapstates, h)) n_states++;
    }
    if (depth + 1 == maxdepth && (n_trans % 300007) == 1) H_SAMPLE("prioq ops %s (iK = insert key K, d = delmin) -> heap size %d", opstr, (int) pq.len);
    pq_dfs(depth + 1, maxdepth, nkeys, nextid + 1);
    opstr[l] = 0;
    pq.len = savelen; memcpy(pq.p, save, sizeof(struct prioq_elt) * savelen);
    refn = saverefn; memcpy(refset, saveref, sizeof saveref);
  }
}

static void pq_perm(int n)
{
  int perm[12], i, c[12];
  for (i = 0; i < n; i++) { perm[i] = i; c[i] = 0; }
  i = 0;
  for (;;) {
    int k; struct prioq_elt pe; datetime_sec last = -1;
    pq.len = 0; refn = 0; opstr[0] = 0;
    for (k = 0; k < n; k++) { pe.dt = 10 * (perm[k] + 1); pe.id = perm[k]; snprintf(opstr + strlen(opstr), 8, "%d,", perm[k]); prioq_insert(&pq, &pe); }
    for (k = 0; k < n; k++) {
      if (!prioq_min(&pq, &pe) || pe.dt != 10 * (k + 1)) { char key[128]; snprintf(key, sizeof key, "prioqperm:%s", opstr); H_FAIL(key, "insertion order %s: delmin #%d yields dt=%ld, want %d", opstr, k, (long) pe.dt, 10 * (k + 1)); break; }
      last = pe.dt; prioq_delmin(&pq);
    }
    (void) last;
    n_eval++; n_trans += 2 * n; n_nontrivial++;
    /* Heap's algorithm, iterative */
    while (i < n && c[i] >= i) { c[i] = 0; i++; }
    if (i >= n) break;
    { int a = (i % 2) ? c[i] : 0, t = perm[a]; perm[a] = perm[i]; perm[i] = t; }
    c[i]++; i = 0;
  }
}

int main(int argc, char **argv)
{
  h_init();
  if (argc < 2) return 2;
  { struct prioq_elt pe = {0, 0}; int i; for (i = 0; i < MAXE + 2; i++) prioq_insert(&pq, &pe); pq.len = 0; }
  if (!strcmp(argv[1], "sqrt")) {
    uint64_t lo = strtoull(argv[2], 0, 10), hi = strtoull(argv[3], 0, 10), x;
    for (x = lo; x < hi; x++) check_sqrt(x);
    n_nontrivial = hi - lo;
    H_SAMPLE("squareroot(x) for every x in [%llu,%llu)", (unsigned long long) lo, (unsigned long long) hi);
  } else if (!strcmp(argv[1], "sqrtedges")) {
    uint64_t k;
    for (k = 1; k < 65536; k++) { check_sqrt(k * k - 1); check_sqrt(k * k); if (k * k + 1 < (1ULL << 32)) check_sqrt(k * k + 1); n_nontrivial += 3; }
    for (k = 0; k < 4096; k++) { check_sqrt((1ULL << 32) - 1 - k); n_nontrivial++; }
    H_SAMPLE("squareroot(k*k-1), (k*k), (k*k+1) for k=1..65535; last 4096 values below 2^32");
  } else if (!strcmp(argv[1], "retry")) {
    static const datetime_sec births[] = { 0, 1, 999999999, 1000000000, 1700000000, 2147483647L, 4000000000L };
    unsigned b; int c; datetime_sec age;
    for (b = 0; b < sizeof births / sizeof births[0]; b++)
      for (c = 0; c < 2; c++) {
        for (age = -3; age < 20000; age++) check_retry(births[b], births[b] + age, c);
        for (age = 20000; age < 700000; age += 37) check_retry(births[b], births[b] + age, c);
        { uint64_t k; for (k = 140; k < 1000; k++) { check_retry(births[b], births[b] + k * k - 1, c); check_retry(births[b], births[b] + k * k, c); check_retry(births[b], births[b] + k * k + 1, c); } }
      }
    H_SAMPLE("nextretry(birth=1000000000, now=birth+100, local) = birth + (10+10)^2");
  } else if (!strcmp(argv[1], "prioq")) {
    pq_dfs(0, atoi(argv[2]), atoi(argv[3]), 1);
    n_nontrivial = n_states;
  } else if (!strcmp(argv[1], "prioqperm")) {
    pq_perm(atoi(argv[2]));
    H_SAMPLE("all %s! insertion orders of distinct keys 10..%s0 followed by delmin until empty", argv[2], argv[2]);
  } else return 2;
  printf("STAT evaluations=%ld distinct_nontrivial=%ld states=%ld transitions=%ld\n", n_eval, n_nontrivial, n_states, n_trans);
  fflush(stdout);
  h_real_exit(h_nfail ? 1 : 0);
}
