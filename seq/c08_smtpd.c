/* C08: explicit-state model checking of SMTP transactions on the real qmail-smtpd.c.
 * A state is the server's own transaction state (seenmail, flagbarf, mailfrom, rcptto, helohost); each
 * transition restores a state, feeds one command line (DATA: plus a payload) to the real commands() loop and
 * records replies, the envelope handed to the queue, and the successor state.  Breadth-first with a visited set
 * until no new state appears or the depth bound is reached, for one configuration per process.
 *   usage: c08_smtpd <scratchdir> <config-index> <maxdepth>
 * Oracles: (1) a reference transaction machine driven only by the replies (sender of the latest MAIL answered
 * 250, recipients answered 250 since it); (2) independent rcpthosts/morercpthosts/badmailfrom/length policy.
 */
#define _GNU_SOURCE
#define main qmail_smtpd_main
#include "qmail-smtpd.c"
#undef main
#include "harness.h"
#include "smtpd_env.h"
#include "cdbmss.h"
#include <sys/stat.h>
#include <fcntl.h>
#include <ctype.h>

time_t time(time_t *t) { if (t) *t = 1000000000; return 1000000000; }

/* ---- configuration ---- */
static int cf_rcpthosts, cf_more, cf_bmf, cf_liph; static const char *cf_relay; /* relay: 0 unset, "" empty, "@gw.example" */
static const char *RH[] = { "a.example", ".sub.example", "MiXedZ.Example" };   /* Z: the last letter case folding must reach */
static const char *MRH[] = { "more.example", ".wild.more.example" };
static const char *BMF[][2] = { { 0, 0 }, { "spammer@bad.example", 0 }, { "@bad.example", "other@x.example" } };

static int ci_ends(const char *s, const char *suf) { size_t a = strlen(s), b = strlen(suf); return a >= b && !strcasecmp(s + a - b, suf); }
static int list_allows(const char *const *l, int n, const char *dom)
{
  int i; size_t j;
  for (i = 0; i < n; i++) {
    if (l[i][0] != '.' && !strcasecmp(l[i], dom)) return 1;
    if (l[i][0] == '.') { for (j = 0; dom[j]; j++) if (dom[j] == '.' && !strcasecmp(dom + j, l[i])) return 1; if (!strcasecmp(dom, l[i])) return 1; }
  }
  (void) ci_ends;
  return 0;
}
/* documented policy for a parsed address */
static int ref_allowed(const char *a)
{
  const char *at = strrchr(a, '@');
  if (!cf_rcpthosts) return 1;
  if (!at) return 1;
  if (cf_rcpthosts == 1 && list_allows(RH, 3, at + 1)) return 1;
  if (cf_more == 2) return -1;   /* the compiled extra list cannot be read: neither allowed nor refused -- the server must give up (421) */
  if (cf_more && list_allows(MRH, 2, at + 1)) return 1;
  return 0;
}
static int ref_badsender(const char *a)
{
  int i; const char *at = strrchr(a, '@');
  for (i = 0; i < 2; i++) { const char *b = BMF[cf_bmf][i]; if (!b) continue; if (!strcasecmp(b, a)) return 1; if (b[0] == '@' && at && !strcasecmp(b, at)) return 1; }
  return 0;
}

/* ---- command alphabet: line, and (for MAIL/RCPT) the address the documents say it denotes (0 = must be refused) ---- */
struct cmd { const char *line; int kind; const char *addr; }; /* kind 0 other, 1 MAIL, 2 RCPT, 3 DATA, 4 reset (HELO/EHLO/RSET), 5 QUIT */
static char long901[1000], long899[1000], rcpt_long[1100], mail_long[1100], rcpt_liph_long[1100];
static struct cmd cmds[48]; static int ncmds;
static void add(const char *l, int k, const char *a) { cmds[ncmds].line = l; cmds[ncmds].kind = k; cmds[ncmds].addr = a; ncmds++; }
static char liph_grown[1000];
static void build_cmds(void)
{
  memset(long901, 'x', 893); strcpy(long901 + 893, "@a.example");   /* 903 bytes: over the limit */
  memset(long899, 'y', 889); strcpy(long899 + 889, "@a.example");   /* 899 bytes: allowed */
  snprintf(rcpt_long, sizeof rcpt_long, "RCPT TO:<%s>", long901);
  snprintf(mail_long, sizeof mail_long, "MAIL FROM:<%s>", long901);
  add("HELO client.example", 4, 0); add("EHLO client.example", 4, 0); add("RSET", 4, 0); add("NOOP", 0, 0); add("VRFY x", 0, 0); add("HELP", 0, 0); add("FOO bar", 0, 0); add("QUIT", 5, 0);
  add("DATA", 3, 0); add("DATA", 6, 0);   /* kind 6: the same command with a body over the databytes limit */
  add("MAIL FROM:<s@src.example>", 1, "s@src.example"); add("MAIL FROM:<>", 1, ""); add("mail from:<spammer@bad.example>", 1, "spammer@bad.example"); add("MAIL FROM:<x@BAD.example>", 1, "x@BAD.example");
  add(mail_long, 1, 0); add("MAIL FROM:<s2@src.example> SIZE=100", 1, "s2@src.example");
  add("RCPT TO:<u@a.example>", 2, "u@a.example"); add("RCPT TO:<u@deep.sub.example>", 2, "u@deep.sub.example"); add("RCPT TO:<U@MIXEDZ.example>", 2, "U@MIXEDZ.example");
  add("RCPT TO:<m@more.example>", 2, "m@more.example"); add("RCPT TO:<w@x.wild.more.example>", 2, "w@x.wild.more.example"); add("RCPT TO:<f@foreign.example>", 2, "f@foreign.example");
  add("RCPT TO:<noat>", 2, "noat"); add("RCPT TO:<@relay.example:r@a.example>", 2, "r@a.example"); add("RCPT TO:<\"quo ted\"@a.example>", 2, "quo ted@a.example");
  add("RCPT TO:<back\\@slash@foreign.example>", 2, "back@slash@foreign.example"); add("rcpt to: bracketless@a.example", 2, "bracketless@a.example"); add("RCPT TO:<u@sub.example>", 2, "u@sub.example");
  add("RCPT TO:<l@[0.0.0.0]>", 2, cf_liph ? "l@liph.a.example" : "l@mx.example");   /* localiphost defaults to control/me */ add("RCPT TO:<n@[10.9.8.7]>", 2, "n@[10.9.8.7]");
  add(rcpt_long, 2, 0);
  { char *b = malloc(1100); snprintf(b, 1100, "RCPT TO:<%s>", long899); add(b, 2, strdup(long899)); }
  /* under the limit as typed, over it once the local IP literal is replaced by the (longer) localiphost name */
  memset(liph_grown, 'z', 885); strcpy(liph_grown + 885, "@[0.0.0.0]");
  snprintf(rcpt_liph_long, sizeof rcpt_liph_long, "RCPT TO:<%s>", liph_grown);
  if (cf_liph) add(rcpt_liph_long, 2, 0); else { static char g2[1000]; memset(g2, 'z', 885); strcpy(g2 + 885, "@mx.example"); add(rcpt_liph_long, 2, g2); }
  add("RCPT TO:<x@a.example.foreign.example>", 2, "x@a.example.foreign.example"); add("RCPT TO:<trail@a.example.>", 2, "trail@a.example.");
}

/* ---- explicit state ---- */
struct state { int seenmail, flagbarf; char *mailfrom; size_t mflen; char *rcptto; size_t rtlen; char *helo; size_t hlen; int fake;
  /* reference ledger, part of the state identity only through the server state (checked, not hashed) */
  int r_open; char *r_sender; char *r_rcpts; size_t r_rlen; int depth; char *path; };
static struct state *states; static size_t nstates, capstates; static h_set visited;
static long n_eval, n_trans, n_accept, n_refused, n_data, n_nontrivial, n_variants;

static uint64_t hash_server(void)
{
  uint64_t h = h_fnv(&seenmail, sizeof seenmail, 0);
  { int fb = seenmail ? flagbarf : 0; h = h_fnv(&fb, sizeof fb, h); }
  if (seenmail) { h = h_fnv(mailfrom.s, mailfrom.len, h); h = h_fnv(rcptto.s, rcptto.len, h); }
  h = h_fnv(helohost.s, helohost.len, h);
  return h;
}
static char *dupn(const char *s, size_t n) { char *p = malloc(n + 1); if (n) memcpy(p, s, n); p[n] = 0; return p; }
static void save(struct state *st) { st->seenmail = seenmail; st->flagbarf = flagbarf; st->mailfrom = dupn(mailfrom.s, mailfrom.len); st->mflen = mailfrom.len; st->rcptto = dupn(rcptto.s, rcptto.len); st->rtlen = rcptto.len; st->helo = dupn(helohost.s, helohost.len); st->hlen = helohost.len; st->fake = fakehelo != 0; }
static void restore(const struct state *st)
{
  seenmail = st->seenmail; flagbarf = st->flagbarf;
  if (!stralloc_copyb(&mailfrom, st->mailfrom, st->mflen) || !stralloc_copyb(&rcptto, st->rcptto, st->rtlen) || !stralloc_copyb(&helohost, st->helo, st->hlen)) h_real_exit(2);
  fakehelo = st->fake ? helohost.s : 0;
}

/* reply code of the line after the first one (the answer to the final dot, after "354 ..."): texts may change, codes may not */
static int second_code(const unsigned char *o, size_t n) { size_t i = 0; while (i < n && o[i] != '\n') i++; i++; if (i + 3 > n) return 0; return (o[i] - '0') * 100 + (o[i + 1] - '0') * 10 + (o[i + 2] - '0'); }
static int last_code(const unsigned char *o, size_t n, size_t *start) { size_t i = n; if (i && o[i - 1] == '\n') i--; while (i > 0 && o[i - 1] != '\n') i--; *start = i; if (i + 3 > n) return 0; return (o[i] - '0') * 100 + (o[i + 1] - '0') * 10 + (o[i + 2] - '0'); }
static int first_code(const unsigned char *o, size_t n) { if (n < 3) return 0; return (o[0] - '0') * 100 + (o[1] - '0') * 10 + (o[2] - '0'); }

static void step(size_t si, int ci, int maxdepth)
{
  struct state *s = &states[si]; struct cmd *c = &cmds[ci];
  static unsigned char in[4096]; size_t il; int code; char key[300]; char pathbuf[2000];
  const char *payload = "Subject: t\r\n\r\nbody\r\n.\r\n";
  restore(s);
  il = snprintf((char *) in, sizeof in, "%s\r\n%s", c->line, c->kind == 3 ? payload : c->kind == 6 ? "Subject: big\r\n\r\n0123456789012345678901234567890123456789012345678901234567890123456789\r\n.\r\n" : "");
  snprintf(h_cur, sizeof h_cur, "c08 cfg=%d%d%d%d/%s path=%s | %s", cf_rcpthosts, cf_more, cf_bmf, cf_liph, cf_relay ? cf_relay : "(unset)", s->path, strlen(c->line) > 60 ? "(long line)" : c->line);
  smtpd_reset_io(in, il, 0);
  h_exit_armed = 1;
  if (setjmp(h_exit_jb) == 0) { commands(&ssin, &smtpcommands); h_exit_armed = 0; }
  n_eval++; n_trans++;
  code = first_code(net_out, net_out_len);
  snprintf(pathbuf, sizeof pathbuf, "%s | %s", s->path, strlen(c->line) > 50 ? (c->kind == 1 ? "MAIL FROM:<over-long>" : "RCPT TO:<over-long>") : c->line);
  snprintf(key, sizeof key, "smtp:cfg=%d%d%d%d/%s:%s", cf_rcpthosts, cf_more, cf_bmf, cf_liph, cf_relay ? (*cf_relay ? cf_relay : "empty") : "unset", strlen(pathbuf) > 180 ? pathbuf + strlen(pathbuf) - 180 : pathbuf);

  /* ---- reference ledger, driven by the documented behaviour ---- */
  {
    int r_open = s->r_open; const char *r_sender = s->r_sender; char rl[4096]; size_t rll = s->r_rlen; int want = 0; int barf;
    memcpy(rl, s->r_rcpts, rll);
    barf = r_open ? ref_badsender(r_sender) : 0;
    switch (c->kind) {
      case 4: want = 250; r_open = 0; rll = 0; break;
      case 5: want = 221; break;
      case 0: want = !strncmp(c->line, "NOOP", 4) ? 250 : !strncmp(c->line, "VRFY", 4) ? 252 : !strncmp(c->line, "HELP", 4) ? 214 : 502; break;
      case 1: if (!c->addr) want = 555; else { want = 250; r_open = 1; r_sender = c->addr; rll = 0; } break;
      case 2:
        if (!r_open) want = 503;
        else if (!c->addr) want = 555;
        else if (barf) want = 553;
        else if (cf_relay) { want = 250; rll += snprintf(rl + rll, sizeof rl - rll, "%s%s", c->addr, cf_relay) + 1; }
        else if (ref_allowed(c->addr) == 1) { want = 250; rll += snprintf(rl + rll, sizeof rl - rll, "%s", c->addr) + 1; }
        else if (ref_allowed(c->addr) == -1) want = 421;
        else want = 553;
        break;
      case 3: case 6: if (!r_open) want = 503; else if (!rll) want = 503; else want = 354; break;
    }
    if (code != want) { H_FAIL(key, "reply %d to [%s], reference says %d (after: %s)", code, strlen(c->line) > 80 ? "(over-long address)" : c->line, want, s->path); return; }
    if (c->kind == 2) { if (want == 250) n_accept++; else n_refused++; }
    if (c->kind == 6 && want == 354) {
      /* over the size limit: permanent refusal after the dot, nothing submitted, transaction over */
      if (qq_committed) { H_FAIL(key, "over-size message was submitted"); return; }
      if (second_code(net_out, net_out_len) != 552) { H_FAIL(key, "over-size DATA not answered 552: %s", H_ESC(net_out, net_out_len)); return; }
      r_open = 0; rll = 0; n_data++;
    } else if (c->kind == 3 && want == 354) {
      /* the message must have been submitted with exactly the ledger's envelope */
      char env[4096]; size_t el = 0, i;
      n_data++;
      env[el++] = 'F'; el += snprintf(env + el, sizeof env - el, "%s", r_sender) + 1;
      for (i = 0; i < rll;) { env[el++] = 'T'; { size_t l = strlen(rl + i); memcpy(env + el, rl + i, l + 1); el += l + 1; i += l + 1; } }
      env[el++] = 0;
      if (qq_committed != 1) { H_FAIL(key, "DATA completed but %d messages were submitted", qq_committed); return; }
      if (qq_last_env_len != el || memcmp(qq_last_env, env, el)) { H_FAIL(key, "envelope handed to the queue is %s; the transaction (latest MAIL answered 250, RCPTs answered 250 since) is %s (after: %s)", H_ESC(qq_last_env, qq_last_env_len > 300 ? 300 : qq_last_env_len), H_ESC(env, el > 300 ? 300 : el), s->path); return; }
      if (second_code(net_out, net_out_len) != 250) { H_FAIL(key, "no 250 after the final dot: %s", H_ESC(net_out, net_out_len)); return; }
      r_open = 0; rll = 0;
    } else if (qq_opens || qq_committed) { H_FAIL(key, "[%s] answered %d but the queue was contacted (%d opens, %d commits)", c->line, code, qq_opens, qq_committed); return; }
    /* ---- input-form variants (states up to depth 2): the same command ended by a bare LF, and pipelined with a NOOP in the same
     * read, must give the same reply, the same server state and the same submission ---- */
    if (s->depth <= 2 && c->kind != 5 && want != 421) {
      static unsigned char o0[8192]; size_t o0l = net_out_len < sizeof o0 ? net_out_len : sizeof o0; uint64_t h0 = hash_server(); int com0 = qq_committed; int v;
      static unsigned char e0[4096]; size_t e0l = qq_last_env_len < sizeof e0 ? qq_last_env_len : sizeof e0;
      memcpy(o0, net_out, o0l); memcpy(e0, qq_last_env, e0l);
      for (v = 0; v < 2; v++) {
        const char *body = c->kind == 3 ? payload : c->kind == 6 ? "Subject: big\r\n\r\n0123456789012345678901234567890123456789012345678901234567890123456789\r\n.\r\n" : "";
        restore(s);
        il = snprintf((char *) in, sizeof in, "%s%s%s%s", c->line, v == 0 ? "\n" : "\r\n", body, v == 1 ? "NOOP\r\n" : "");
        smtpd_reset_io(in, il, 0);
        h_exit_armed = 1;
        if (setjmp(h_exit_jb) == 0) { commands(&ssin, &smtpcommands); h_exit_armed = 0; }
        n_eval++; n_variants++;
        if (v == 1) { size_t ls = 0; if (last_code(net_out, net_out_len, &ls) != 250) { H_FAIL(key, "pipelined NOOP after [%s] not answered 250 ok: %s", strlen(c->line) > 80 ? "(over-long)" : c->line, H_ESC(net_out, net_out_len > 200 ? 200 : net_out_len)); return; } net_out_len = ls; }
        if (net_out_len != o0l || memcmp(net_out, o0, o0l)) { H_FAIL(key, "%s: replies differ from the CRLF-terminated form: %s vs %s", v ? "pipelined with a following command" : "line ended by a bare LF", H_ESC(net_out, net_out_len > 120 ? 120 : net_out_len), H_ESC(o0, o0l > 120 ? 120 : o0l)); return; }
        if (hash_server() != h0 || qq_committed != com0 || qq_last_env_len != e0l || memcmp(qq_last_env, e0, e0l)) { H_FAIL(key, "%s: server state or submission differs from the CRLF-terminated form", v ? "pipelined with a following command" : "line ended by a bare LF"); return; }
      }
    }
    /* ---- successor ---- */
    if (c->kind == 5 || want == 421) return;
    if (s->depth + 1 > maxdepth) return;
    {
      uint64_t h = hash_server(); h = h_fnv(&r_open, sizeof r_open, h); if (r_open) { h = h_fnv(r_sender, strlen(r_sender), h); h = h_fnv(rl, rll, h); }
      if (h_set_add(&visited, h)) {
        struct state *ns;
        if (nstates == capstates) { capstates = capstates ? capstates * 2 : 1024; states = realloc(states, capstates * sizeof *states); s = &states[si]; }
        ns = &states[nstates++]; save(ns); ns->r_open = r_open; ns->r_sender = strdup(r_open ? r_sender : ""); ns->r_rcpts = dupn(rl, rll); ns->r_rlen = rll; ns->depth = s->depth + 1; ns->path = strdup(pathbuf);
        n_nontrivial++;
        if ((nstates % 997) == 3) H_SAMPLE("cfg rcpthosts=%d more=%d badmailfrom=%d localiphost=%d RELAYCLIENT=%s: %s -> %d", cf_rcpthosts, cf_more, cf_bmf, cf_liph, cf_relay ? cf_relay : "(unset)", pathbuf, code);
      }
    }
  }
}

int main(int argc, char **argv)
{
  int cfg, maxdepth, i; size_t si; char path[300];
  h_init();
  if (argc < 4) return 2;
  if (chdir(argv[1]) == -1) return 2;
  cfg = atoi(argv[2]); maxdepth = atoi(argv[3]);
  if (cfg >= 90) { cfg -= 90; cf_rcpthosts = 2; cf_more = 1; }   /* control/rcpthosts present without a single entry (comment and blank line): every host is refused unless the extra list has it */
  else if (cfg >= 72) { cfg -= 72; cf_rcpthosts = 1; cf_more = 2; }   /* morercpthosts.cdb present but unreadable (truncated) */
  else { cf_rcpthosts = cfg % 2; cfg /= 2; cf_more = cfg % 2; cfg /= 2; }
  cf_bmf = cfg % 3; cfg /= 3; cf_liph = cfg % 2; cfg /= 2;
  cf_relay = cfg % 3 == 0 ? 0 : cfg % 3 == 1 ? "" : "@gw.example";
  mkdir("control", 0755);
  { FILE *f = fopen("control/me", "w"); fprintf(f, "mx.example\n"); fclose(f); }
  if (cf_rcpthosts == 1) { FILE *f = fopen("control/rcpthosts", "w"); for (i = 0; i < 3; i++) fprintf(f, "%s\n", RH[i]); fclose(f); }
  if (cf_rcpthosts == 2) { FILE *f = fopen("control/rcpthosts", "w"); fprintf(f, "# no host is listed\n\n"); fclose(f); }
  if (cf_more) {   /* the same writer code as qmail-newmrh: lower-cased keys, empty data */
    struct cdbmss c; int fd = open("control/morercpthosts.cdb", O_WRONLY | O_CREAT | O_TRUNC, 0644);
    if (fd < 0 || cdbmss_start(&c, fd) == -1) return 2;
    for (i = 0; i < 2; i++) { char k[100]; size_t j; snprintf(k, sizeof k, "%s", MRH[i]); for (j = 0; k[j]; j++) k[j] = tolower((unsigned char) k[j]); if (cdbmss_add(&c, k, strlen(k), "", 0) == -1) return 2; }
    if (cdbmss_finish(&c) == -1) return 2; close(fd);
    if (cf_more == 2 && truncate("control/morercpthosts.cdb", 0) == -1) return 2;
  }
  if (cf_bmf) { FILE *f = fopen("control/badmailfrom", "w"); for (i = 0; i < 2; i++) if (BMF[cf_bmf][i]) fprintf(f, "%s\n", BMF[cf_bmf][i]); fclose(f); }
  { FILE *f = fopen("control/databytes", "w"); fprintf(f, "60\n"); fclose(f); }
  if (cf_liph) { FILE *f = fopen("control/localiphost", "w"); fprintf(f, "liph.a.example\n"); fclose(f); }
  if (cf_relay) setenv("RELAYCLIENT", cf_relay, 1); else unsetenv("RELAYCLIENT");
  setenv("TCPREMOTEIP", "192.0.2.7", 1); setenv("TCPREMOTEHOST", "client.example", 1); setenv("TCPLOCALHOST", "mx.example", 1);
  build_cmds();
  setup();
  if (ipme_init() != 1) { printf("HARNESS ipme_init failed\n"); h_real_exit(2); }
  (void) path;
  /* initial state */
  capstates = 1024; states = malloc(capstates * sizeof *states); nstates = 1; save(&states[0]); states[0].r_open = 0; states[0].r_sender = strdup(""); states[0].r_rcpts = strdup(""); states[0].r_rlen = 0; states[0].depth = 0; states[0].path = strdup("(connect)");
  h_set_add(&visited, hash_server());
  for (si = 0; si < nstates; si++) for (i = 0; i < ncmds; i++) step(si, i, maxdepth);
  printf("STAT evaluations=%ld distinct_nontrivial=%ld states=%zu transitions=%ld recipients_accepted=%ld recipients_refused=%ld messages_submitted=%ld input_form_variants=%ld\n", n_eval, n_nontrivial, nstates, n_trans, n_accept, n_refused, n_data, n_variants);
  fflush(stdout);
  h_real_exit(h_nfail ? 1 : 0);
}
