/* Common helpers for SEQ (bounded-exhaustive sequential) harnesses.  Each harness #includes the real
 * .c file(s) of notqmail, replaces only I/O callbacks and _exit, enumerates every input of a bounded
 * space and compares with a reference model.  Output protocol (parsed by lib/common.py):
 *   STAT k=v ...      counters (summed over harness invocations)
 *   SAMPLE text       an actual case, written out
 *   FAIL key text     a property violation; key identifies the failing input / site
 *   NOTE text         informational
 *   CURRENT-INPUT x   printed from the fatal-signal handler so sanitizer aborts name the input
 */
#ifndef VERIF_HARNESS_H
#define VERIF_HARNESS_H
#include <stdio.h>
#include <stdlib.h>
#include <string.h>
#include <setjmp.h>
#include <signal.h>
#include <unistd.h>
#include <stdint.h>

/* ---- _exit trap ------------------------------------------------------------------------- */
static jmp_buf h_exit_jb;
static int h_exit_armed = 0;
static int h_exit_code = -1;
extern void _exit(int) __attribute__((noreturn));
static void __attribute__((noreturn)) h_real_exit(int c) { fflush(stdout); syscall(231 /* exit_group */, c); for (;;) ; }
void _exit(int c)
{
  if (h_exit_armed) { h_exit_code = c; h_exit_armed = 0; longjmp(h_exit_jb, 1); }
  h_real_exit(c);
}
/* run CALL; evaluates to 1 if it returned normally, 0 if the code called _exit (code in h_exit_code) */
#define H_RUN(CALL) (h_exit_code = -1, h_exit_armed = 1, (setjmp(h_exit_jb) == 0) ? ((CALL), h_exit_armed = 0, 1) : 0)

/* ---- current input for crash diagnostics ------------------------------------------------- */
static char h_cur[4096];
static void h_fatal(int sig)
{
  static const char p[] = "\nCURRENT-INPUT ";
  ssize_t r;
  r = write(1, p, sizeof p - 1); r = write(1, h_cur, strlen(h_cur)); r = write(1, "\n", 1); (void) r;
  signal(sig, SIG_DFL); raise(sig);
}
static void h_init(void)
{
  signal(SIGSEGV, h_fatal); signal(SIGABRT, h_fatal); signal(SIGBUS, h_fatal); signal(SIGFPE, h_fatal);
  signal(SIGILL, h_fatal);
  setvbuf(stdout, 0, _IOFBF, 1 << 16);
}

/* ---- printable rendering ------------------------------------------------------------------ */
static char *h_esc(const unsigned char *s, size_t n, char *out, size_t outsz)
{
  size_t o = 0, i;
  for (i = 0; i < n && o + 5 < outsz; i++) {
    unsigned char c = s[i];
    if (c == '\r') { out[o++] = '\\'; out[o++] = 'r'; }
    else if (c == '\n') { out[o++] = '\\'; out[o++] = 'n'; }
    else if (c == '\t') { out[o++] = '\\'; out[o++] = 't'; }
    else if (c == '\\') { out[o++] = '\\'; out[o++] = '\\'; }
    else if (c == ' ') { out[o++] = '\\'; out[o++] = 's'; }
    else if (c < 32 || c > 126) { o += snprintf(out + o, outsz - o, "\\x%02x", c); }
    else out[o++] = c;
  }
  out[o] = 0;
  return out;
}
#define H_ESC(s, n) h_esc((const unsigned char *) (s), (n), (char[2048]){0}, 2048)

/* ---- failure / sample reporting (bounded) -------------------------------------------------- */
static long h_nfail = 0, h_nsample = 0;
#define H_FAIL(key, ...) do { if (h_nfail++ < 40) { printf("FAIL %s ", key); printf(__VA_ARGS__); printf("\n"); } } while (0)
#define H_SAMPLE(...) do { if (h_nsample++ < 6) { printf("SAMPLE "); printf(__VA_ARGS__); printf("\n"); } } while (0)

/* ---- a small open-addressing set of 64-bit hashes (distinct-outcome counting) --------------- */
typedef struct { uint64_t *t; size_t cap, n; } h_set;
static uint64_t h_fnv(const void *p, size_t n, uint64_t h)
{
  const unsigned char *s = p; size_t i;
  if (!h) h = 1469598103934665603ULL;
  for (i = 0; i < n; i++) { h ^= s[i]; h *= 1099511628211ULL; }
  return h ? h : 1;
}
static int h_set_add(h_set *s, uint64_t h)
{
  size_t i;
  if (!h) h = 1;
  if (!s->t) { s->cap = 1 << 16; s->t = calloc(s->cap, 8); }
  if (s->n * 2 > s->cap) {
    h_set o = *s; size_t j;
    s->cap *= 2; s->t = calloc(s->cap, 8); s->n = 0;
    for (j = 0; j < o.cap; j++) if (o.t[j]) h_set_add(s, o.t[j]);
    free(o.t);
  }
  for (i = h & (s->cap - 1);; i = (i + 1) & (s->cap - 1)) {
    if (s->t[i] == h) return 0;
    if (!s->t[i]) { s->t[i] = h; s->n++; return 1; }
  }
}

/* ---- odometer over an alphabet ------------------------------------------------------------- */
/* idx[0..n-1] in [0,k); returns 0 when wrapped around */
static int h_odo_next(int *idx, int n, int k)
{
  int i;
  for (i = n - 1; i >= 0; i--) { if (++idx[i] < k) return 1; idx[i] = 0; }
  return 0;
}

#endif
