/* C05: exhaustive enumeration of the real DATA decoder of qmail-smtpd.c.
 * modes:
 *   blast <alpha> <maxlen> <maxchunk>   every string s: blast() on s then EOF, vs. reference receiver
 *   roundtrip <alpha> <maxlen>          every message m: reference encoder and the real qmail-remote
 *                                       encoder (linked with r_ prefix) -> real decoder
 *   session <alpha> <maxlen>            MAIL/RCPT/DATA + payload through the real commands() loop:
 *                                       replies, queue contents, bytes after the terminator are commands
 */
#define main qmail_smtpd_main
#include "qmail-smtpd.c"
#undef main
#include "harness.h"
#include "ref_smtp.h"
#include "smtpd_env.h"

time_t time(time_t *t) { if (t) *t = 1000000000; return 1000000000; } /* now() is time(0) */

/* real client encoder, renamed by objcopy (only linked in roundtrip mode builds; weak otherwise) */
extern void r_blast(void) __attribute__((weak));
extern substdio r_ssin __attribute__((weak)), r_smtpto __attribute__((weak));
extern char r_inbuf[1024] __attribute__((weak)), r_smtptobuf[1024] __attribute__((weak));

static const char *alphabets[] = { "\r\n.a", "\r\n.aR", "\r\n. " };
static long n_eval, n_nontrivial, n_end, n_barelf, n_eof, n_ambig, n_chunked, n_rt_ref, n_rt_real, n_sess;
static h_set distinct_out;

static int run_blast(int *hops)
{
  h_exit_armed = 1;
  if (setjmp(h_exit_jb) == 0) { blast(hops); h_exit_armed = 0; return 1; }
  return 0;
}

static int is451(void) { return net_out_len >= 4 && !memcmp(net_out, "451 ", 4); }

static void check_blast(const unsigned char *s, size_t n, unsigned long chunk, const char *what)
{
  unsigned char ref[4096], ref2[4096]; size_t reflen = 0, ref2len = 0, consumed = 0;
  int ambig = 0, r, returned, hops;
  struct qmail *qq = &qqt;
  char key[600];
  snprintf(h_cur, sizeof h_cur, "c05 %s input=%s chunk=%lx", what, H_ESC(s, n), chunk);
  snprintf(key, sizeof key, "smtpd-blast:%s", H_ESC(s, n));
  smtpd_reset_io(s, n, chunk);
  qmail_open(qq); bytestooverflow = 0;
  returned = run_blast(&hops);
  n_eval++;
  r = ref_decode(s, n, ref, &reflen, &consumed, &ambig, ref2, &ref2len);
  if (r == REF_END) {
    size_t used;
    n_end++;
    if (!returned) { H_FAIL(key, "terminator present but decoder did not finish: exit %d out=%s (%s)", h_exit_code, H_ESC(net_out, net_out_len), what); return; }
    used = net_in_off - ssin.p;
    if (used != consumed) { H_FAIL(key, "decoder consumed %zu bytes, reference %zu (%s): what follows the terminator would not be parsed as the next command", used, consumed, what); return; }
    if (ambig) n_ambig++;
    if (!((qq_body_len == reflen && !memcmp(qq_body, ref, reflen)) ||
          (ambig && qq_body_len == ref2len && !memcmp(qq_body, ref2, ref2len)))) {
      H_FAIL(key, "decoded body differs: got=%s want=%s (%s)", H_ESC(qq_body, qq_body_len), H_ESC(ref, reflen), what);
      return;
    }
    h_set_add(&distinct_out, h_fnv(qq_body, qq_body_len, 0));
  } else if (r == REF_BARELF) {
    n_barelf++;
    if (returned) { H_FAIL(key, "bare LF accepted as a line ending: decoder finished with body=%s (%s)", H_ESC(qq_body, qq_body_len), what); return; }
    if (!is451() || h_exit_code != 1) { H_FAIL(key, "bare LF: expected 451 and exit 1, got exit %d out=%s (%s)", h_exit_code, H_ESC(net_out, net_out_len), what); return; }
  } else {
    n_eof++;
    if (returned) { H_FAIL(key, "no terminator in the stream but decoder finished with body=%s (%s)", H_ESC(qq_body, qq_body_len), what); return; }
    if (net_out_len || h_exit_code != 1) { H_FAIL(key, "EOF in DATA: expected silent exit 1, got exit %d out=%s (%s)", h_exit_code, H_ESC(net_out, net_out_len), what); return; }
  }
}

/* reference encoder of a conforming sender: message = LF-terminated lines (bare CR is data) */
static size_t ref_encode(const unsigned char *m, size_t n, unsigned char *w)
{
  size_t i, o = 0; int bol = 1;
  for (i = 0; i < n; i++) {
    if (bol && m[i] == '.') w[o++] = '.';
    if (m[i] == '\n') { w[o++] = '\r'; w[o++] = '\n'; bol = 1; }
    else { w[o++] = m[i]; bol = 0; }
  }
  w[o++] = '.'; w[o++] = '\r'; w[o++] = '\n';
  return o;
}

static const unsigned char *rin; static size_t rin_len, rin_off;
static unsigned char rwire[4096]; static size_t rwire_len;
static ssize_t r_rd(int fd, char *buf, size_t len)
{ size_t k = 0; (void) fd; while (rin_off < rin_len && k < len) buf[k++] = rin[rin_off++]; return k; }
static ssize_t r_wr(int fd, const char *buf, size_t len)
{ (void) fd; memcpy(rwire + rwire_len, buf, len); rwire_len += len; return len; }

static void decode_expect(const unsigned char *w, size_t wn, const unsigned char *want, size_t wantn,
                          const unsigned char *m, size_t n, const char *who)
{
  unsigned char in[4200]; int hops, returned; char key[600];
  static const char tail[] = "NOOP\r\n";
  memcpy(in, w, wn); memcpy(in + wn, tail, sizeof tail - 1);
  snprintf(h_cur, sizeof h_cur, "c05 roundtrip %s message=%s", who, H_ESC(m, n));
  snprintf(key, sizeof key, "roundtrip-%s:%s", who, H_ESC(m, n));
  smtpd_reset_io(in, wn + sizeof tail - 1, 0);
  qmail_open(&qqt); bytestooverflow = 0;
  returned = run_blast(&hops);
  n_eval++;
  if (!returned) { H_FAIL(key, "decoder rejected the encoding %s: exit %d out=%s", H_ESC(w, wn), h_exit_code, H_ESC(net_out, net_out_len)); return; }
  if (net_in_off - ssin.p != wn) { H_FAIL(key, "decoder stopped after %zu of %zu encoded bytes (wire=%s)", (size_t) (net_in_off - ssin.p), wn, H_ESC(w, wn)); return; }
  if (qq_body_len != wantn || memcmp(qq_body, want, wantn))
    H_FAIL(key, "decode(encode(m)) != m: got=%s want=%s wire=%s", H_ESC(qq_body, qq_body_len), H_ESC(want, wantn), H_ESC(w, wn));
}

static void check_roundtrip(const unsigned char *m, size_t n)
{
  unsigned char w[4096], canon[4096]; size_t wn, cn;
  if (n == 0 || m[n - 1] == '\n') { /* a conforming sender's message is a sequence of complete lines */
    wn = ref_encode(m, n, w);
    n_rt_ref++;
    decode_expect(w, wn, m, n, m, n, "refsender");
  }
  /* the package's own client: whatever it agrees to transmit must come back as the same lines */
  if (r_blast) {
    substdio tmpin = SUBSTDIO_FDBUF(r_rd, -1, r_inbuf, sizeof(r_inbuf));
    substdio tmpto = SUBSTDIO_FDBUF(r_wr, -1, r_smtptobuf, sizeof(r_smtptobuf));
    r_ssin = tmpin; r_smtpto = tmpto; rin = m; rin_len = n; rin_off = 0; rwire_len = 0;
    h_exit_armed = 1;
    if (setjmp(h_exit_jb) == 0) {
      r_blast(); h_exit_armed = 0;
      cn = ref_canon_lines(m, n, canon);
      n_rt_real++;
      decode_expect(rwire, rwire_len, canon, cn, m, n, "qmail-remote");
    }
  }
}

static void check_session(const unsigned char *p, size_t n)
{
  static const char pre[] = "MAIL FROM:<s@x>\r\nRCPT TO:<r@y>\r\nDATA\r\n";
  static const char rcv[] = "Received: from rh (1.2.3.4)\n  by loc with SMTP; 9 Sep 2001 01:46:40 -0000\n";
  unsigned char in[4200], ref[4096], ref2[4096], want[8192]; size_t reflen = 0, ref2len = 0, consumed = 0, wl = 0, i, inl;
  int ambig = 0, r, rc; char key[600];
  memcpy(in, pre, sizeof pre - 1); memcpy(in + sizeof pre - 1, p, n); inl = sizeof pre - 1 + n;
  snprintf(h_cur, sizeof h_cur, "c05 session payload=%s", H_ESC(p, n));
  snprintf(key, sizeof key, "smtpd-session:%s", H_ESC(p, n));
  smtpd_reset_io(in, inl, 0);
  seenmail = 0; rcptto.len = 0; mailfrom.len = 0;
  h_exit_armed = 1;
  if (setjmp(h_exit_jb) == 0) { rc = commands(&ssin, &smtpcommands); h_exit_armed = 0; h_exit_code = 1000 + rc; }
  n_eval++; n_sess++;
  r = ref_decode(p, n, ref, &reflen, &consumed, &ambig, ref2, &ref2len);
#define W(s) do { memcpy(want + wl, s, strlen(s)); wl += strlen(s); } while (0)
  W("250 ok\r\n250 ok\r\n354 go ahead\r\n");
  if (r == REF_END) {
    size_t nl = 0;
    W("250 ok 1000000000 qp 4242\r\n");
    for (i = consumed; i < n; i++) if (p[i] == '\n') nl++;
    for (i = 0; i < nl; i++) W("502 unimplemented (#5.5.1)\r\n");
    if (qq_committed != 1) { H_FAIL(key, "terminated DATA but %d messages committed; out=%s", qq_committed, H_ESC(net_out, net_out_len)); return; }
    if (qq_last_env_len != 11 || memcmp(qq_last_env, "Fs@x\0Tr@y\0\0", 11)) { H_FAIL(key, "envelope handed to the queue is %s", H_ESC(qq_last_env, qq_last_env_len)); return; }
    if (qq_last_body_len < sizeof rcv - 1 || memcmp(qq_last_body, rcv, sizeof rcv - 1)) { H_FAIL(key, "Received line wrong: %s", H_ESC(qq_last_body, qq_last_body_len)); return; }
    {
      const unsigned char *b = qq_last_body + sizeof rcv - 1; size_t bl = qq_last_body_len - (sizeof rcv - 1);
      if (!((bl == reflen && !memcmp(b, ref, bl)) || (ambig && bl == ref2len && !memcmp(b, ref2, bl)))) {
        H_FAIL(key, "queued body differs: got=%s want=%s", H_ESC(b, bl), H_ESC(ref, reflen)); return;
      }
    }
  } else {
    if (r == REF_BARELF) W("451 See https://cr.yp.to/docs/smtplf.html.\r\n");
    if (qq_committed || qq_closes) { H_FAIL(key, "unterminated/refused DATA but the queue connection was completed (%d committed)", qq_committed); return; }
  }
  if (h_exit_code != 1) { H_FAIL(key, "session ended with %d, expected exit 1 at EOF", h_exit_code); return; }
  /* the sequence of reply CODES must be the expected one; the human-readable text after a code is not this oracle's business */
  { char gc[64], wc[64]; size_t gi = 0, wi = 0, i;
    for (i = 0; i + 3 < net_out_len && gi < 60; ) { if (net_out[i + 3] == ' ') { memcpy(gc + gi, net_out + i, 3); gi += 3; } while (i < net_out_len && net_out[i] != '\n') i++; i++; }
    for (i = 0; i + 3 < wl && wi < 60; ) { if (want[i + 3] == ' ') { memcpy(wc + wi, want + i, 3); wi += 3; } while (i < wl && want[i] != '\n') i++; i++; }
    if (gi != wi || memcmp(gc, wc, gi)) H_FAIL(key, "reply codes differ: got=%s want=%s", H_ESC(net_out, net_out_len), H_ESC(want, wl)); }
}

int main(int argc, char **argv)
{
  const char *mode, *alpha; int k, maxlen, maxchunk = 0, n, idx[32]; unsigned char s[32]; long tot = 0;
  if (argc < 4) return 2;
  mode = argv[1]; alpha = alphabets[atoi(argv[2])]; k = strlen(alpha); maxlen = atoi(argv[3]);
  if (argc > 4) maxchunk = atoi(argv[4]);
  h_init();
  remoteip = "1.2.3.4"; local = "loc"; remotehost = "rh"; remoteinfo = 0; fakehelo = 0; relayclient = 0;
  if (!stralloc_copys(&greeting, "g")) return 2;
  for (n = 0; n <= maxlen; n++) {
    memset(idx, 0, sizeof idx);
    do {
      int i, nt = 0;
      for (i = 0; i < n; i++) s[i] = alpha[idx[i]];
      for (i = 0; i < n; i++) if (s[i] == '\r' || s[i] == '\n' || s[i] == '.') nt = 1;
      n_nontrivial += nt; tot++;
      if (!strcmp(mode, "blast")) {
        check_blast(s, n, 0, "whole");
        if (tot % 40009 == 1 && n >= 5) H_SAMPLE("stream=%s -> %s body=%s", H_ESC(s, n), h_exit_code == -1 ? "end-of-data" : (net_out_len ? "451" : "eof"), H_ESC(qq_body, qq_body_len));
        if (n >= 2 && n <= maxchunk) { unsigned long c; for (c = 1; c < (1UL << (n - 1)); c++) { n_chunked++; check_blast(s, n, c, "chunked"); } }
      } else if (!strcmp(mode, "roundtrip")) {
        check_roundtrip(s, n);
        if (tot % 40009 == 1 && n >= 5) H_SAMPLE("message=%s (reference sender and qmail-remote encoder -> qmail-smtpd decoder)", H_ESC(s, n));
      } else {
        check_session(s, n);
        if (tot % 4001 == 1 && n >= 5) H_SAMPLE("session payload=%s replies=%s", H_ESC(s, n), H_ESC(net_out, net_out_len));
      }
    } while (h_odo_next(idx, n, k));
  }
  printf("STAT evaluations=%ld distinct_nontrivial=%ld inputs=%ld chunked_runs=%ld ref_end=%ld ref_barelf=%ld ref_eof=%ld dot_cr_lines=%ld roundtrips_refsender=%ld roundtrips_qmail_remote=%ld sessions=%ld distinct_bodies=%zu\n",
         n_eval, n_nontrivial, tot, n_chunked, n_end, n_barelf, n_eof, n_ambig, n_rt_ref, n_rt_real, n_sess, distinct_out.n);
  fflush(stdout);
  h_real_exit(h_nfail ? 1 : 0);
}
