/* C20: bounded-exhaustive hostile inputs to parsers not reached elsewhere, on ASan+UBSan builds.  The oracle is the
 * sanitizer (any report aborts the process; the driver turns that into a violation naming CURRENT-INPUT) plus
 * "returns one of the documented result codes".
 *   dns <shard> <nshards>     template DNS answers (A, MX, CNAME chain, PTR, compressed names): every truncation length,
 *                             every 16-bit field set to {0,1,0xFFFF}, padded to total sizes 505..513, through
 *                             dns_ip/dns_mxip/dns_ptr with res_query replaced
 *   tok <maxlen> <shard> <n>  every string over the RFC 822 token alphabet up to maxlen, and nested comments, through
 *                             token822_parse/addrlist/unparse/unquote
 *   cdb                       a compiled cdb: every truncation length and every header byte set to 0x00/0xFF, cdb_seek of
 *                             present and absent keys
 *   ctl <dir> <maxlen>        control-file bodies over {LF,#,:,NUL,0xFF,a}: control_readfile/readline/readint, constmap_init
 */
#define _GNU_SOURCE
#include <sys/types.h>
#include <netinet/in.h>
#include <arpa/nameser.h>
#include <resolv.h>
#include <fcntl.h>
#include <sys/mman.h>
#include "harness.h"
#include <sanitizer/asan_interface.h>
#include "stralloc.h"
#include "ipalloc.h"
#include "ip.h"
#include "dns.h"
#include "token822.h"
#include "cdb.h"
#include "cdbmss.h"
#include "control.h"
#include "constmap.h"
#include "uint32.h"

static long n_eval, n_nontrivial;
static h_set outcomes;

/* ---- DNS ---- */
static unsigned char ans[70000]; static int anslen;
/* like the resolver: at most buflen bytes are stored, the full length is returned; with ASan the part of the caller's buffer
 * behind the answer is poisoned, so a record walker that leaves the response is reported even when it stays in the buffer */
int res_query(const char *name, int class, int type, unsigned char *buf, int buflen)
{ int n = anslen > buflen ? buflen : anslen; (void) name; (void) class; (void) type; ASAN_UNPOISON_MEMORY_REGION(buf, buflen); memcpy(buf, ans, n); ASAN_POISON_MEMORY_REGION(buf + n, buflen - n); return anslen; }
int res_search(const char *name, int class, int type, unsigned char *buf, int buflen) { return res_query(name, class, type, buf, buflen); }

static int put_name(unsigned char *p, const char *dotted) { int o = 0; const char *s = dotted; while (*s) { const char *d = strchr(s, '.'); int l = d ? d - s : (int) strlen(s); p[o++] = l; memcpy(p + o, s, l); o += l; s += l; if (*s == '.') s++; } p[o++] = 0; return o; }
static int put16(unsigned char *p, int v) { p[0] = v >> 8; p[1] = v; return 2; }
struct tmpl { const char *name; int qtype; unsigned char b[600]; int len; };
static struct tmpl T[8]; static int nT;
static void mk_templates(void)
{
  int o;
#define HDR(t, an) o = 0; memset(t.b, 0, sizeof t.b); put16(t.b, 0x1234); t.b[2] = 0x81; t.b[3] = 0x80; put16(t.b + 4, 1); put16(t.b + 6, an); o = 12; o += put_name(t.b + o, "host.example.com"); o += put16(t.b + o, t.qtype); o += put16(t.b + o, 1);
#define RR(t, type, rdlen) t.b[o++] = 0xc0; t.b[o++] = 12; o += put16(t.b + o, type); o += put16(t.b + o, 1); o += put16(t.b + o, 0); o += put16(t.b + o, 300); o += put16(t.b + o, rdlen);
  T[0].name = "A x2"; T[0].qtype = T_A; HDR(T[0], 2) RR(T[0], T_A, 4) T[0].b[o++] = 10; T[0].b[o++] = 1; T[0].b[o++] = 2; T[0].b[o++] = 3; RR(T[0], T_A, 4) T[0].b[o++] = 10; T[0].b[o++] = 1; T[0].b[o++] = 2; T[0].b[o++] = 4; T[0].len = o;
  T[1].name = "MX x2"; T[1].qtype = T_MX; HDR(T[1], 2) { int l0 = o; RR(T[1], T_MX, 0) { int s = o; o += put16(T[1].b + o, 10); o += put_name(T[1].b + o, "mx1.example.com"); put16(T[1].b + s - 2, o - s); } (void) l0; }
    RR(T[1], T_MX, 4) o += put16(T[1].b + o, 20); T[1].b[o++] = 0xc0; T[1].b[o++] = 12; T[1].len = o;
  T[2].name = "CNAME chain + A"; T[2].qtype = T_A; HDR(T[2], 3) RR(T[2], T_CNAME, 2) T[2].b[o++] = 0xc0; T[2].b[o++] = 17; RR(T[2], T_CNAME, 2) T[2].b[o++] = 0xc0; T[2].b[o++] = 12; RR(T[2], T_A, 4) T[2].b[o++] = 1; T[2].b[o++] = 2; T[2].b[o++] = 3; T[2].b[o++] = 4; T[2].len = o;
  T[3].name = "PTR"; T[3].qtype = T_PTR; HDR(T[3], 1) RR(T[3], T_PTR, 0) { int s = o; o += put_name(T[3].b + o, "name.example.net"); put16(T[3].b + s - 2, o - s); } T[3].len = o;
  T[4].name = "compression loop"; T[4].qtype = T_MX; HDR(T[4], 1) RR(T[4], T_MX, 4) o += put16(T[4].b + o, 5); T[4].b[o] = 0xc0; T[4].b[o + 1] = o; o += 2; T[4].len = o;
  nT = 5;
}
static void run_dns(const char *what)
{
  
  static stralloc sa = {0}; static ipalloc ia = {0}; struct ip_address ipa = { { 1, 2, 3, 4 } }; int r; int k;
  for (k = 0; k < 3; k++) {
    if (!stralloc_copys(&sa, "host.example.com")) h_real_exit(2);
    r = k == 0 ? dns_ip(&ia, &sa) : k == 1 ? dns_mxip(&ia, &sa, 12345UL) : dns_ptr(&sa, &ipa);
    n_eval++;
    if (!(r == 0 || r == 1 || r == DNS_SOFT || r == DNS_HARD || r == DNS_MEM)) { char key[100]; snprintf(key, sizeof key, "dns:%s", what); H_FAIL(key, "undocumented result %d", r); }
    h_set_add(&outcomes, h_fnv(&r, sizeof r, k + 1) ^ h_fnv(ia.ix, ia.len * sizeof(struct ip_mx), 3));
  }
}
static void mode_dns(int shard, int nshards, int part)
{
  /* part 0: truncations and sizes (the library's 513-byte answer buffer is never enlarged: no TC bit, no answer >= 513 bytes);
   * part 1: field overwrites (some set the TC bit, after which dns.c keeps a 64 KB buffer for the rest of the process) */
  int t, cut, f, v, pad; long cnt = 0;
  mk_templates();
  for (t = 0; t < nT; t++) {
    /* every truncation length */
    if (part == 0) for (cut = 0; cut <= T[t].len; cut++) { if (cut > 0 && cut < 12) continue; /* the resolver rejects answers shorter than a header itself */ if ((cnt++ % nshards) != shard) continue; memcpy(ans, T[t].b, cut); anslen = cut; snprintf(h_cur, sizeof h_cur, "c20 dns template=%s truncated-at=%d", T[t].name, cut); run_dns(h_cur); n_nontrivial++; }
    /* every aligned and unaligned 16-bit field set to 0, 1, 0xFFFF, 0x00FF */
    if (part == 1) for (f = 2; f + 1 < T[t].len; f++) for (v = 0; v < 4; v++) { static const int vals[] = { 0, 1, 0xffff, 0x00ff }; if ((cnt++ % nshards) != shard) continue;
      memcpy(ans, T[t].b, T[t].len); anslen = T[t].len; put16(ans + f, vals[v]); snprintf(h_cur, sizeof h_cur, "c20 dns template=%s field@%d=0x%04x", T[t].name, f, vals[v]); run_dns(h_cur); n_nontrivial++; }
    /* total sizes around the 512/513-byte buffer: the template's last record header moved to the very end */
    if (part == 0) for (pad = 480; pad <= 512; pad++) for (v = 0; v < 3; v++) { int extra, o; if ((cnt++ % nshards) != shard) continue;
      memcpy(ans, T[t].b, T[t].len); o = T[t].len; put16(ans + 6, ntohs(*(unsigned short *) (T[t].b + 6)) + 1);
      /* an extra record whose fixed part ends at offset `pad`, claiming rdlength 4/3/65535 with nothing (or little) behind it */
      extra = pad - o - 12; if (extra < 0) continue;
      /* filler record of type TXT to consume the gap */
      if (extra >= 12) { ans[o++] = 0xc0; ans[o++] = 12; o += put16(ans + o, T_TXT); o += put16(ans + o, 1); o += put16(ans + o, 0); o += put16(ans + o, 0); o += put16(ans + o, extra - 12); memset(ans + o, 'x', extra - 12); o += extra - 12; put16(ans + 6, ntohs(*(unsigned short *) (T[t].b + 6)) + 2); }
      else continue;
      ans[o++] = 0xc0; ans[o++] = 12; o += put16(ans + o, T[t].qtype == T_PTR ? T_PTR : T[t].qtype); o += put16(ans + o, 1); o += put16(ans + o, 0); o += put16(ans + o, 0); o += put16(ans + o, v == 0 ? 4 : v == 1 ? 3 : 0xffff);
      anslen = o; snprintf(h_cur, sizeof h_cur, "c20 dns template=%s answer-of-%d-bytes-ending-in-a-record-header(rdlength=%d)", T[t].name, anslen, v == 0 ? 4 : v == 1 ? 3 : 65535); run_dns(h_cur); n_nontrivial++; }
  }
  /* part 2: every single byte of every template := every value 0..255 (header flags incl. TC, counts, types, lengths, compression pointers) */
  if (part == 2) for (t = 0; t < nT; t++) for (f = 0; f < T[t].len; f++) for (v = 0; v < 256; v++) { if ((cnt++ % nshards) != shard) continue; if (T[t].b[f] == v) continue;
      memcpy(ans, T[t].b, T[t].len); ans[f] = v; anslen = T[t].len; snprintf(h_cur, sizeof h_cur, "c20 dns template=%s byte@%d=0x%02x", T[t].name, f, v); run_dns(h_cur); n_nontrivial++; }
  if (part == 1 && shard == 0) { memset(ans, 0xff, 65535); anslen = 65535; snprintf(h_cur, sizeof h_cur, "c20 dns 65535 bytes of 0xff"); run_dns(h_cur); for (pad = 513; pad < 530; pad++) { memcpy(ans, T[0].b, T[0].len); memset(ans + T[0].len, 0, pad); anslen = pad; snprintf(h_cur, sizeof h_cur, "c20 dns padded answer of %d bytes", pad); run_dns(h_cur); } }
  H_SAMPLE("DNS answers: %d templates x truncations, 16-bit field overwrites, sizes 480..513 ending in a record header", nT);
}

/* ---- token822 ---- */
static int tokcb(token822_alloc *a) { static stralloc sa = {0}; token822_reverse(a); if (token822_unquote(&sa, a) != 1) h_real_exit(2); token822_reverse(a); return 1; }
static void run_tok(const char *s, size_t n)
{
  /* fresh buffers for every input: the first allocation of a stralloc is exact, so a byte written past what the counting pass of
   * token822_parse reserved is a sanitizer report instead of landing in slack left by an earlier, longer input */
  stralloc line = {0}, buf = {0}, outp = {0}; token822_alloc ta = {0}, out = {0}, at = {0}; int r;
  if (!stralloc_copys(&line, "To: ") || !stralloc_catb(&line, s, n) || !stralloc_cats(&line, "\n")) h_real_exit(2);
  snprintf(h_cur, sizeof h_cur, "c20 token822 field=%s", H_ESC(s, n));
  r = token822_parse(&ta, &line, &buf); n_eval++;
  if (r == 1) { r = token822_addrlist(&out, &at, &ta, tokcb); if (r == 1) { if (token822_unparse(&outp, &out, 72) != 1) h_real_exit(2); n_nontrivial++; } }
  h_set_add(&outcomes, h_fnv(&r, sizeof r, 5));
  free(line.s); free(buf.s); free(outp.s); free(ta.t); free(out.t); free(at.t);
}
static void mode_tok(int maxlen, int shard, int nshards)
{
  static const char al[] = { '(', ')', '\\', '"', '[', ']', '<', '>', '@', ',', ':', ';', '.', ' ', 'a', '\n' };
  int n, idx[16], d; char s[600]; long cnt = 0;
  for (n = 0; n <= maxlen; n++) { memset(idx, 0, sizeof idx); do { int i; if ((cnt++ % nshards) != shard) continue; for (i = 0; i < n; i++) s[i] = al[idx[i]]; if (n && s[n - 1] == '\n') continue; run_tok(s, n); } while (h_odo_next(idx, n, sizeof al)); }
  if (shard == 0) for (d = 1; d <= 200; d++) { int i, o = 0; for (i = 0; i < d; i++) s[o++] = '('; s[o++] = 'x'; for (i = 0; i < d; i++) s[o++] = ')'; memcpy(s + o, " a@b", 4); o += 4; run_tok(s, o); for (i = 0; i < d && o < 590; i++) { s[o++] = '['; s[o++] = '\\'; s[o++] = 'q'; s[o++] = ']'; } run_tok(s, o); }
  H_SAMPLE("every header field body over {()\\\\\"[]<>@,:;. SP a LF} up to length %d; comment nesting to depth 200", maxlen);
}

/* ---- cdb ---- */
static int cdb_all_values;
static void mode_cdb(void)
{
  int fd = memfd_create("cdb", 0), gd = memfd_create("cdb2", 0); struct cdbmss c; static char img[8192]; int len, cut, i, v; uint32 dlen; static const char *keys[] = { "!joe\0", "!joe-", "", "absent", "!" };
  if (fd < 0 || gd < 0 || cdbmss_start(&c, fd) == -1) h_real_exit(2);
  cdbmss_add(&c, (unsigned char *) "!joe\0", 5, (unsigned char *) "joe\0" "507\0" "100\0/home/joe\0\0", 23); cdbmss_add(&c, (unsigned char *) "!joe-", 5, (unsigned char *) "x", 1); cdbmss_add(&c, (unsigned char *) "", 0, (unsigned char *) "-", 1);
  if (cdbmss_finish(&c) == -1) h_real_exit(2);
  len = pread(fd, img, sizeof img, 0);
  for (cut = 0; cut <= len; cut++) for (i = 0; i < 5; i++) {
    if (ftruncate(gd, 0) || pwrite(gd, img, cut, 0) != cut) h_real_exit(2);
    snprintf(h_cur, sizeof h_cur, "c20 cdb truncated-at=%d key=%s", cut, keys[i]); { int r = cdb_seek(gd, keys[i], i == 0 ? 5 : strlen(keys[i]), &dlen); n_eval++; if (r == 1) { char b[64]; cdb_bread(gd, b, dlen < sizeof b ? dlen : sizeof b); } h_set_add(&outcomes, h_fnv(&r, sizeof r, 11)); } n_nontrivial++;
  }
  for (cut = 0; cut < len; cut++) for (v = 0; v < (cdb_all_values ? 256 : 2); v++) for (i = 0; i < 5; i++) {
    static char m[8192]; memcpy(m, img, len); m[cut] = cdb_all_values ? v : v ? 0xff : 0; if (ftruncate(gd, 0) || pwrite(gd, m, len, 0) != len) h_real_exit(2);
    snprintf(h_cur, sizeof h_cur, "c20 cdb byte@%d=0x%02x key=%s", cut, cdb_all_values ? v : v ? 0xff : 0, keys[i]); { int r = cdb_seek(gd, keys[i], i == 0 ? 5 : strlen(keys[i]), &dlen); n_eval++; if (r == 1) { char b[64]; cdb_bread(gd, b, dlen < sizeof b ? dlen : sizeof b); } h_set_add(&outcomes, h_fnv(&r, sizeof r, 13)); } n_nontrivial++;
  }
  H_SAMPLE("cdb image of %d bytes: every truncation and every byte forced to %s, 5 keys", len, cdb_all_values ? "every value 0..255" : "0x00/0xFF");
}

/* ---- control files ---- */
static void mode_ctl(const char *dir, int maxlen)
{
  static const char al[] = { '\n', '#', ':', 0, (char) 0xff, 'a', ' ' }; int n, idx[16]; char s[16];
  if (chdir(dir) == -1) h_real_exit(2);
  mkdir("control", 0755);
  for (n = 0; n <= maxlen; n++) { memset(idx, 0, sizeof idx); do {
    int i, fd; static stralloc sa = {0}; struct constmap cm; int val = 0;
    for (i = 0; i < n; i++) s[i] = al[idx[i]];
    fd = open("control/x", O_WRONLY | O_CREAT | O_TRUNC, 0644); if (fd < 0 || write(fd, s, n) != n) h_real_exit(2); close(fd);
    snprintf(h_cur, sizeof h_cur, "c20 control file=%s", H_ESC(s, n));
    if (control_readfile(&sa, "control/x", 0) == 1) { if (constmap_init(&cm, sa.s, sa.len, 1)) { constmap(&cm, "a", 1); constmap(&cm, "", 0); constmap_free(&cm); } if (constmap_init(&cm, sa.s, sa.len, 0)) { constmap(&cm, "a", 1); constmap_free(&cm); } }
    control_readline(&sa, "control/x"); control_readint(&val, "control/x"); n_eval += 3; n_nontrivial++;
  } while (h_odo_next(idx, n, sizeof al)); }
  H_SAMPLE("every control-file body over {LF,#,:,NUL,0xFF,a,SP} up to length %d", maxlen);
}

int main(int argc, char **argv)
{
  h_init();
  if (argc < 2) return 2;
  if (!strcmp(argv[1], "dns")) mode_dns(atoi(argv[2]), atoi(argv[3]), atoi(argv[4]));
  else if (!strcmp(argv[1], "tok")) mode_tok(atoi(argv[2]), atoi(argv[3]), atoi(argv[4]));
  else if (!strcmp(argv[1], "cdb")) { cdb_all_values = argc > 2 && atoi(argv[2]); mode_cdb(); }
  else if (!strcmp(argv[1], "ctl")) mode_ctl(argv[2], atoi(argv[3]));
  else return 2;
  printf("STAT evaluations=%ld distinct_nontrivial=%ld\n", n_eval, n_nontrivial);
  fflush(stdout);
  h_real_exit(h_nfail ? 1 : 0);
}
