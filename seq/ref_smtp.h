/* Reference SMTP DATA receiver and mbox-free helpers, written from RFC 5321 section 4.5.2 only:
 *   - lines end at CR LF and nowhere else;
 *   - a line consisting of "." ends the data;
 *   - a line that begins with "." and has further characters loses that one character;
 *   - every other byte (including a CR not followed by LF) is data;
 *   - a LF that is not immediately preceded by CR is not a line ending; the property (and
 *     qmail-smtpd(8)) says the server refuses such a session, so the reference reports it.
 * Independent of the implementation: whole-buffer line splitting, no state machine. */
#ifndef REF_SMTP_H
#define REF_SMTP_H
#include <string.h>

enum { REF_END = 0, REF_BARELF = 1, REF_EOF = 2 };

/* in[0..n): bytes following the 354 reply.  On REF_END: out/outlen = decoded message (lines joined
 * with LF), *consumed = number of input bytes up to and including the terminator.
 * *ambig is set when a line starts with '.' CR <non-LF>: a conforming sender never produces it (it
 * would have stuffed the dot), RFC says strip, qmail keeps; the comparison accepts both and
 * out2/out2len holds the "kept" variant. */
static int ref_decode(const unsigned char *in, size_t n, unsigned char *out, size_t *outlen,
                      size_t *consumed, int *ambig, unsigned char *out2, size_t *out2len)
{
  size_t i = 0, o = 0, o2 = 0;
  if (ambig) *ambig = 0;
  for (;;) {
    /* find the end of the line starting at i */
    size_t j = i, k;
    for (;;) {
      if (j >= n) return REF_EOF;
      if (in[j] == '\n') {
        if (j > i && in[j - 1] == '\r') break;
        return REF_BARELF;
      }
      j++;
    }
    /* line content is in[i .. j-1) (excluding CR LF) */
    {
      size_t len = j - 1 - i;
      const unsigned char *l = in + i;
      if (len == 1 && l[0] == '.') {
        *outlen = o; if (out2len) *out2len = o2; *consumed = j + 1;
        return REF_END;
      }
      if (len >= 1 && l[0] == '.') {
        if (len >= 2 && l[1] == '\r') {  /* '.' CR x ... : see above */
          if (ambig) *ambig = 1;
          if (out2) for (k = 0; k < len; k++) out2[o2++] = l[k];
        } else if (out2) for (k = 1; k < len; k++) out2[o2++] = l[k];
        for (k = 1; k < len; k++) out[o++] = l[k];
      } else {
        for (k = 0; k < len; k++) { out[o++] = l[k]; if (out2) out2[o2++] = l[k]; }
      }
      out[o++] = '\n'; if (out2) out2[o2++] = '\n';
    }
    i = j + 1;
  }
}

/* Canonical "line contents" of a stored message for the client side (C06): the unit tests fix that
 * CR LF, a bare CR and LF each end a line. */
static size_t ref_canon_lines(const unsigned char *m, size_t n, unsigned char *out)
{
  size_t i, o = 0;
  for (i = 0; i < n; i++) {
    if (m[i] == '\r') { out[o++] = '\n'; if (i + 1 < n && m[i + 1] == '\n') i++; }
    else out[o++] = m[i];
  }
  return o;
}
#endif
