/* Scripted SMTP server behind timeoutread()/timeoutwrite() for the C09 harness (separate TU: no
 * repository headers, so prototype changes there cannot break the build). */
#include <sys/types.h>
#include <string.h>
#include <errno.h>
#include <stdio.h>
#include <stdlib.h>
#include "c09_net.h"

struct srv_answer *srv_ans[SRV_MAX]; int srv_n;
int srv_released, srv_writes, srv_mode_lockstep = 1, srv_split_at = -1, srv_onebyte = 0, srv_write_fail_at = -1;
unsigned char srv_sent[8192]; size_t srv_sent_len;
static unsigned char buf[8192]; static size_t buf_len, buf_off; static size_t stream_off;
static int pending_then;
int srv_stalled_reads;

void srv_reset(void)
{
  srv_released = srv_writes = 0; srv_sent_len = 0; buf_len = buf_off = 0; stream_off = 0; pending_then = 0;
  srv_stalled_reads = 0;
}

static int release_next(void)
{
  struct srv_answer *a;
  if (srv_released >= srv_n) return 0;
  if (srv_mode_lockstep && srv_released > srv_writes) return 0;
  a = srv_ans[srv_released++];
  memcpy(buf, a->bytes, a->len); buf_len = a->len; buf_off = 0;
  pending_then = a->then;
  return 1;
}

ssize_t timeoutread(int t, int fd, void *vout, size_t len)
{
  char *out = vout; size_t k = 0;
  (void) t; (void) fd;
  for (;;) {
    if (buf_off < buf_len) {
      while (buf_off < buf_len && k < len) {
        out[k++] = buf[buf_off++]; stream_off++;
        if (srv_onebyte) break;
        if (srv_split_at >= 0 && (size_t) srv_split_at == stream_off) break;
      }
      return k;
    }
    if (pending_then == SRV_DISCONNECT) return 0;
    if (pending_then == SRV_STALL) { errno = ETIMEDOUT; return -1; }
    if (!release_next()) {
      if (srv_released >= srv_n) return 0; /* script exhausted: peer has gone */
      srv_stalled_reads++; errno = ETIMEDOUT; return -1; /* client reads without having written */
    }
    if (buf_len == 0 && pending_then == SRV_CONTINUE) { /* empty answer: nothing to read yet */ }
  }
}

ssize_t timeoutwrite(int t, int fd, const void *in, size_t len)
{
  (void) t; (void) fd;
  if (srv_write_fail_at >= 0 && srv_writes == srv_write_fail_at) { srv_writes++; errno = EPIPE; return -1; }
  srv_writes++;
  if (srv_sent_len + len <= sizeof srv_sent) { memcpy(srv_sent + srv_sent_len, in, len); srv_sent_len += len; }
  return len;
}
