#ifndef C09_NET_H
#define C09_NET_H
#include <stddef.h>
enum { SRV_CONTINUE = 0, SRV_DISCONNECT = 1, SRV_STALL = 2 };
struct srv_answer { const char *bytes; int len; int then; int klass; /* 2,3,4,5 = reply class; 0 = garbage reply; -1 = connection lost/stalled */ int code; const char *name; };
#define SRV_MAX 16
extern struct srv_answer *srv_ans[SRV_MAX]; extern int srv_n;
extern int srv_released, srv_writes, srv_mode_lockstep, srv_split_at, srv_onebyte, srv_write_fail_at;
extern unsigned char srv_sent[8192]; extern size_t srv_sent_len;
extern int srv_stalled_reads;
void srv_reset(void);
#endif
