/* Byte-stream SMTP peer behind timeoutread()/timeoutwrite() for seq/c20_remote.c (separate TU: no repository headers). */
#include <sys/types.h>
#include <string.h>
#include <errno.h>
const unsigned char *c20_stream; size_t c20_stream_len, c20_stream_off; int c20_chunk; /* 0: as much as asked; n: at most n bytes per read */
int c20_end_stall; /* at the end of the stream: 0 = connection closed, 1 = timeout */
size_t c20_sent;
ssize_t timeoutread(int t, int fd, void *vout, size_t len)
{
  size_t n = c20_stream_len - c20_stream_off; (void) t; (void) fd;
  if (!n) { if (c20_end_stall) { errno = ETIMEDOUT; return -1; } return 0; }
  if (n > len) n = len;
  if (c20_chunk && n > (size_t) c20_chunk) n = c20_chunk;
  memcpy(vout, c20_stream + c20_stream_off, n); c20_stream_off += n;
  return n;
}
ssize_t timeoutwrite(int t, int fd, const void *in, size_t len) { (void) t; (void) fd; (void) in; c20_sent += len; return len; }
