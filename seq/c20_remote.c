/* C20: the real smtp()/smtpcode()/get()/outsmtptext() of qmail-remote.c against hostile reply streams, chained into the real
 * report() of qmail-rspawn.c (exact-size heap copy, so reading behind the output is a sanitizer report).
 *   c20_remote <shard> <nshards>
 * For each of the 6 phases (greeting, HELO, MAIL, RCPT, DATA, final dot) the replies before it are ordinary, the reply of the
 * phase comes from the catalogue {9 forms} x {3 codes} x {lengths 0..5, around 1024, every length 4990..5010 (HUGESMTPTEXT),
 * around 8192, 70000, 1000000}, followed by ordinary replies; each stream is delivered in 3 ways (as asked, 1 byte, 7 bytes per
 * read) and with either a disconnect or a timeout at its end. */
#define _GNU_SOURCE
#define main qmail_remote_main
#include "qmail-remote.c"
#undef main
#include "qmail-rspawn.c"
uid_t auto_uidq __attribute__((weak));
#include "harness.h"
extern const unsigned char *c20_stream; extern size_t c20_stream_len, c20_stream_off, c20_sent; extern int c20_chunk, c20_end_stall;

static char rep[1 << 16]; static size_t rep_len, rep_total;
static ssize_t repwr(int fd, const char *buf, size_t len) { (void) fd; rep_total += len; if (rep_len + len < sizeof rep) { memcpy(rep + rep_len, buf, len); rep_len += len; } return len; }
static const char *msg = "Subject: t\n\n.body\n"; static size_t msg_off;
static ssize_t msgrd(int fd, char *buf, size_t len) { size_t k = 0, n = strlen(msg); (void) fd; while (msg_off < n && k < len) buf[k++] = msg[msg_off++]; return k; }
static long n_eval, n_nontrivial, n_K, n_Z, n_D; static h_set outcomes;

static int run_smtp(void)
{
  substdio tmpin = SUBSTDIO_FDBUF(msgrd, -1, inbuf, sizeof(inbuf));
  substdio tmpto = SUBSTDIO_FDBUF(safewrite, -1, smtptobuf, sizeof(smtptobuf));
  substdio tmpfrom = SUBSTDIO_FDBUF(saferead, -1, smtpfrombuf, sizeof(smtpfrombuf));
  ssin = tmpin; smtpto = tmpto; smtpfrom = tmpfrom; msg_off = 0;
  subfdoutsmall->op = repwr; subfdoutsmall->p = 0; rep_len = 0; rep_total = 0; flagcritical = 0; smtptext.len = 0;
  c20_stream_off = 0; c20_sent = 0;
  h_exit_armed = 1;
  if (setjmp(h_exit_jb) == 0) { smtp(); h_exit_armed = 0; return 1; }
  return 0;
}

static unsigned char *S; static size_t Slen, Scap;
static void put(const void *p, size_t n) { if (Slen + n > Scap) { Scap = (Slen + n) * 2; S = realloc(S, Scap); if (!S) h_real_exit(2); } memcpy(S + Slen, p, n); Slen += n; }
static void puts_(const char *s) { put(s, strlen(s)); }
static void fill(int ch, size_t n) { size_t i; char c = ch; for (i = 0; i < n; i++) put(&c, 1); }
static const char *okreply[6] = { "220 hi\r\n", "250 hello\r\n", "250 sender ok\r\n", "250 rcpt ok\r\n", "354 go\r\n", "250 queued\r\n" };
static const char *formname[9] = { "code SP text", "two lines of text", "L continuation lines", "text without line end", "NULs", "0xFF line before the reply", "code + L dashes", "L empty lines before the reply", "L-digit code" };

static void hostile(int form, int code, size_t L)
{
  char c[16], d[16]; size_t i; snprintf(c, sizeof c, "%d ", code); snprintf(d, sizeof d, "%d-", code);
  switch (form) {
    case 0: puts_(c); fill('x', L); puts_("\r\n"); break;
    case 1: puts_(d); fill('x', L); puts_("\r\n"); puts_(c); fill('y', L); puts_("\r\n"); break;
    case 2: for (i = 0; i < L && i < 70000; i++) { puts_(d); puts_("x\r\n"); } puts_(c); puts_("x\r\n"); break;
    case 3: fill('x', L); break;
    case 4: puts_(c); fill(0, L); puts_("\r\n"); break;
    case 5: fill(0xff, L); puts_("\r\n"); puts_(c); puts_("after\r\n"); break;
    case 6: snprintf(c, sizeof c, "%d", code); puts_(c); fill('-', L); puts_("\r\n"); snprintf(c, sizeof c, "%d ", code); puts_(c); puts_("end\r\n"); break;
    case 7: for (i = 0; i < L && i < 70000; i++) puts_("\n"); puts_(c); puts_("after\r\n"); break;
    case 8: fill('2', L); puts_(" x\r\n"); break;
  }
}

int main(int argc, char **argv)
{
  static size_t Ls[80]; int nL = 0, p, form, ci, li, ch, es, shard, nshards; long cnt = 0; size_t l;
  h_init();
  if (argc < 3) return 2;
  shard = atoi(argv[1]); nshards = atoi(argv[2]);
  for (l = 0; l <= 5; l++) Ls[nL++] = l;
  Ls[nL++] = 100; Ls[nL++] = 1023; Ls[nL++] = 1024; Ls[nL++] = 1025;
  for (l = 4990; l <= 5010; l++) Ls[nL++] = l;
  Ls[nL++] = 8191; Ls[nL++] = 8192; Ls[nL++] = 8193; Ls[nL++] = 70000; Ls[nL++] = 1000000;
  if (!stralloc_copys(&helohost, "me.example") || !stralloc_copys(&sender, "s@x") || !saa_readyplus(&reciplist, 2)) return 2;
  reciplist.sa[0] = sauninit; if (!stralloc_copys(&reciplist.sa[0], "r@y")) return 2; reciplist.len = 1;
  for (p = 0; p < 6; p++) for (form = 0; form < 9; form++) for (ci = 0; ci < 3; ci++) for (li = 0; li < nL; li++) {
    static const int chunks[3] = { 0, 1, 7 }; int code = ci == 0 ? atoi(okreply[p]) : ci == 1 ? 451 : 550, q;
    if ((cnt++ % nshards) != shard) continue;
    if (Ls[li] > 70000 && !(form == 0 || form == 3 || form == 4)) continue;
    Slen = 0; for (q = 0; q < p; q++) puts_(okreply[q]);
    hostile(form, code, Ls[li]);
    for (q = p + 1; q < 6; q++) puts_(okreply[q]);
    puts_("221 bye\r\n");
    for (ch = 0; ch < 3; ch++) for (es = 0; es < 2; es++) {
      int returned; size_t j, k; char last = 0; char key[200];
      if (Ls[li] >= 70000 && chunks[ch] == 1 && es) continue;
      c20_stream = S; c20_stream_len = Slen; c20_chunk = chunks[ch]; c20_end_stall = es;
      snprintf(h_cur, sizeof h_cur, "c20 smtp reply phase=%d form=[%s] code=%d L=%zu read-chunk=%d end=%s", p, formname[form], code, Ls[li], chunks[ch], es ? "timeout" : "disconnect");
      snprintf(key, sizeof key, "smtpreply:phase%d:form%d:code%d:L%zu", p, form, code, Ls[li]);
      returned = run_smtp(); n_eval++;
      if (returned) { H_FAIL(key, "smtp() returned"); continue; }
      if (h_exit_code != 0) { H_FAIL(key, "qmail-remote exit code %d, documented: always 0", h_exit_code); continue; }
      if (rep_total > 5000 + 1500) { H_FAIL(key, "qmail-remote printed %zu bytes for one recipient; the server text it relays is limited to HUGESMTPTEXT (5000)", rep_total); continue; }
      j = 0; for (k = 0; k < rep_len; k++) if (!rep[k]) { last = rep[j]; j = k + 1; }
      if (j != rep_len || !rep_len) { H_FAIL(key, "output does not end with a NUL-terminated report: %s", H_ESC(rep, rep_len < 60 ? rep_len : 60)); continue; }
      if (last == 'K') n_K++; else if (last == 'Z') n_Z++; else if (last == 'D') n_D++; else { H_FAIL(key, "final report letter is 0x%02x", (unsigned char) last); continue; }
      { char sbuf[8192]; substdio ss; size_t sl = rep_len; char *copy = malloc(sl ? sl : 1); if (!copy) h_real_exit(2); memcpy(copy, rep, sl); rep_len = 0; rep_total = 0;
        substdio_fdbuf(&ss, repwr, -1, sbuf, sizeof sbuf); report(&ss, 0, copy, (int) sl); substdio_flush(&ss); free(copy);
        if (rep_len < 1 || !(rep[0] == 'K' || rep[0] == 'Z' || rep[0] == 'D')) H_FAIL(key, "qmail-rspawn's report() relays %s", H_ESC(rep, rep_len < 40 ? rep_len : 40));
        h_set_add(&outcomes, h_fnv(rep, rep_len < 200 ? rep_len : 200, last)); }
      n_nontrivial++;
    }
  }
  H_SAMPLE("hostile SMTP replies: 6 phases x 9 forms x 3 codes x %d lengths x 3 read sizes x {disconnect, timeout}", nL);
  printf("STAT evaluations=%ld distinct_nontrivial=%ld smtp_K=%ld smtp_Z=%ld smtp_D=%ld states=%zu\n", n_eval, n_nontrivial, n_K, n_Z, n_D, outcomes.n);
  fflush(stdout);
  h_real_exit(h_nfail ? 1 : 0);
}
