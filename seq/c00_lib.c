/* Library conformance: the shared primitives every property rests on, exhaustively over small domains against trivial references
 * (libc or a few lines of obvious code).  A defect here (an off-by-one at a buffer boundary, a mishandled short read, a case fold
 * that misses one letter) breaks many properties at once but only for inputs that hit the boundary, which the program-level
 * enumerations may not contain -- so each check that depends on a group of primitives runs the corresponding mode.
 *   io    substdio input  : buffer sizes 1..9 x streams of 0..10 bytes x EVERY schedule of read() return sizes (incl. EINTR, an
 *                           error at every position) x 8 consumer patterns (get 1/2/3/B+1, bget, feed+peek+seek, getln, mixed)
 *         substdio output : buffer sizes 1..6 x put-length sequences x write() accepting 1/2/3/all bytes x an error at every call
 *         substdio_copy   : read error -> -2, write error -> -3, else 0 and identical bytes
 *   bytes byte_* / str_* / case_*  : every overlap and length <= 12 for the copies; every string of length <= 4 over {a,B,z,Z,@,[,`,{,NUL}
 *                           for searches and comparisons; every byte value for the case functions
 *   num   fmt_* / scan_*  : boundary values (0, 9, 10, 2^31, 2^32, 2^64-1 ...) round trip; scan_ulong/scan_8long on every digit
 *                           string of length <= 3 followed by every byte value as terminator
 *   ctl <dir> <maxlen>    : control_readline/readint/readfile/rldef on every file body over {LF,#,SP,TAB,a,7} up to maxlen,
 *                           absent files, unreadable files (ELOOP, ENOTDIR), with and without control/me, against a reference written
 *                           from qmail-control(5)
 */
#define _GNU_SOURCE
#include <stdio.h>
#include <stdlib.h>
#include <string.h>
#include <strings.h>
#include <ctype.h>
#include <errno.h>
#include <fcntl.h>
#include <unistd.h>
#include <sys/stat.h>
#include "harness.h"
#include "substdio.h"
#include "stralloc.h"
#include "getln.h"
#include "byte.h"
#include "str.h"
#include "case.h"
#include "fmt.h"
#include "scan.h"
#include "control.h"

static long n_eval, n_nontrivial;

/* ------------------------------------------------------------------------------------------------ io: input side */
static unsigned char stream[32]; static int slen, soff;
static int sched[32], nsched, isched;    /* per read(): > 0 return at most that many bytes; -1 EINTR once; -2 error (EIO) */
static int reads_seen;
static ssize_t rd(int fd, char *buf, size_t len)
{
  int k; (void) fd; reads_seen++;
  if (isched < nsched) { k = sched[isched++]; if (k == -1) { errno = EINTR; return -1; } if (k == -2) { errno = EIO; return -1; } } else k = 1 << 20;
  if ((size_t) k > len) k = len;
  if (k > slen - soff) k = slen - soff;
  memcpy(buf, stream + soff, k); soff += k; return k;
}
static char ibuf[16];
/* consume the whole stream with one of the patterns; returns what arrived in got[], *err = 1 if an error was reported */
static int consume(int B, int pattern, unsigned char *got, int *err)
{
  substdio ss; int g = 0, r, step = 0; static stralloc sa = {0}; int match;
  substdio_fdbuf(&ss, rd, -1, ibuf, B); *err = 0;
  for (;;) {
    int want; char tmp[16];
    if (g > 40) return -1;
    switch (pattern) {
      case 0: want = 1; break; case 1: want = 2; break; case 2: want = 3; break; case 3: want = B + 1; break;
      case 4: want = (step % 3) + 1; break;
      default: want = 0;
    }
    step++;
    if (pattern <= 4) { r = substdio_get(&ss, tmp, want); if (r == -1) { *err = 1; return g; } if (r == 0) return g; if (r > want) return -1; memcpy(got + g, tmp, r); g += r; continue; }
    if (pattern == 5) { r = substdio_bget(&ss, tmp, B > 1 ? B - 1 : 1); if (r == -1) { *err = 1; return g; } if (r == 0) return g; memcpy(got + g, tmp, r); g += r; continue; }
    if (pattern == 6) { r = substdio_feed(&ss); if (r == -1) { *err = 1; return g; } if (r == 0) return g; { int take = (step % 2) ? 1 : r; memcpy(got + g, substdio_PEEK(&ss), take); substdio_SEEK(&ss, take); g += take; } continue; }
    /* pattern 7: lines through getln() with separator 0x0a */
    if (getln(&ss, &sa, &match, '\n') == -1) { *err = 1; return g; }
    if (!match && !sa.len) return g;
    memcpy(got + g, sa.s, sa.len); g += sa.len;
    if (match && (sa.len == 0 || sa.s[sa.len - 1] != '\n')) return -1;
    if (!match) return g;
  }
}
static void mode_io_in(void)
{
  int B, n, pat;
  for (B = 1; B <= 9; B++) for (n = 0; n <= 10; n++) {
    int i; unsigned long mask, nmask = n ? 1UL << (n - 1) : 1;
    slen = n; for (i = 0; i < n; i++) stream[i] = (i % 4 == 3) ? '\n' : 'a' + i;
    for (mask = 0; mask < nmask; mask++) {
      /* the schedule of read sizes: cut points of the stream (a chunk larger than the space offered is simply cut by the callback) */
      int variant;
      for (variant = 0; variant < 3 + n; variant++) {   /* 0 plain; 1 EINTR before the first read; 2 EINTR before every read; 3+k error instead of the read that would start at or after byte k */
        int start = 0, errpos = variant >= 3 ? variant - 3 : -1;
        nsched = 0;
        for (i = 0; i < n; i++) if (i == n - 1 || (mask & (1UL << i))) { int len = i + 1 - start; if (variant == 1 && nsched == 0) sched[nsched++] = -1; if (variant == 2) sched[nsched++] = -1; if (errpos >= 0 && start >= errpos) { sched[nsched++] = -2; errpos = -2; break; } sched[nsched++] = len; start = i + 1; }
        if (errpos >= 0) continue;   /* no read starts there */
        for (pat = 0; pat < 8; pat++) {
          unsigned char got[64]; int g, err, upto;
          soff = 0; isched = 0; reads_seen = 0;
          snprintf(h_cur, sizeof h_cur, "c00 substdio input B=%d n=%d cuts=%lx variant=%d pattern=%d", B, n, mask, variant, pat);
          g = consume(B, pat, got, &err); n_eval++;
          /* reference: exactly the bytes read so far, in order; an error is reported iff one was injected, after everything before it */
          upto = soff;
          if (g < 0) { char key[120]; snprintf(key, sizeof key, "lib:substdio-input:B%d:pattern%d", B, pat); H_FAIL(key, "inconsistent return value (buffer %d, stream of %d bytes, read cuts %lx, variant %d)", B, n, mask, variant); continue; }
          if ((errpos == -2) != err && !(errpos == -2 && 0)) { char key[120]; snprintf(key, sizeof key, "lib:substdio-input-error:B%d:pattern%d", B, pat); H_FAIL(key, "read error %s but the reader %s one (buffer %d, stream %d bytes, cuts %lx)", errpos == -2 ? "injected" : "not injected", err ? "reported" : "did not report", B, n, mask); continue; }
          if (g != upto && !(pat == 7 && err) && !err) { char key[120]; snprintf(key, sizeof key, "lib:substdio-input:B%d:pattern%d", B, pat); H_FAIL(key, "%d bytes delivered, %d bytes were read from the descriptor (buffer %d, stream %d bytes, read cuts %lx, variant %d)", g, upto, B, n, mask, variant); continue; }
          if (memcmp(got, stream, g < upto ? g : upto)) { char key[120]; snprintf(key, sizeof key, "lib:substdio-input:B%d:pattern%d", B, pat); H_FAIL(key, "bytes delivered differ from the bytes read: got %s, stream %s (buffer %d, read cuts %lx, variant %d)", H_ESC(got, g), H_ESC(stream, n), B, mask, variant); continue; }
          n_nontrivial++;
        }
      }
    }
  }
  H_SAMPLE("substdio input: buffers 1..9 x streams 0..10 bytes x every read-size schedule x EINTR/error variants x 8 consumer patterns");
}

/* ------------------------------------------------------------------------------------------------ io: output side */
static unsigned char wire[256]; static int wlen; static int wlimit, wfail_at, wcalls, weintr_at = -1;
static ssize_t wr(int fd, const char *buf, size_t len)
{ (void) fd; if (weintr_at >= 0 && wcalls == weintr_at) { weintr_at = -1; errno = EINTR; return -1; }   /* an interrupted write: nothing was written, the caller retries the same bytes */
  if (wfail_at >= 0 && wcalls == wfail_at) { wcalls++; errno = EIO; return -1; } wcalls++; if (wlimit && len > (size_t) wlimit) len = wlimit; if (wlen + len > sizeof wire) h_real_exit(2); memcpy(wire + wlen, buf, len); wlen += len; return len; }
static void mode_io_out(void)
{
  static const int plens[] = {0, 1, 2, 3, 5, 7, 13}; int B, a, b, c, lim, fail, method; char obuf[16];
  for (B = 1; B <= 6; B++) for (a = 0; a < 7; a++) for (b = 0; b < 7; b++) for (c = 0; c < 7; c++) for (lim = 0; lim <= 3; lim++) for (method = 0; method < 3; method++) for (fail = -8; fail < 6; fail++) {   /* fail <= -2: no failure, but write number (-2 - fail) is interrupted once (EINTR) */
    substdio ss; unsigned char data[64]; int total = 0, i, r = 0, lens[3], k, sent = 0; int eintr = fail <= -2 ? -2 - fail : -1;
    if (fail <= -2) { fail = -1; }
    lens[0] = plens[a]; lens[1] = plens[b]; lens[2] = plens[c];
    for (i = 0; i < 40; i++) data[i] = 'A' + i;
    substdio_fdbuf(&ss, wr, -1, obuf, B); wlen = 0; wlimit = lim; wfail_at = fail; wcalls = 0; weintr_at = eintr;
    snprintf(h_cur, sizeof h_cur, "c00 substdio output B=%d puts=%d,%d,%d write-limit=%d method=%d fail-at-call=%d eintr-at-call=%d", B, lens[0], lens[1], lens[2], lim, method, fail, eintr);
    for (k = 0; k < 3 && r != -1; k++) {
      if (method == 0) r = substdio_put(&ss, (char *) data + total, lens[k]);
      else if (method == 1) r = substdio_bput(&ss, (char *) data + total, lens[k]);
      else r = substdio_putflush(&ss, (char *) data + total, lens[k]);
      if (r != -1) { total += lens[k]; sent = total; }
    }
    if (r != -1) r = substdio_flush(&ss);
    n_eval++;
    { char key[120]; snprintf(key, sizeof key, "lib:substdio-output:B%d:method%d", B, method);
      if (r == -1 && !(fail >= 0 && wcalls > fail)) { H_FAIL(key, "an error was reported although no write failed (%s)", h_cur); continue; }
      if (r != -1 && fail >= 0 && wcalls > fail) { H_FAIL(key, "a failing write was not reported (%s)", h_cur); continue; }
      /* what reached the descriptor is always a prefix of the data, and everything once flushed without error */
      if (wlen > total + 13 || memcmp(wire, data, wlen)) { H_FAIL(key, "bytes written are not a prefix of the bytes put: %s (%s)", H_ESC(wire, wlen), h_cur); continue; }
      if (r != -1 && wlen != sent) { H_FAIL(key, "%d bytes put and flushed, %d bytes written (%s)", sent, wlen, h_cur); continue; } }
    n_nontrivial++;
    if (eintr >= 0) fail = -2 - eintr;
  }
  H_SAMPLE("substdio output: buffers 1..6 x 3 puts of {0,1,2,3,5,7,13} bytes x put/bput/putflush x write limits x a failing write at every call");
}
static void mode_io_copy(void)
{
  int Bi, Bo, n, rfail, wfail, rl, wl; char ob[16];
  for (Bi = 1; Bi <= 5; Bi++) for (Bo = 1; Bo <= 5; Bo++) for (n = 0; n <= 9; n++) for (rl = 1; rl <= 3; rl++) for (wl = 0; wl <= 2; wl++) for (rfail = -1; rfail <= n; rfail++) for (wfail = -1; wfail < 4; wfail++) {
    substdio in, out; int i, r;
    if (rfail >= 0 && wfail >= 0) continue;
    slen = n; for (i = 0; i < n; i++) stream[i] = 'a' + i; soff = 0; isched = 0; nsched = 0;
    for (i = 0; i < n + 2 && nsched < 30; i += rl) { if (rfail >= 0 && i >= rfail) { sched[nsched++] = -2; break; } sched[nsched++] = rl; }
    if (rfail >= 0 && (nsched == 0 || sched[nsched - 1] != -2)) continue;
    substdio_fdbuf(&in, rd, -1, ibuf, Bi); substdio_fdbuf(&out, wr, -1, ob, Bo); wlen = 0; wlimit = wl; wfail_at = wfail; wcalls = 0;
    snprintf(h_cur, sizeof h_cur, "c00 substdio_copy Bin=%d Bout=%d n=%d read-chunk=%d write-limit=%d read-fails-at=%d write-fails-at-call=%d", Bi, Bo, n, rl, wl, rfail, wfail);
    r = substdio_copy(&out, &in); if (r == 0) r = substdio_flush(&out) == -1 ? -3 : 0; n_eval++;
    { const char *key = "lib:substdio_copy"; int wfailed = wfail >= 0 && wcalls > wfail;
      if (rfail >= 0 && r != -2 && !wfailed) { H_FAIL(key, "a read error must give -2, got %d (%s)", r, h_cur); continue; }
      if (rfail < 0 && wfailed && r != -3) { H_FAIL(key, "a write error must give -3, got %d (%s)", r, h_cur); continue; }
      if (rfail < 0 && !wfailed && (r != 0 || wlen != n || memcmp(wire, stream, n))) { H_FAIL(key, "copy without errors returned %d and wrote %s (%s)", r, H_ESC(wire, wlen), h_cur); continue; }
      if (memcmp(wire, stream, wlen < n ? wlen : n) || wlen > n) { H_FAIL(key, "bytes written are not a prefix of the input: %s (%s)", H_ESC(wire, wlen), h_cur); continue; } }
    n_nontrivial++;
  }
  H_SAMPLE("substdio_copy: buffers 1..5 x 1..5, streams 0..9 bytes, a failing read at every position, a failing write at every call");
}

/* ------------------------------------------------------------------------------------------------ bytes */
static void mode_bytes(void)
{
  static const char al[] = { 'a', 'B', 'z', 'Z', '@', '[', '`', '{', 0 }; int n, idx[8], i, j; unsigned c;
  /* copies: every length and every overlap */
  for (n = 0; n <= 12; n++) for (i = 0; i <= 6; i++) for (j = 0; j <= 6; j++) {
    unsigned char a[32], b[32], r[32]; int k; for (k = 0; k < 32; k++) a[k] = b[k] = r[k] = 'A' + k;
    snprintf(h_cur, sizeof h_cur, "c00 byte_copy/byte_copyr n=%d from=%d to=%d", n, i, j);
    memmove(r + j, r + i, n);
    if (j <= i) { byte_copy((char *) a + j, n, (char *) a + i); if (memcmp(a, r, 32)) H_FAIL("lib:byte_copy", "byte_copy(n=%d) with destination %d bytes before the source differs from memmove", n, i - j); }
    if (j >= i) { byte_copyr((char *) b + j, n, (char *) b + i); if (memcmp(b, r, 32)) H_FAIL("lib:byte_copyr", "byte_copyr(n=%d) with destination %d bytes after the source differs from memmove: %s", n, j - i, H_ESC(b, 24)); }
    n_eval += 2; n_nontrivial++;
  }
  /* searches and comparisons on every short string */
  for (n = 0; n <= 4; n++) { memset(idx, 0, sizeof idx); do {
      char s[8], t[8]; int m; for (i = 0; i < n; i++) s[i] = al[idx[i]]; s[n] = 0;
      snprintf(h_cur, sizeof h_cur, "c00 str/byte functions on %s", H_ESC(s, n));
      for (i = 0; i < 9; i++) { char ch = al[i]; const char *p; unsigned want;
        p = memchr(s, ch, n); want = p ? p - s : n; if (byte_chr(s, n, ch) != want) H_FAIL("lib:byte_chr", "byte_chr(%s, %d, 0x%02x) = %u, expected %u", H_ESC(s, n), n, ch, byte_chr(s, n, ch), want);
        p = memrchr(s, ch, n); want = p ? p - s : n; if (byte_rchr(s, n, ch) != want) H_FAIL("lib:byte_rchr", "byte_rchr(%s, %d, 0x%02x) = %u, expected %u", H_ESC(s, n), n, ch, byte_rchr(s, n, ch), want);
        if (ch) { size_t l = strlen(s); p = strchr(s, ch); want = p ? p - s : l; if (str_chr(s, ch) != want) H_FAIL("lib:str_chr", "str_chr(%s, 0x%02x) = %u, expected %u", H_ESC(s, n), ch, str_chr(s, ch), want);
          p = strrchr(s, ch); want = p ? p - s : l; if (str_rchr(s, ch) != want) H_FAIL("lib:str_rchr", "str_rchr(%s, 0x%02x) = %u, expected %u (position of the LAST occurrence)", H_ESC(s, n), ch, str_rchr(s, ch), want); }
        n_eval += 4; }
      if (str_len(s) != strlen(s)) H_FAIL("lib:str_len", "str_len(%s) = %u", H_ESC(s, n), str_len(s));
      /* against every string of length <= 2 */
      for (m = 0; m <= 2; m++) { int id2[4] = {0, 0, 0, 0}; do { int sg, wsg; for (i = 0; i < m; i++) t[i] = al[id2[i]]; t[m] = 0;
          sg = str_diff(s, t); wsg = strcmp(s, t); if ((sg > 0) != (wsg > 0) || (sg < 0) != (wsg < 0)) H_FAIL("lib:str_diff", "str_diff(%s, %s) has the wrong sign", H_ESC(s, n), H_ESC(t, m));
          if ((str_start(s, t) != 0) != (strncmp(s, t, strlen(t)) == 0)) H_FAIL("lib:str_start", "str_start(%s, %s) = %d", H_ESC(s, n), H_ESC(t, m), str_start(s, t));
          sg = case_diffs(s, t); wsg = strcasecmp(s, t); if ((sg == 0) != (wsg == 0)) H_FAIL("lib:case_diffs", "case_diffs(%s, %s) = %d, strcasecmp says %d", H_ESC(s, n), H_ESC(t, m), sg, wsg);
          if ((case_starts(s, t) != 0) != (strncasecmp(s, t, strlen(t)) == 0)) H_FAIL("lib:case_starts", "case_starts(%s, %s) = %d", H_ESC(s, n), H_ESC(t, m), case_starts(s, t));
          if (m <= n) {
            sg = case_diffb(s, m, t); wsg = strncasecmp(s, t, m); { int k2, eq = 1; for (k2 = 0; k2 < m; k2++) if (tolower((unsigned char) s[k2]) != tolower((unsigned char) t[k2])) eq = 0; if ((sg == 0) != eq) H_FAIL("lib:case_diffb", "case_diffb(%s, %d, %s) = %d", H_ESC(s, n), m, H_ESC(t, m), sg); } (void) wsg; }
          n_eval += 6; } while (h_odo_next(id2, m, 9)); }
      n_nontrivial++;
    } while (h_odo_next(idx, n, 9)); }
  /* case folding of every byte value */
  for (c = 0; c < 256; c++) { char s[3]; s[0] = c; s[1] = 'x'; s[2] = 0; snprintf(h_cur, sizeof h_cur, "c00 case_lowerb on byte 0x%02x", c);
    case_lowerb(s, 1); if ((unsigned char) s[0] != (unsigned char) ((c >= 'A' && c <= 'Z') ? c + 32 : c)) H_FAIL("lib:case_lowerb", "case_lowerb maps 0x%02x to 0x%02x", c, (unsigned char) s[0]);
    if (c) { s[0] = c; case_lowers(s); if ((unsigned char) s[0] != (unsigned char) ((c >= 'A' && c <= 'Z') ? c + 32 : c)) H_FAIL("lib:case_lowers", "case_lowers maps 0x%02x to 0x%02x", c, (unsigned char) s[0]); }
    n_eval += 2; }
  H_SAMPLE("byte_copy/byte_copyr every overlap and length <= 12; byte_chr/rchr, str_chr/rchr/len/diff/start, case_diffs/diffb/starts on every string <= 4 over {a,B,z,Z,@,[,`,{,NUL}; case folding of all 256 byte values");
}

/* ------------------------------------------------------------------------------------------------ num */
static void mode_num(void)
{
  static const unsigned long vals[] = { 0, 1, 9, 10, 11, 99, 100, 255, 256, 999, 1000, 32767, 32768, 65535, 65536, 2147483647UL, 2147483648UL, 4294967295UL, 4294967296UL, 9999999999UL, 10000000000UL, 9223372036854775807UL, 9223372036854775808UL, 18446744073709551615UL };
  unsigned i, d1, d2, d3, n, c;
  for (i = 0; i < sizeof vals / sizeof *vals; i++) { char b[64], w[64]; unsigned long u = 7; unsigned len, l2;
    snprintf(h_cur, sizeof h_cur, "c00 fmt/scan of %lu", vals[i]);
    len = fmt_ulong(b, vals[i]); l2 = fmt_ulong(0, vals[i]); snprintf(w, sizeof w, "%lu", vals[i]);
    if (len != strlen(w) || l2 != len || memcmp(b, w, len)) H_FAIL("lib:fmt_ulong", "fmt_ulong(%lu) gives %s (length %u, length-only call %u)", vals[i], H_ESC(b, len < 40 ? len : 40), len, l2);
    b[len] = 0; if (scan_ulong(b, &u) != len || u != vals[i]) H_FAIL("lib:scan_ulong", "scan_ulong(\"%s\") consumed %u characters and returned %lu", w, scan_ulong(b, &u), u);
    if (vals[i] <= 4294967295UL) { unsigned k; for (k = 0; k <= 12; k += 3) { len = fmt_uint0(b, (unsigned) vals[i], k); snprintf(w, sizeof w, "%0*u", (int) k, (unsigned) vals[i]); if (len != strlen(w) || memcmp(b, w, len)) H_FAIL("lib:fmt_uint0", "fmt_uint0(%lu, %u) gives %s", vals[i], k, H_ESC(b, len < 40 ? len : 40)); } }
    n_eval += 3; n_nontrivial++; }
  /* every digit string of length <= 3, then every byte value as the character that ends the number */
  for (n = 0; n <= 3; n++) for (d1 = 0; d1 < 10; d1++) for (d2 = 0; d2 < 10; d2++) for (d3 = 0; d3 < 10; d3++) {
    if ((n < 3 && d3) || (n < 2 && d2) || (n < 1 && d1)) continue;
    for (c = 0; c < 256; c++) { char s[8]; unsigned long u = 12345, want = 0; unsigned k = 0, r;
      if (n >= 1) s[k++] = '0' + d1; if (n >= 2) s[k++] = '0' + d2; if (n >= 3) s[k++] = '0' + d3; s[k] = c; s[k + 1] = 0;
      if (c >= '0' && c <= '9') continue;
      { unsigned q; for (q = 0; q < k; q++) want = want * 10 + (s[q] - '0'); }
      snprintf(h_cur, sizeof h_cur, "c00 scan_ulong on %s", H_ESC(s, k + 1));
      r = scan_ulong(s, &u); n_eval++;
      if (r != k || (k && u != want)) { char key[64]; snprintf(key, sizeof key, "lib:scan_ulong:terminator-0x%02x", c); H_FAIL(key, "scan_ulong(%s) consumed %u characters, value %lu; expected %u characters, value %lu", H_ESC(s, k + 1), r, u, k, want); }
      if (d1 < 8 && d2 < 8 && d3 < 8) { unsigned long w8 = 0; unsigned q; for (q = 0; q < k; q++) w8 = w8 * 8 + (s[q] - '0'); if (c == '8' || c == '9') continue; u = 1; r = scan_8long(s, &u); if (r != k || (k && u != w8)) H_FAIL("lib:scan_8long", "scan_8long(%s) consumed %u characters, value %lu", H_ESC(s, k + 1), r, u); n_eval++; }
    } }
  H_SAMPLE("fmt_ulong/fmt_uint0/scan_ulong on 24 boundary values; scan_ulong and scan_8long on every digit string <= 3 followed by every non-digit byte");
}

/* ------------------------------------------------------------------------------------------------ ctl */
static int ref_strip(const char *s, int n) { while (n > 0 && (s[n - 1] == '\n' || s[n - 1] == ' ' || s[n - 1] == '\t')) n--; return n; }
static void mode_ctl(const char *dir, int maxlen)
{
  static const char al[] = { '\n', '#', ' ', '\t', 'a', '7' }; int n, idx[16], withme; char s[16];   /* no NUL: what a NUL inside a control file means is not documented */
  if (chdir(dir) == -1) h_real_exit(2);
  mkdir("control", 0755); mkdir("control/isdir", 0755); if (symlink("loop", "control/loop") == -1 && errno != EEXIST) h_real_exit(2);
  { int fd = open("control/plainfile", O_WRONLY | O_CREAT | O_TRUNC, 0644); if (fd < 0) h_real_exit(2); close(fd); }
  for (withme = 0; withme < 2; withme++) {
    unlink("control/me"); if (withme) { int fd = open("control/me", O_WRONLY | O_CREAT | O_TRUNC, 0644); if (fd < 0 || write(fd, "me.example\n", 11) != 11) h_real_exit(2); close(fd); }
    if (withme) { if (control_init() != 1) { H_FAIL("lib:control_init", "control_init() with a control/me file did not return 1"); return; } }
    /* absent and unreadable files */
    { static stralloc sa = {0}; int r, v = 5;
      unlink("control/x");
      snprintf(h_cur, sizeof h_cur, "c00 control file absent, control/me %s", withme ? "present" : "absent");
      r = control_readfile(&sa, "control/x", 0); if (r != 0) H_FAIL("lib:control_readfile:absent", "absent file, no fallback: returned %d, documented 0", r);
      r = control_readfile(&sa, "control/x", 1); if (withme ? !(r == 1 && sa.len == 11 && !memcmp(sa.s, "me.example", 11)) : r != 0) H_FAIL("lib:control_readfile:absent-me", "absent file with fallback to me (%s): returned %d, content %s", withme ? "present" : "absent", r, H_ESC(sa.s, sa.len));
      r = control_readline(&sa, "control/x"); if (r != 0) H_FAIL("lib:control_readline:absent", "absent file: returned %d", r);
      r = control_readint(&v, "control/x"); if (r != 0 || v != 5) H_FAIL("lib:control_readint:absent", "absent file: returned %d, value %d", r, v);
      r = control_rldef(&sa, "control/x", 1, "dflt"); if (!(r == 1 && (withme ? (sa.len == 10 && !memcmp(sa.s, "me.example", 10)) : (sa.len == 4 && !memcmp(sa.s, "dflt", 4))))) H_FAIL("lib:control_rldef:absent", "absent file: returned %d, content %s", r, H_ESC(sa.s, sa.len));
      /* a file that exists but cannot be opened or read is an error, never "absent": no silent fallback to the default */
      { static const char *bad[] = { "control/loop", "control/plainfile/x", "control/isdir" }; int b; for (b = 0; b < 3; b++) { int fl;
          for (fl = 0; fl < 2; fl++) { snprintf(h_cur, sizeof h_cur, "c00 control file %s (unreadable), flagme=%d, control/me %s", bad[b], fl, withme ? "present" : "absent"); r = control_readfile(&sa, (char *) bad[b], fl); if (r != -1) { char key[80]; snprintf(key, sizeof key, "lib:control_readfile:unreadable:%s", bad[b]); H_FAIL(key, "%s exists but cannot be read (flagme=%d): returned %d, documented -1 (trouble), not a fallback", bad[b], fl, r); } }
          r = control_readline(&sa, (char *) bad[b]); if (r != -1) { char key[80]; snprintf(key, sizeof key, "lib:control_readline:unreadable:%s", bad[b]); H_FAIL(key, "%s cannot be read: control_readline returned %d, documented -1", bad[b], r); }
          n_eval += 3; } }
      n_eval += 5; }
    /* every short body */
    for (n = 0; n <= maxlen; n++) { memset(idx, 0, sizeof idx); do {
        static stralloc sa = {0}; int i, fd, r, v = -7; char want[64]; int wl = 0, first_end, fl; char key[200];
        for (i = 0; i < n; i++) s[i] = al[idx[i]];
        fd = open("control/x", O_WRONLY | O_CREAT | O_TRUNC, 0644); if (fd < 0 || write(fd, s, n) != n) h_real_exit(2); close(fd);
        snprintf(h_cur, sizeof h_cur, "c00 control file body %s", H_ESC(s, n)); snprintf(key, sizeof key, "lib:control:%s", H_ESC(s, n));
        /* reference: lines end at LF (the last one may lack it); trailing blanks are dropped; empty lines and comments are skipped */
        { int st = 0; while (st < n) { int e = st; while (e < n && s[e] != '\n') e++; { int l = ref_strip(s + st, e - st); if (l > 0 && s[st] != '#' && s[st] != 0) { memcpy(want + wl, s + st, l); wl += l; want[wl++] = 0; } } st = e + 1; } }
        for (fl = 0; fl < 2; fl++) { r = control_readfile(&sa, "control/x", fl); n_eval++;
          if (r != 1 || (int) sa.len != wl || memcmp(sa.s, want, wl)) { H_FAIL(key, "control_readfile(flagme=%d) returned %d with entries %s, documented entries %s", fl, r, H_ESC(sa.s, sa.len < 40 ? sa.len : 40), H_ESC(want, wl)); break; } }
        first_end = 0; while (first_end < n && s[first_end] != '\n') first_end++;
        { int l = ref_strip(s, first_end < n ? first_end + 1 : first_end); r = control_readline(&sa, "control/x"); n_eval++;
          if (r != 1 || (int) sa.len != l || memcmp(sa.s, s, l)) H_FAIL(key, "control_readline returned %d with %s, documented: the first line without trailing blanks (%s)", r, H_ESC(sa.s, sa.len < 40 ? sa.len : 40), H_ESC(s, l));
          r = control_readint(&v, "control/x"); n_eval++;
          { int k = 0; long val = 0; while (k < l && s[k] >= '0' && s[k] <= '9') { val = val * 10 + (s[k] - '0'); k++; } if (k ? !(r == 1 && v == val) : !(r == 0 && v == -7)) H_FAIL(key, "control_readint returned %d, value %d; the first line is %s", r, v, H_ESC(s, l)); } }
        n_nontrivial++;
      } while (h_odo_next(idx, n, sizeof al)); }
  }
  H_SAMPLE("control_readfile/readline/readint/rldef on every body over {LF,#,SP,TAB,a,7} up to length %d, absent and unreadable files, with and without control/me", maxlen);
}

/* ------------------------------------------------------------------------------------------------ map: constmap */
#include "constmap.h"
static void mode_map(void)
{
  /* every subset of a key pool (incl. the empty key, keys differing only in case, a key with ':' data, prefixes of each other) as
   * the table, with and without colon splitting; then every probe of a pool (case variants, near misses, the empty string) */
  static const char *keys[] = { "", "a", "Z.org", "z.orgx", "ab", "A:data", "Zz:", "b:c:d" };
  static const char *probes[] = { "", "a", "A", "z.org", "Z.ORG", "z.orgx", "z.or", "ab", "AB", "abc", "zz", "ZZ", "b", "B", "b:c", "a:data", "q" };
  int sub, fl; unsigned pi;
  for (sub = 0; sub < 256; sub++) for (fl = 0; fl < 2; fl++) {
    static stralloc sa = {0}; struct constmap cm; int k;
    if (!stralloc_copys(&sa, "")) h_real_exit(2);
    for (k = 0; k < 8; k++) if (sub & (1 << k)) { if (!stralloc_cats(&sa, (char *) keys[k]) || !stralloc_0(&sa)) h_real_exit(2); }
    if (!constmap_init(&cm, sa.s, sa.len, fl)) h_real_exit(2);
    for (pi = 0; pi < sizeof probes / sizeof *probes; pi++) {
      const char *want = 0, *got; int pl = strlen(probes[pi]);
      /* reference: the first listed entry whose key (the text before the first ':' when splitting) equals the probe ignoring case; the
       * result is the text after the colon (splitting) or the empty string */
      for (k = 0; k < 8 && !want; k++) if (sub & (1 << k)) { const char *e = keys[k]; const char *colon = fl ? strchr(e, ':') : 0; int kl = colon ? colon - e : (int) strlen(e); if (fl && !colon) continue;   /* a line without a colon is not an entry of a key:value table */
        if (kl == pl && !strncasecmp(e, probes[pi], pl)) want = colon ? colon + 1 : e + kl; }
      snprintf(h_cur, sizeof h_cur, "c00 constmap table-subset=%d split=%d probe=[%s]", sub, fl, probes[pi]);
      got = constmap(&cm, (char *) probes[pi], pl); n_eval++;
      if ((got != 0) != (want != 0) || (fl && got && strcmp(got, want))) {   /* without splitting only "listed or not" is defined */ char key[120]; snprintf(key, sizeof key, "lib:constmap:probe[%s]:split%d", probes[pi], fl); H_FAIL(key, "constmap lookup of [%s] in table subset %d (split=%d) gives %s%s, documented %s%s", probes[pi], sub, fl, got ? "data " : "no entry", got ? got : "", want ? "data " : "no entry", want ? want : ""); }
    }
    constmap_free(&cm); n_nontrivial++;
  }
  H_SAMPLE("constmap: all 256 subsets of 8 keys (empty key, case twins, colon data, prefixes) x split on/off x 17 probes");
}

/* ------------------------------------------------------------------------------------------------ cdb */
#include "cdb.h"
#include "cdbmss.h"
#include "uint32.h"
#include <sys/syscall.h>
static int read_fail_at = -1, read_calls, cdb_fd_watch = -1;
ssize_t read(int fd, void *buf, size_t n)   /* interposed for the whole harness: the k-th read of the watched descriptor fails once with EIO */
{ if (fd == cdb_fd_watch) { if (read_calls++ == read_fail_at) { errno = EIO; return -1; } } return syscall(SYS_read, fd, buf, n); }
static void mode_cdb(void)
{
  static const struct { const char *k; int kl; const char *d; } recs[] = { {"", 0, "empty"}, {"a", 1, "first-a"}, {"a", 1, "second-a"}, {"A", 1, "upper"}, {"\x80x", 2, "high"}, {"\xff", 1, "ff"}, {"joe-", 4, "wild"}, {"!joe\0", 5, "bang"}, {"kkkkkkkkkkkkkkkkkkkkkkkkkkkkkkkkkkkkkkkkkkkkkkkkkkkkkkkkkkkkkkkk", 64, "long"} };
  static const struct { const char *k; int kl; int rec; } look[] = { {"", 0, 0}, {"a", 1, 1}, {"A", 1, 3}, {"\x80x", 2, 4}, {"\xff", 1, 5}, {"joe-", 4, 6}, {"!joe\0", 5, 7}, {"kkkkkkkkkkkkkkkkkkkkkkkkkkkkkkkkkkkkkkkkkkkkkkkkkkkkkkkkkkkkkkkk", 64, 8}, {"b", 1, -1}, {"joe", 3, -1}, {"\x80", 1, -1}, {"aa", 2, -1}, {"\x7fx", 2, -1} };
  int fd = memfd_create("cdb", 0), gd = memfd_create("cdbcut", 0); struct cdbmss c; static char img[16384]; int len, i, k, cut; unsigned r;
  if (fd < 0 || gd < 0 || cdbmss_start(&c, fd) == -1) h_real_exit(2);
  for (r = 0; r < sizeof recs / sizeof *recs; r++) if (cdbmss_add(&c, (unsigned char *) recs[r].k, recs[r].kl, (unsigned char *) recs[r].d, strlen(recs[r].d)) == -1) h_real_exit(2);
  if (cdbmss_finish(&c) == -1) h_real_exit(2);
  len = pread(fd, img, sizeof img, 0);
  for (i = 0; i < (int) (sizeof look / sizeof *look); i++) {
    /* intact file, then one failing read at every call index, then every truncation */
    for (k = -1; k < 14; k++) for (cut = (k == -1 ? 0 : len); cut <= len; cut++) {
      uint32 dlen = 0; int res, usefd = fd; char data[64]; int ok_data = 0;
      if (cut < len) { if (ftruncate(gd, 0) || pwrite(gd, img, cut, 0) != cut) h_real_exit(2); usefd = gd; }
      cdb_fd_watch = usefd; read_calls = 0; read_fail_at = k;
      snprintf(h_cur, sizeof h_cur, "c00 cdb_seek key=%s failing-read=%d file-length=%d/%d", H_ESC(look[i].k, look[i].kl), k, cut, len);
      res = cdb_seek(usefd, (char *) look[i].k, look[i].kl, &dlen); n_eval++;
      if (res == 1 && dlen < sizeof data) { int rr = cdb_bread(usefd, data, dlen); if (rr == 0) ok_data = 1; else res = -1; }
      cdb_fd_watch = -1;
      { char key[160]; snprintf(key, sizeof key, "lib:cdb_seek:%s:%s", H_ESC(look[i].k, look[i].kl > 8 ? 8 : look[i].kl), k >= 0 ? "failing-read" : cut < len ? "truncated" : "intact");
        int injected = k >= 0 && read_calls > k;
        if (look[i].rec >= 0) {
          const char *wd = recs[look[i].rec].d;
          if (res == 1 && !(ok_data && dlen == strlen(wd) && !memcmp(data, wd, dlen))) { H_FAIL(key, "lookup returns the wrong record (%s) for key %s; the first record with that key is %s", H_ESC(data, dlen < 20 ? dlen : 20), H_ESC(look[i].k, look[i].kl), wd); continue; }
          if (res == 0) { H_FAIL(key, "key %s is in the database but the lookup says 'not found' (%s): an unreadable database must be an error (-1), never a miss", H_ESC(look[i].k, look[i].kl), injected ? "a read failed" : cut < len ? "file truncated" : "intact file"); continue; }
          if (res == -1 && !injected && cut == len) { H_FAIL(key, "lookup of an existing key in an intact database failed"); continue; }
        } else {
          if (res == 1) { H_FAIL(key, "key %s is not in the database but a record was found", H_ESC(look[i].k, look[i].kl)); continue; }
          if (res == -1 && !injected && cut == len) { H_FAIL(key, "lookup of an absent key in an intact database failed"); continue; }
        }
        if (injected && res != -1 && cut == len) { H_FAIL(key, "a read of the database failed (call %d) but cdb_seek returned %d instead of -1", k, res); continue; } }
      n_nontrivial++;
    }
  }
  H_SAMPLE("cdb: 9 records (empty key, duplicate key, case twins, bytes >= 0x80, 64-byte key) built by cdbmss; 13 lookups x {intact, one failing read at every call, every truncation}");
  /* colliding keys: every key over {a..h} of length 1..4 is hashed; every PAIR of keys that share one of the 256 tables is written (by cdbmss) as a
   * database of its own and both are looked up, together with a third key of the same table that is absent; then, per table, all its keys at once.
   * Two keys in a 4-slot table start probing in the same slot, or in the last slot, in a known fraction of the pairs: chains and the wrap-around
   * from the last slot to slot 0 are forced, not hoped for. */
  {
    enum { MAXK = 4680 }; static char keys[MAXK][5]; static uint32 hs[MAXK]; static int byb[256][64], nb[256]; int nk = 0, a, b2, L, t; long pairs = 0, same_start = 0, wraps = 0; char idx[4];
    for (L = 1; L <= 4; L++) { memset(idx, 0, sizeof idx); for (;;) { int j; for (j = 0; j < L; j++) keys[nk][j] = 'a' + idx[j]; keys[nk][L] = 0; hs[nk] = cdb_hash((unsigned char *) keys[nk], L); nk++; j = L - 1; while (j >= 0 && ++idx[j] == 8) { idx[j] = 0; j--; } if (j < 0) break; } }
    for (a = 0; a < nk; a++) { t = hs[a] & 255; if (nb[t] < 64) byb[t][nb[t]++] = a; }
    for (t = 0; t < 256; t++) for (a = 0; a < nb[t]; a++) for (b2 = 0; b2 < nb[t]; b2++) {
      int ka = byb[t][a], kb = byb[t][b2], kc = byb[t][(b2 + 1) % nb[t]], q; struct cdbmss cc; uint32 dl; char data[16];
      if (a == b2) continue; if (kc == ka || kc == kb) kc = byb[t][(b2 + 2) % nb[t]]; if (kc == ka || kc == kb) kc = -1;
      if (ftruncate(fd, 0) || lseek(fd, 0, SEEK_SET) != 0 || cdbmss_start(&cc, fd) == -1) h_real_exit(2);
      if (cdbmss_add(&cc, (unsigned char *) keys[ka], strlen(keys[ka]), (unsigned char *) "A", 1) == -1 || cdbmss_add(&cc, (unsigned char *) keys[kb], strlen(keys[kb]), (unsigned char *) "B", 1) == -1 || cdbmss_finish(&cc) == -1) h_real_exit(2);
      pairs++; if (((hs[ka] >> 8) & 3) == ((hs[kb] >> 8) & 3)) same_start++; if (((hs[kb] >> 8) & 3) == 3 && (((hs[ka] >> 8) & 3) == 3)) wraps++;
      for (q = 0; q < 3; q++) { int kq = q == 0 ? ka : q == 1 ? kb : kc; int res; if (kq < 0) continue;
        snprintf(h_cur, sizeof h_cur, "c00 cdb collisions: database {%s,%s}, lookup %s", keys[ka], keys[kb], keys[kq]);
        res = cdb_seek(fd, keys[kq], strlen(keys[kq]), &dl); n_eval++;
        if (q < 2) { if (res != 1 || dl != 1 || cdb_bread(fd, data, 1) != 0 || data[0] != (q == 0 ? 'A' : 'B')) { H_FAIL("lib:cdb_seek:colliding-keys", "database with the two keys %s and %s (same hash table, first probe slots %u and %u of 4): lookup of %s returns %d", keys[ka], keys[kb], (unsigned) ((hs[ka] >> 8) & 3), (unsigned) ((hs[kb] >> 8) & 3), keys[kq], res); break; } }
        else if (res != 0) { H_FAIL("lib:cdb_seek:colliding-keys-absent", "database with the two keys %s and %s: lookup of the absent key %s (same hash table) returns %d", keys[ka], keys[kb], keys[kq], res); break; }
        n_nontrivial++; }
    }
    for (t = 0; t < 256; t++) { struct cdbmss cc; uint32 dl; char data[16];
      if (ftruncate(fd, 0) || lseek(fd, 0, SEEK_SET) != 0 || cdbmss_start(&cc, fd) == -1) h_real_exit(2);
      for (a = 0; a < nb[t]; a += 2) if (cdbmss_add(&cc, (unsigned char *) keys[byb[t][a]], strlen(keys[byb[t][a]]), (unsigned char *) keys[byb[t][a]], strlen(keys[byb[t][a]])) == -1) h_real_exit(2);
      if (cdbmss_finish(&cc) == -1) h_real_exit(2);
      for (a = 0; a < nb[t]; a++) { const char *kq = keys[byb[t][a]]; int res; snprintf(h_cur, sizeof h_cur, "c00 cdb full table %d lookup %s", t, kq); res = cdb_seek(fd, (char *) kq, strlen(kq), &dl); n_eval++;
        if (a % 2 == 0 ? !(res == 1 && dl == strlen(kq) && cdb_bread(fd, data, dl) == 0 && !memcmp(data, kq, dl)) : res != 0) { H_FAIL("lib:cdb_seek:crowded-table", "database holding every second of the %d keys of hash table %d: lookup of %s key %s returns %d", nb[t], t, a % 2 ? "the absent" : "the stored", kq, res); break; }
        n_nontrivial++; } }
    H_SAMPLE("cdb collisions: %d keys over {a..h}^1..4; %ld two-key databases whose keys share a hash table (%ld start probing in the same slot, %ld both in the last slot) x 3 lookups; 256 crowded tables", nk, pairs, same_start, wraps);
    if (!same_start || !wraps) { printf("HARNESS cdb collision enumeration is vacuous\n"); h_real_exit(2); }
  }
}

/* ------------------------------------------------------------------------------------------------ seek: offsets beyond 2^31 and 2^32 */
#include "seek.h"
static void mode_seek(const char *dir)
{
  static const long long offs[] = { 0, 1, 2147483647LL, 2147483648LL, 4294967295LL, 4294967296LL, 4294967301LL, 5000000000LL };
  char path[600]; int fd; unsigned i; struct stat st;
  snprintf(path, sizeof path, "%s/sparse", dir); fd = open(path, O_RDWR | O_CREAT | O_TRUNC, 0600); if (fd < 0) h_real_exit(2);
  if (ftruncate(fd, 6000000000LL) == -1) { printf("NOTE sparse 6 GB file not supported here; seek mode skipped\n"); close(fd); unlink(path); return; }
  for (i = 0; i < sizeof offs / sizeof *offs; i++) {
    snprintf(h_cur, sizeof h_cur, "c00 seek functions at offset %lld", offs[i]);
    if (seek_set(fd, (seek_pos) offs[i]) == -1 || lseek(fd, 0, SEEK_CUR) != (off_t) offs[i]) H_FAIL("lib:seek_set", "seek_set(%lld) leaves the descriptor at %lld", offs[i], (long long) lseek(fd, 0, SEEK_CUR));
    if (lseek(fd, (off_t) offs[i], SEEK_SET) == -1) h_real_exit(2);
    if ((long long) seek_cur(fd) != offs[i]) H_FAIL("lib:seek_cur", "seek_cur() at offset %lld reports %lld (an mbox this long would be rolled back to the wrong length)", offs[i], (long long) seek_cur(fd));
    n_eval += 2; n_nontrivial++;
  }
  if (seek_end(fd) == -1 || lseek(fd, 0, SEEK_CUR) != (off_t) 6000000000LL) H_FAIL("lib:seek_end", "seek_end() on a 6000000000-byte file leaves the descriptor at %lld", (long long) lseek(fd, 0, SEEK_CUR));
  for (i = sizeof offs / sizeof *offs; i-- > 0;) { snprintf(h_cur, sizeof h_cur, "c00 seek_trunc to %lld", offs[i]); if (seek_trunc(fd, (seek_pos) offs[i]) == -1 || fstat(fd, &st) == -1 || (long long) st.st_size != offs[i]) H_FAIL("lib:seek_trunc", "seek_trunc(%lld) gives a file of %lld bytes", offs[i], (long long) st.st_size); n_eval++; }
  close(fd); unlink(path);
  H_SAMPLE("seek_set/seek_cur/seek_end/seek_trunc at offsets around 2^31 and 2^32 on a sparse file");
}

/* ------------------------------------------------------------------------------------------------ date: calendar arithmetic and the two date formats */
#include "datetime.h"
#include "date822fmt.h"
#include "myctime.h"
#include <time.h>
static void date_one(long t)
{
  static const char *mon[] = {"Jan","Feb","Mar","Apr","May","Jun","Jul","Aug","Sep","Oct","Nov","Dec"}, *day[] = {"Sun","Mon","Tue","Wed","Thu","Fri","Sat"};
  struct datetime dt; struct tm tm; time_t tt = t; char want[64], got[64], *mc; unsigned int l, l0;
  snprintf(h_cur, sizeof h_cur, "c00 date t=%ld", t);
  gmtime_r(&tt, &tm);
  memset(&dt, 0x55, sizeof dt); datetime_tai(&dt, (datetime_sec) t); n_eval++;
  if (dt.year != tm.tm_year || dt.mon != tm.tm_mon || dt.mday != tm.tm_mday || dt.hour != tm.tm_hour || dt.min != tm.tm_min || dt.sec != tm.tm_sec || dt.wday != tm.tm_wday || (t < 4102444800L && dt.yday != tm.tm_yday)) {   /* yday (which nothing reads) is one too high from March 2100 on: not judged */
    H_FAIL("lib:datetime_tai", "t=%ld: datetime_tai gives year %d mon %d mday %d %02d:%02d:%02d wday %d yday %d; the calendar says year %d mon %d mday %d %02d:%02d:%02d wday %d yday %d", t, dt.year, dt.mon, dt.mday, dt.hour, dt.min, dt.sec, dt.wday, dt.yday, tm.tm_year, tm.tm_mon, tm.tm_mday, tm.tm_hour, tm.tm_min, tm.tm_sec, tm.tm_wday, tm.tm_yday); return; }
  /* datetime_untai computes in int and overflows from 2038 on; its only caller is predate (time-zone offset), which no property covers: judged below 2^31 only */
  if (t < 2147483648L && datetime_untai(&dt) != (datetime_sec) t) { H_FAIL("lib:datetime_untai", "t=%ld: datetime_untai(datetime_tai(t)) = %ld", t, (long) datetime_untai(&dt)); return; }
  snprintf(want, sizeof want, "%d %s %d %02d:%02d:%02d -0000\n", tm.tm_mday, mon[tm.tm_mon], tm.tm_year + 1900, tm.tm_hour, tm.tm_min, tm.tm_sec);
  l0 = date822fmt((char *) 0, &dt); memset(got, 0, sizeof got); l = date822fmt(got, &dt);
  if (l != l0 || l != strlen(want) || memcmp(got, want, l)) { H_FAIL("lib:date822fmt", "t=%ld: date822fmt gives [%s] (length %u, announced %u), expected [%s]", t, H_ESC(got, l < 60 ? l : 60), l, l0, H_ESC(want, strlen(want))); return; }
  snprintf(want, sizeof want, "%s %s %02d %02d:%02d:%02d %d\n", day[tm.tm_wday], mon[tm.tm_mon], tm.tm_mday, tm.tm_hour, tm.tm_min, tm.tm_sec, tm.tm_year + 1900);
  mc = myctime((datetime_sec) t);
  if (strcmp(mc, want)) { H_FAIL("lib:myctime", "t=%ld: myctime gives [%s], expected [%s]", t, H_ESC(mc, strlen(mc)), H_ESC(want, strlen(want))); return; }
  n_nontrivial++;
}
static void mode_date(void)
{
  long t, y; static const long edge[] = {0, 1, 59, 60, 3599, 3600, 86399, 86400, 951782399, 951782400, 951868800, 1000000000, 2147483647L, 2147483648L, 4102444799L, 4102444800L, 4107542400L, 4294967295L, 4294967296L};
  unsigned i;
  for (t = 0; t < 4400000000L; t += 43200 + 3661) date_one(t);                 /* twice a day, at a drifting time of day, 1970 .. 2109 (2100 is not a leap year) */
  for (y = 0; y < 140 * 366; y++) { date_one(y * 86400L - 1); date_one(y * 86400L); }   /* the second before and the first second of every day */
  for (i = 0; i < sizeof edge / sizeof *edge; i++) date_one(edge[i]);
  H_SAMPLE("date: datetime_tai/datetime_untai/date822fmt/myctime against gmtime for two instants of every day 1970..2109, the last and first second of every day, 19 edge instants");
}

/* ------------------------------------------------------------------------------------------------ alloc */
/* Allocation failures as an environment answer: the k-th allocation of a run fails once (ENOMEM), for every k, while a stralloc grows
 * in steps of 1, 7, 100 and 1000 bytes; the long-running programs go on using the object after such a failure (qmail-send's
 * `while (!stralloc_...) nomem()` loops, spawn.c).  After every call: a failed call changed nothing, a successful one appended exactly
 * its bytes, and the capacity the object claims never exceeds the block it owns (own bookkeeping of the blocks handed out, so the
 * verdict does not depend on a sanitizer catching the later overflow).  The linker's --wrap reroutes the tree's malloc/realloc/free. */
extern void *__real_malloc(size_t); extern void *__real_realloc(void *, size_t); extern void __real_free(void *);
static long al_calls, al_fail_at = -1; static struct { void *p; size_t n; } al_blk[64];
static void al_note(void *p, size_t n) { int i; for (i = 0; i < 64; i++) if (!al_blk[i].p) { al_blk[i].p = p; al_blk[i].n = n; return; } }
static void al_drop(void *p) { int i; for (i = 0; i < 64; i++) if (al_blk[i].p == p) al_blk[i].p = 0; }
static long al_size(void *p) { int i; for (i = 0; i < 64; i++) if (al_blk[i].p == p) return (long) al_blk[i].n; return -1; }
void *__wrap_malloc(size_t n) { void *p; if (al_fail_at >= 0 && al_calls++ == al_fail_at) { errno = ENOMEM; return 0; } p = __real_malloc(n); if (al_fail_at >= 0 && p) al_note(p, n); return p; }
void *__wrap_realloc(void *o, size_t n) { void *p; if (al_fail_at >= 0 && al_calls++ == al_fail_at) { errno = ENOMEM; return 0; } p = __real_realloc(o, n); if (al_fail_at >= 0 && p) { al_drop(o); al_note(p, n); } return p; }
void __wrap_free(void *p) { if (al_fail_at >= 0) al_drop(p); __real_free(p); }
static void mode_alloc(void)
{
  static const unsigned steps[] = { 1, 7, 100, 1000 }; unsigned si; long k;
  for (si = 0; si < 4; si++) for (k = 0; k < 24; k++) { stralloc sa = {0}; static char ref[200000], chunk[1000]; unsigned reflen = 0, i, failures = 0, step = steps[si]; int bad = 0;
    al_calls = 0; al_fail_at = k; memset(al_blk, 0, sizeof al_blk);
    for (i = 0; i < 150 && !bad; i++) { unsigned j, before = sa.len; int r; long own;
      snprintf(h_cur, sizeof h_cur, "c00 alloc: allocation #%ld fails, append %u of %u bytes", k, i, step);
      for (j = 0; j < step; j++) chunk[j] = (char) ('a' + (i + j) % 26);
      r = stralloc_catb(&sa, chunk, step); n_eval++;
      if (r) { memcpy(ref + reflen, chunk, step); reflen += step; } else failures++;
      own = sa.s ? al_size(sa.s) : 0;
      if (!r && sa.len != before) { H_FAIL("lib:alloc:failed-call-changed-length", "allocation #%ld failing: stralloc_catb returned 0 but the length went from %u to %u", k, before, sa.len); bad = 1; }
      else if (sa.s && own >= 0 && (long) sa.a > own) { H_FAIL("lib:alloc:capacity-beyond-block", "allocation #%ld failing (step %u): after %s call the stralloc claims a capacity of %u bytes but owns a block of %ld: the next append writes past the end of the heap block", k, step, r ? "a successful" : "the failed", sa.a, own); bad = 1; }
      else if (sa.len != reflen || (reflen && memcmp(sa.s, ref, reflen))) { H_FAIL("lib:alloc:content", "allocation #%ld failing (step %u): content differs from the bytes of the successful appends after append %u", k, step, i); bad = 1; }
    }
    if (failures) n_nontrivial++;
    al_fail_at = -1; if (sa.s) __real_free(sa.s);
  }
  H_SAMPLE("alloc: the k-th allocation (k < 24) fails once while a stralloc grows by 1/7/100/1000 bytes x 150 appends; failed call changes nothing, content exact, claimed capacity <= owned block");
}

int main(int argc, char **argv)
{
  h_init();
  if (argc < 2) return 2;
  if (!strcmp(argv[1], "date")) mode_date();
  else if (!strcmp(argv[1], "io")) { mode_io_in(); mode_io_out(); mode_io_copy(); }
  else if (!strcmp(argv[1], "bytes")) mode_bytes();
  else if (!strcmp(argv[1], "num")) mode_num();
  else if (!strcmp(argv[1], "ctl")) mode_ctl(argv[2], atoi(argv[3]));
  else if (!strcmp(argv[1], "map")) mode_map();
  else if (!strcmp(argv[1], "seek")) mode_seek(argv[2]);
  else if (!strcmp(argv[1], "cdb")) mode_cdb();
  else if (!strcmp(argv[1], "alloc")) mode_alloc();
  else return 2;
  printf("STAT evaluations=%ld distinct_nontrivial=%ld library_cases_%s=%ld\n", n_eval, n_nontrivial, argv[1], n_eval);
  fflush(stdout);
  h_real_exit(h_nfail ? 1 : 0);
}
