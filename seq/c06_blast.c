/* C06: exhaustive enumeration of the real blast() of qmail-remote.c.
 * usage: c06_blast <alphabet-id> <maxlen> <maxlen-for-all-chunkings>
 * Oracle (DESIGN.md 4/C06): invariants on the wire bytes + decode with the RFC reference receiver. */
#define main qmail_remote_main
#include "qmail-remote.c"
#undef main
#include "harness.h"
#include "ref_smtp.h"

static const unsigned char *in_data; static size_t in_len, in_off;
static unsigned long chunkmask; /* bit i set: a read boundary after byte i */
static int read_fail_at = -1;   /* byte offset at which read returns -1 (I/O error), or -1 */
static unsigned char wire[8192]; static size_t wire_len;
static char rep[1024]; static size_t rep_len;

static ssize_t rd(int fd, char *buf, size_t len)
{
  size_t k = 0;
  (void) fd;
  if (read_fail_at >= 0 && in_off >= (size_t) read_fail_at) { errno = EIO; return -1; }
  while (in_off < in_len && k < len) {
    buf[k++] = in_data[in_off++];
    if (chunkmask & (1UL << (in_off - 1))) break;
    if (read_fail_at >= 0 && in_off >= (size_t) read_fail_at) break;
  }
  return k;
}
static size_t write_limit; /* > 0: the network takes at most this many bytes per write() (short counts, which POSIX permits) */
static ssize_t wr(int fd, const char *buf, size_t len)
{
  (void) fd;
  if (write_limit && len > write_limit) len = write_limit;
  if (wire_len + len > sizeof wire) { printf("HARNESS wire overflow\n"); h_real_exit(2); }
  memcpy(wire + wire_len, buf, len); wire_len += len;
  return len;
}
static ssize_t repwr(int fd, const char *buf, size_t len)
{
  (void) fd;
  if (rep_len + len < sizeof rep) { memcpy(rep + rep_len, buf, len); rep_len += len; }
  return len;
}

static long n_eval, n_nontrivial, n_abort, n_ok, n_chunked, n_readfail, n_shortwr;
static h_set distinct_wire;

/* returns 1 if blast() returned, 0 if it exited */
static int run_blast(void)
{
  substdio tmpin = SUBSTDIO_FDBUF(rd, -1, inbuf, sizeof(inbuf));
  substdio tmpto = SUBSTDIO_FDBUF(wr, -1, smtptobuf, sizeof(smtptobuf));
  ssin = tmpin; smtpto = tmpto;
  subfdoutsmall->op = repwr; subfdoutsmall->p = 0;
  in_off = 0; wire_len = 0; rep_len = 0; flagcritical = 0;
  h_exit_armed = 1;
  if (setjmp(h_exit_jb) == 0) { blast(); h_exit_armed = 0; return 1; }
  /* whatever was buffered but not flushed never reached the peer; what was flushed did */
  return 0;
}

static int has_terminator(const unsigned char *w, size_t n)
{
  size_t i;
  if (n >= 3 && !memcmp(w, ".\r\n", 3)) return 1;
  for (i = 0; i + 5 <= n; i++) if (!memcmp(w + i, "\r\n.\r\n", 5)) return 1;
  return 0;
}

static void check_case(const unsigned char *m, size_t n, const char *what)
{
  unsigned char dec[8192], canon[8192], dec2[8192];
  size_t declen = 0, dec2len = 0, consumed = 0, canonlen, i;
  int ambig = 0, r, returned, partial;
  char key[600];

  snprintf(h_cur, sizeof h_cur, "c06 %s input=%s chunkmask=%lx readfail=%d", what, H_ESC(m, n), chunkmask, read_fail_at);
  in_data = m; in_len = n;
  returned = run_blast();
  n_eval++;
  snprintf(key, sizeof key, "blast:%s", H_ESC(m, n));
  partial = (n > 0 && m[n - 1] != '\n' && m[n - 1] != '\r');

  if (read_fail_at >= 0) {
    /* I/O error while reading the message: must abort with a temporary report, no terminator sent */
    n_readfail++;
    if (returned) { H_FAIL(key, "read error at byte %d but blast() completed (%s)", read_fail_at, what); return; }
    if (rep_len < 1 || rep[0] != 'Z') H_FAIL(key, "read error at byte %d: report is not temporary: %s", read_fail_at, H_ESC(rep, rep_len));
    if (has_terminator(wire, wire_len)) H_FAIL(key, "read error at byte %d but end-of-data already on the wire: %s", read_fail_at, H_ESC(wire, wire_len));
    return;
  }
  if (!returned) {
    n_abort++;
    if (!partial) { H_FAIL(key, "complete message refused: exit %d report %s (%s)", h_exit_code, H_ESC(rep, rep_len), what); return; }
    if (rep_len < 1 || rep[0] != 'D') H_FAIL(key, "partial final line: report is not permanent: %s", H_ESC(rep, rep_len));
    if (has_terminator(wire, wire_len)) H_FAIL(key, "aborted run already sent end-of-data: wire=%s", H_ESC(wire, wire_len));
    return;
  }
  n_ok++;
  if (partial) { H_FAIL(key, "message with partial final line was transmitted: wire=%s", H_ESC(wire, wire_len)); return; }
  if (!flagcritical) H_FAIL(key, "flagcritical not set after the final dot");
  h_set_add(&distinct_wire, h_fnv(wire, wire_len, 0));
  /* I2: no bare LF */
  for (i = 0; i < wire_len; i++)
    if (wire[i] == '\n' && (i == 0 || wire[i - 1] != '\r')) { H_FAIL(key, "bare LF on the wire at %zu: wire=%s", i, H_ESC(wire, wire_len)); return; }
  /* I1 + I3: the reference receiver must find the terminator exactly at the end and decode to the
   * original line contents */
  r = ref_decode(wire, wire_len, dec, &declen, &consumed, &ambig, dec2, &dec2len);
  if (r != REF_END) { H_FAIL(key, "reference receiver finds no end of data (r=%d): wire=%s", r, H_ESC(wire, wire_len)); return; }
  if (consumed != wire_len) {
    H_FAIL(key, "end-of-data sequence occurs early: receiver stops after %zu of %zu wire bytes; rest would be read as commands: wire=%s",
           consumed, wire_len, H_ESC(wire, wire_len));
    return;
  }
  if (ambig) { H_FAIL(key, "a wire line begins with a single dot followed by data (not dot-stuffed): wire=%s", H_ESC(wire, wire_len)); return; }
  canonlen = ref_canon_lines(m, n, canon);
  if (declen != canonlen || memcmp(dec, canon, declen)) {
    H_FAIL(key, "receiver reconstructs different line contents: got=%s want=%s wire=%s", H_ESC(dec, declen), H_ESC(canon, canonlen), H_ESC(wire, wire_len));
    return;
  }
}

int main(int argc, char **argv)
{
  static const char *alphabets[] = { "\r\n.a", "\r\n.aR", "\n.\377a\r" };
  const char *alpha; int k, maxlen, maxchunk, n, idx[32];
  unsigned char m[32];
  long tot = 0;
  if (argc < 4) return 2;
  alpha = alphabets[atoi(argv[1])]; k = strlen(alpha); maxlen = atoi(argv[2]); maxchunk = atoi(argv[3]);
  h_init();
  for (n = 0; n <= maxlen; n++) {
    memset(idx, 0, sizeof idx);
    do {
      int i, nt = 0;
      for (i = 0; i < n; i++) m[i] = alpha[idx[i]];
      for (i = 0; i < n; i++) if (m[i] == '\r' || (m[i] == '.' && (i == 0 || m[i - 1] == '\n' || m[i - 1] == '\r'))) nt = 1;
      n_nontrivial += nt; tot++;
      chunkmask = 0; read_fail_at = -1;
      check_case(m, n, "whole");
      if (tot % 50021 == 1 && n >= 5) H_SAMPLE("message=%s wire=%s", H_ESC(m, n), H_ESC(wire, wire_len));
      if (n <= maxchunk && n >= 2) {
        unsigned long c;
        for (c = 1; c < (1UL << (n - 1)); c++) { chunkmask = c; n_chunked++; check_case(m, n, "chunked"); }
        chunkmask = 0;
      }
      if (n <= maxchunk + 2) { write_limit = 1; check_case(m, n, "1-byte writes"); write_limit = 3; check_case(m, n, "3-byte writes"); write_limit = 0; n_shortwr += 2; }
      if (n <= maxchunk) {
        int f;
        for (f = 0; f <= n; f++) { read_fail_at = f; check_case(m, n, "readfail"); }
        read_fail_at = -1;
      }
    } while (h_odo_next(idx, n, k));
  }
  printf("STAT evaluations=%ld distinct_nontrivial=%ld inputs=%ld chunked_runs=%ld readfail_runs=%ld completed=%ld aborted=%ld short_write_runs=%ld distinct_wire_outputs=%zu\n",
         n_eval, n_nontrivial, tot, n_chunked, n_readfail, n_ok, n_abort, n_shortwr, distinct_wire.n);
  fflush(stdout);
  h_real_exit(h_nfail ? 1 : 0);
}
