/* Harness environment for the real qmail-smtpd.c (#included by the harness before this file):
 * replaces only timeoutread/timeoutwrite (network I/O) and the qmail_* client API of qmail.c (the
 * queue pipe), so that saferead/safewrite, ssin/ssout buffering, commands(), blast(), put(),
 * smtp_* are the real code.  Link with exclude = timeoutread.o timeoutwrite.o qmail.o. */
#ifndef SMTPD_ENV_H
#define SMTPD_ENV_H

#include "net_stubs.h"

/* queue stand-in at the qmail.h API */
static unsigned char qq_body[1 << 16]; static size_t qq_body_len;
static unsigned char qq_env[1 << 14]; static size_t qq_env_len;
static int qq_phase;          /* 0 closed, 1 body, 2 envelope */
static int qq_opens, qq_closes, qq_failed_flag;
static int qq_open_result = 0;          /* scripted: -1 makes qmail_open fail */
static const char *qq_close_result = ""; /* scripted result of qmail_close when no error flagged */
static int qq_committed;      /* number of messages the stand-in committed (close returned "") */
static unsigned char qq_last_body[1 << 16]; static size_t qq_last_body_len;
static unsigned char qq_last_env[1 << 14]; static size_t qq_last_env_len;

int qmail_open(struct qmail *qq)
{
  if (qq_open_result == -1) return -1;
  qq->flagerr = 0; qq->pid = 4242; qq_phase = 1; qq_body_len = qq_env_len = 0; qq_opens++;
  return 0;
}
unsigned long qmail_qp(struct qmail *qq) { return qq->pid; }
void qmail_fail(struct qmail *qq) { qq->flagerr = 1; }
void qmail_put(struct qmail *qq, char *s, size_t len)
{
  if (qq->flagerr) return;
  if (qq_phase == 1) {
    if (qq_body_len + len > sizeof qq_body) { printf("HARNESS qq_body overflow\n"); h_real_exit(2); }
    memcpy(qq_body + qq_body_len, s, len); qq_body_len += len;
  } else if (qq_phase == 2) {
    if (qq_env_len + len > sizeof qq_env) { printf("HARNESS qq_env overflow\n"); h_real_exit(2); }
    memcpy(qq_env + qq_env_len, s, len); qq_env_len += len;
  } else { printf("HARNESS qmail_put outside an open queue connection\n"); h_real_exit(2); }
}
void qmail_from(struct qmail *qq, char *s)
{
  qq_phase = 2;
  qmail_put(qq, "F", 1); qmail_put(qq, s, strlen(s)); qmail_put(qq, "", 1);
}
void qmail_to(struct qmail *qq, char *s)
{
  qmail_put(qq, "T", 1); qmail_put(qq, s, strlen(s)); qmail_put(qq, "", 1);
}
char *qmail_close(struct qmail *qq)
{
  qmail_put(qq, "", 1);
  qq_phase = 0; qq_closes++;
  if (qq->flagerr) { qq_failed_flag++; return "Zqq read error (#4.3.0)"; }
  if (*qq_close_result) return (char *) qq_close_result;
  qq_committed++;
  memcpy(qq_last_body, qq_body, qq_body_len); qq_last_body_len = qq_body_len;
  memcpy(qq_last_env, qq_env, qq_env_len); qq_last_env_len = qq_env_len;
  return "";
}

static void smtpd_reset_io(const unsigned char *in, size_t n, unsigned long chunkmask)
{
  net_in = in; net_in_len = n; net_in_off = 0; net_chunkmask = chunkmask; net_out_len = 0;
  ssin.p = 0; ssin.n = sizeof ssinbuf; /* empty input buffer */
  ssout.p = 0;
  qq_phase = 0; qq_opens = qq_closes = qq_failed_flag = qq_committed = 0;
  qq_body_len = qq_env_len = qq_last_body_len = qq_last_env_len = 0;
}
#endif
