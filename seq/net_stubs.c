/* Stand-ins for timeoutread()/timeoutwrite(): the "network" is a byte array.  Compiled without the
 * repository's headers so that a prototype change there cannot break the harness build. */
#include <sys/types.h>
#include <string.h>
#include <errno.h>
#include <stdio.h>
#include <stdlib.h>
#include "net_stubs.h"
const unsigned char *net_in; size_t net_in_len, net_in_off;
unsigned long net_chunkmask;
int net_read_error_at = -1, net_timeout_at = -1;
unsigned char net_out[1 << 17]; size_t net_out_len;
long net_reads, net_writes;

ssize_t timeoutread(int t, int fd, void *vbuf, size_t len)
{
  size_t k = 0; char *buf = vbuf;
  (void) t; (void) fd;
  net_reads++;
  if (net_read_error_at >= 0 && net_in_off >= (size_t) net_read_error_at) { errno = EIO; return -1; }
  if (net_timeout_at >= 0 && net_in_off >= (size_t) net_timeout_at) { errno = ETIMEDOUT; return -1; }
  while (net_in_off < net_in_len && k < len) {
    buf[k++] = net_in[net_in_off++];
    if (net_in_off <= 64 && (net_chunkmask & (1UL << (net_in_off - 1)))) break;
    if (net_read_error_at >= 0 && net_in_off >= (size_t) net_read_error_at) break;
    if (net_timeout_at >= 0 && net_in_off >= (size_t) net_timeout_at) break;
  }
  return k; /* 0 at EOF: the peer closed the connection */
}
ssize_t timeoutwrite(int t, int fd, const void *buf, size_t len)
{
  (void) t; (void) fd;
  net_writes++;
  if (net_out_len + len > sizeof net_out) { printf("HARNESS net_out overflow\n"); fflush(stdout); _Exit(2); }
  memcpy(net_out + net_out_len, buf, len); net_out_len += len;
  return len;
}
