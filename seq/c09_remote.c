/* C09: the real smtp()/smtpcode()/blast() of qmail-remote.c against the full tree of scripted server
 * behaviours, chained into the real report() of qmail-rspawn.c; and report() alone, exhaustively.
 *   smtp <nrecips> <formlevel> <variants>   formlevel 0: single-line replies; 1: + multi-line; 2: + odd forms
 *                                           variants 0: none; 1: + every single split point, 1-byte reads,
 *                                           replies sent ahead of the commands, each write failing
 *   report <maxlen>                          every (status, output over {r,h,s,K,Z,D,x,NUL}^<=maxlen)
 */
#define _GNU_SOURCE
#define main qmail_remote_main
#include "qmail-remote.c"
#undef main
#include "qmail-rspawn.c"
uid_t auto_uidq __attribute__((weak)); /* lives in spawn.o, which holds main() and is not linked */
#include "harness.h"
#include "c09_net.h"

static char rep[16384]; static size_t rep_len;
static ssize_t repwr(int fd, const char *buf, size_t len)
{ (void) fd; if (rep_len + len < sizeof rep) { memcpy(rep + rep_len, buf, len); rep_len += len; } return len; }
static const char *msg = "Subject: t\n\n.body\n"; static size_t msg_off;
static ssize_t msgrd(int fd, char *buf, size_t len)
{ size_t k = 0, n = strlen(msg); (void) fd; while (msg_off < n && k < len) buf[k++] = msg[msg_off++]; return k; }

static long n_eval, n_scripts, n_nontrivial, n_K, n_Z, n_D, n_dup, n_chain, n_variants;
static h_set distinct_obs;

/* ---- answer pools ---- */
static struct srv_answer pool[512]; static int npool; static char poolbytes[1 << 20]; static size_t poolbytes_len;
static struct srv_answer *mk(const char *bytes, int then, int klass, int code, const char *name)
{
  struct srv_answer *a = &pool[npool++];
  size_t l = strlen(bytes);
  memcpy(poolbytes + poolbytes_len, bytes, l + 1);
  a->bytes = poolbytes + poolbytes_len; a->len = l; poolbytes_len += l + 1;
  a->then = then; a->klass = klass; a->code = code; a->name = strdup(name);
  return a;
}
struct phasepool { struct srv_answer *a[64]; int n; };
static int huge_ok;   /* the 5400-byte reply form is left out of the runs that repeat every script at every split point */
static void add_code(struct phasepool *pp, int code, int formlevel)
{
  char b[8192], nm[64]; int f, i, nforms = formlevel == 0 ? 1 : (formlevel == 1 ? 2 : (huge_ok ? 7 : 5)); size_t o;
  for (f = 0; f < nforms; f++) {
    switch (f) {
      case 0: snprintf(b, sizeof b, "%d text\r\n", code); break;
      case 1: snprintf(b, sizeof b, "%d-first line\r\n%d second\r\n", code, code); break;
      case 2: snprintf(b, sizeof b, "%d-\r\n%d-a-b\r\n%d\r\n", code, code, code); break;
      case 3: snprintf(b, sizeof b, "%d lf only\n", code); break;
      case 4: snprintf(b, sizeof b, "%d-one\r\n%d-two 550 K\r\n%d three\r\n", code, code, code); break;
      /* one reply of 73 lines / 5400 bytes: longer than the 5000 bytes of it that qmail-remote keeps for its report; the reply still ends where it ends */
      /* an RFC 2034 enhanced status code whose class differs from the reply code: the reply code alone decides */
      case 6: snprintf(b, sizeof b, "%d %s looks different\r\n", code, code / 100 == 2 ? "5.7.1" : "2.0.0"); break;
      case 5: o = 0; for (i = 0; i < 72; i++) o += snprintf(b + o, sizeof b - o, "%d-%02d this is one of many continuation lines of a very chatty server..........\r\n", code, i); snprintf(b + o, sizeof b - o, "%d end of it\r\n", code); break;
    }
    snprintf(nm, sizeof nm, "%d/f%d", code, f);
    pp->a[pp->n++] = mk(b, SRV_CONTINUE, code / 100, code, nm);
  }
}
static void add_failures(struct phasepool *pp, int level)
{
  pp->a[pp->n++] = mk("", SRV_DISCONNECT, -1, 0, "disconnect");
  pp->a[pp->n++] = mk("", SRV_STALL, -1, 0, "stall");
  if (level >= 1) {
    pp->a[pp->n++] = mk("25", SRV_DISCONNECT, -1, 0, "disconnect-mid-code");
    pp->a[pp->n++] = mk("250-ok\r\n", SRV_DISCONNECT, -1, 0, "disconnect-mid-multiline");
    pp->a[pp->n++] = mk("250 o", SRV_STALL, -1, 0, "stall-mid-line");
  }
  if (level >= 1) {
    pp->a[pp->n++] = mk("*** go away\r\n", SRV_CONTINUE, 0, 0, "garbage");
    if (level >= 2) pp->a[pp->n++] = mk("\r\n550 no\r\n", SRV_CONTINUE, 0, 0, "blank-line-then-550");
  }
}

static struct phasepool P_greet, P_helo, P_mail, P_rcpt, P_data, P_dot;
static int nrecips;
static struct srv_answer *script[SRV_MAX];

static int run_smtp(void)
{
  substdio tmpin = SUBSTDIO_FDBUF(msgrd, -1, inbuf, sizeof(inbuf));
  substdio tmpto = SUBSTDIO_FDBUF(safewrite, -1, smtptobuf, sizeof(smtptobuf));
  substdio tmpfrom = SUBSTDIO_FDBUF(saferead, -1, smtpfrombuf, sizeof(smtpfrombuf));
  ssin = tmpin; smtpto = tmpto; smtpfrom = tmpfrom; msg_off = 0;
  subfdoutsmall->op = repwr; subfdoutsmall->p = 0; rep_len = 0; flagcritical = 0; smtptext.len = 0;
  srv_reset();
  h_exit_armed = 1;
  if (setjmp(h_exit_jb) == 0) { smtp(); h_exit_armed = 0; return 1; }
  return 0;
}

/* reference verdict from qmail-remote(8) + the property statement.  exp: expected report letters;
 * a '?' stands for "h or s" (recipient) or "D or Z" (message) after a garbage reply */
static int ref_verdict(int nans, char *exp, int *dup, int *data_sent)
{
  int p, i, anyr = 0, e = 0;
  *dup = 0; *data_sent = 0;
  for (p = 0; p < nans; p++) {
    struct srv_answer *a = script[p];
    int last = 4 + nrecips;
    if (a->klass == -1) { exp[e++] = 'Z'; exp[e] = 0; *dup = (p == last); if (p == last) *data_sent = 1; return p; }
    if (p == 0) { if (a->klass == 0 || a->code != 220) { exp[e++] = 'Z'; exp[e] = 0; return p; } continue; }
    if (p == 1) { if (a->klass == 0 || a->code != 250) { exp[e++] = 'Z'; exp[e] = 0; return p; } continue; }
    if (p == 2) {
      if (a->klass == 0) { exp[e++] = '?'; exp[e] = 0; return p; }
      if (a->klass >= 5) { exp[e++] = 'D'; exp[e] = 0; return p; }
      if (a->klass == 4) { exp[e++] = 'Z'; exp[e] = 0; return p; }
      continue;
    }
    if (p >= 3 && p < 3 + nrecips) {
      if (a->klass == 0) exp[e++] = '?';
      else if (a->klass >= 5) exp[e++] = 'h';
      else if (a->klass == 4) exp[e++] = 's';
      else { exp[e++] = 'r'; anyr = 1; }
      if (p == 2 + nrecips && !anyr) { exp[e++] = 'D'; exp[e] = 0; return p; }
      continue;
    }
    if (p == 3 + nrecips) {
      if (a->klass == 0) { exp[e++] = '?'; exp[e] = 0; return p; }
      if (a->klass >= 5) { exp[e++] = 'D'; exp[e] = 0; return p; }
      if (a->klass == 4) { exp[e++] = 'Z'; exp[e] = 0; return p; }
      continue;
    }
    /* final dot */
    *data_sent = 1;
    if (a->klass == 0) exp[e++] = '?';
    else if (a->klass >= 5) exp[e++] = 'D';
    else if (a->klass == 4) exp[e++] = 'Z';
    else exp[e++] = 'K';
    exp[e] = 0;
    return p;
  }
  (void) i;
  exp[e] = 0;
  return -1; /* script incomplete */
}

static char scriptname[1024];
static void name_script(int nans)
{
  int p; size_t o = 0;
  scriptname[0] = 0;
  for (p = 0; p < nans; p++) o += snprintf(scriptname + o, sizeof scriptname - o, "%s%s", p ? "," : "", script[p]->name);
}

static void check_script(int nans, const char *variant)
{
  char exp[32], got[32], key[1200]; int dup, data_sent, endp, returned, g = 0, gotdup, i, ok;
  size_t j, k;
  endp = ref_verdict(nans, exp, &dup, &data_sent);
  (void) endp;
  srv_n = nans; for (i = 0; i < nans; i++) srv_ans[i] = script[i];
  name_script(nans);
  snprintf(h_cur, sizeof h_cur, "c09 script=%s variant=%s", scriptname, variant);
  snprintf(key, sizeof key, "smtp:n=%d:%s", nrecips, scriptname);
  returned = run_smtp();
  n_eval++;
  if (returned) { H_FAIL(key, "smtp() returned (%s)", variant); return; }
  if (h_exit_code != 0) { H_FAIL(key, "qmail-remote exit code %d, documented: always 0 (%s)", h_exit_code, variant); return; }
  /* parse report letters */
  j = 0;
  for (k = 0; k < rep_len; k++) if (!rep[k]) { if (g < 30) got[g++] = rep[j]; j = k + 1; }
  got[g] = 0;
  if (j != rep_len) { H_FAIL(key, "output does not end with a NUL-terminated report: %s (%s)", H_ESC(rep, rep_len), variant); return; }
  gotdup = (memmem(rep, rep_len, "Possible duplicate", 18) != 0);
  ok = (strlen(exp) == (size_t) g);
  if (srv_write_fail_at >= 0) {
    /* a failing write is a lost connection at that point: reports so far, then Z */
    ok = (g >= 1 && got[g - 1] == 'Z' && (size_t) g <= strlen(exp) + 1);
    for (i = 0; ok && i < g - 1; i++) if (!(exp[i] == got[i] || (exp[i] == '?' && (got[i] == 'h' || got[i] == 's')))) ok = 0;
  } else {
    for (i = 0; ok && i < g; i++) {
      if (exp[i] == '?') { if (!(got[i] == 'h' || got[i] == 's' || got[i] == 'D' || got[i] == 'Z')) ok = 0; if (i < g - 1 && !(got[i] == 'h' || got[i] == 's')) ok = 0; }
      else if (exp[i] != got[i]) ok = 0;
    }
    if (ok && gotdup != dup) { H_FAIL(key, "'Possible duplicate!' flag is %d, expected %d: %s (%s)", gotdup, dup, H_ESC(rep, rep_len), variant); return; }
    if (ok && data_sent != (memmem(srv_sent, srv_sent_len, "\r\n.\r\n", 5) != 0)) { H_FAIL(key, "message data %s sent although reference says %s (%s)", data_sent ? "not" : "was", data_sent ? "sent" : "not sent", variant); return; }
  }
  if (!ok) { H_FAIL(key, "reports %s, expected %s (output %s) (%s)", got, exp, H_ESC(rep, rep_len), variant); return; }
  if (srv_stalled_reads) { H_FAIL(key, "client read a reply without having sent the command (%s)", variant); return; }
  if (got[g - 1] == 'K') n_K++; else if (got[g - 1] == 'Z') n_Z++; else n_D++;
  if (gotdup) n_dup++;
  h_set_add(&distinct_obs, h_fnv(got, g, gotdup + 1));
  /* chain into the spawner's report(): qmail-rspawn runs one recipient per qmail-remote */
  if (nrecips == 1 && srv_write_fail_at < 0) {
    char ob[512]; substdio ss; char sbuf[16384]; char want;
    static size_t ob_len; ob_len = 0;
    substdio_fdbuf(&ss, repwr, -1, sbuf, sizeof sbuf);
    { char save[16384]; size_t sl = rep_len; memcpy(save, rep, sl); rep_len = 0;
      report(&ss, 0, save, (int) sl); substdio_flush(&ss);
      memcpy(ob, rep, rep_len < sizeof ob ? rep_len : sizeof ob); ob_len = rep_len; }
    n_chain++;
    if (g == 2 && got[0] == 'r') want = got[1]; else if (got[0] == 'h') want = 'D'; else if (got[0] == 's') want = 'Z'; else want = got[g - 1];
    if (ob_len < 1 || ob[0] != want) H_FAIL(key, "spawner relays %s for qmail-remote reports %s (want %c)", H_ESC(ob, ob_len < 40 ? ob_len : 40), got, want);
    if (ob_len >= 1 && ob[0] == 'K' && strcmp(exp, "rK")) H_FAIL(key, "spawner relays success although the server did not accept recipient and message (reference %s)", exp);
  }
  if ((n_eval % 20011) == 1) H_SAMPLE("server script [%s] -> reports %s%s", scriptname, got, gotdup ? " +possible-duplicate" : "");
}

static void with_variants(int nans, int variants)
{
  int i, total = 0, w;
  srv_mode_lockstep = 1; srv_split_at = -1; srv_onebyte = 0; srv_write_fail_at = -1;
  check_script(nans, "lockstep");
  n_scripts++;
  if (!variants) return;
  for (i = 0; i < nans; i++) total += script[i]->len;
  for (i = 1; i < total; i++) { srv_split_at = i; n_variants++; check_script(nans, "split"); }
  srv_split_at = -1;
  srv_onebyte = 1; n_variants++; check_script(nans, "1-byte reads"); srv_onebyte = 0;
  srv_mode_lockstep = 0; n_variants++; check_script(nans, "replies ahead of commands"); srv_mode_lockstep = 1;
  for (w = 0; w < nans; w++) { srv_write_fail_at = w; n_variants++; check_script(nans, "write fails"); }
  srv_write_fail_at = -1;
}

static int shard = 0, nshards = 1, idx0;
static void enumerate(int p, int variants)
{
  struct phasepool *pp; int i, last = 4 + nrecips;
  char exp[32]; int dup, ds;
  pp = p == 0 ? &P_greet : p == 1 ? &P_helo : p == 2 ? &P_mail : p < 3 + nrecips ? &P_rcpt : p == 3 + nrecips ? &P_data : &P_dot;
  for (i = 0; i < pp->n; i++) {
    if (p == 0) { idx0 = i; }
    if (p == 2 && ((idx0 * 64 + i) % nshards) != shard) continue; /* shards partition the tree below MAIL */
    script[p] = pp->a[i];
    if (p < 2 && shard != 0 && ref_verdict((script[p] = pp->a[i], p + 1), exp, &dup, &ds) >= 0) continue; /* leaves above MAIL: shard 0 only */
    if (ref_verdict(p + 1, exp, &dup, &ds) >= 0 || p == last) { n_nontrivial++; with_variants(p + 1, variants); }
    else enumerate(p + 1, variants);
  }
}

/* ---- report() alone ---- */
static void check_report(int wstat, const char *s, int len)
{
  char sbuf[4096]; substdio ss; char *copy = malloc(len ? len : 1); int j = 0, k, result = -2; char want, key[200];
  if (!copy) h_real_exit(2);
  memcpy(copy, s, len);   /* exactly len bytes on the heap: reading behind the output is a sanitizer report */
  rep_len = 0; substdio_fdbuf(&ss, repwr, -1, sbuf, sizeof sbuf);
  snprintf(h_cur, sizeof h_cur, "c09 report wstat=%d out=%s", wstat, H_ESC(s, len));
  report(&ss, wstat, copy, len); substdio_flush(&ss); free(copy);
  n_eval++;
  /* reference: qmail-remote(8) RESULTS + qmail-rspawn's documented fallbacks */
  if (wstat & 127) want = 'Z';
  else if ((wstat >> 8) == 111) want = 'Z';
  else if ((wstat >> 8) != 0) want = 'D';
  else if (!len) want = 'Z';
  else {
    for (k = 0; k < len; k++) if (!s[k]) { if (s[j] == 'K') { result = 1; break; } if (s[j] == 'Z') { result = 0; break; } if (s[j] == 'D') { result = -1; break; } j = k + 1; }
    if (result == -2) result = -1;
    if (s[0] == 's') result = 0; else if (s[0] == 'h') result = -1;
    want = result == 1 ? 'K' : result == 0 ? 'Z' : 'D';
    n_nontrivial++;
  }
  snprintf(key, sizeof key, "report:wstat=%d:%s", wstat, H_ESC(s, len));
  if (rep_len < 1) { H_FAIL(key, "report() wrote nothing"); return; }
  if (rep[0] != want) H_FAIL(key, "report() says %c, reference %c", rep[0], want);
  if (memchr(rep, 0, rep_len)) H_FAIL(key, "report() output contains NUL");
  h_set_add(&distinct_obs, h_fnv(rep, 1, wstat + 7));
  if (want == 'K') n_K++; else if (want == 'Z') n_Z++; else n_D++;
}

int main(int argc, char **argv)
{
  h_init();
  if (argc < 3) return 2;
  if (!strcmp(argv[1], "smtp")) {
    int fl = atoi(argv[3]), variants = atoi(argv[4]);
    nrecips = atoi(argv[2]); huge_ok = !variants;
    if (argc > 6) { shard = atoi(argv[5]); nshards = atoi(argv[6]); }
    if (!stralloc_copys(&helohost, "me.example")) return 2;
    if (!stralloc_copys(&sender, "s@x")) return 2;
    if (!saa_readyplus(&reciplist, 4)) return 2;
    { int i; for (i = 0; i < nrecips; i++) { reciplist.sa[i] = sauninit; if (!stralloc_copys(&reciplist.sa[i], "r@y")) return 2; } reciplist.len = nrecips; }
    add_code(&P_greet, 220, fl); add_code(&P_greet, 221, 0); add_code(&P_greet, 421, 0); add_code(&P_greet, 554, 0); add_failures(&P_greet, fl);
    add_code(&P_helo, 250, fl); add_code(&P_helo, 220, 0); add_code(&P_helo, 451, 0); add_code(&P_helo, 550, 0); add_failures(&P_helo, fl);
    add_code(&P_mail, 250, fl); add_code(&P_mail, 354, 0); add_code(&P_mail, 451, fl ? 1 : 0); add_code(&P_mail, 550, fl ? 1 : 0); add_failures(&P_mail, fl);
    add_code(&P_rcpt, 250, fl > 1 ? 1 : fl); add_code(&P_rcpt, 251, 0); add_code(&P_rcpt, 354, 0); add_code(&P_rcpt, 450, fl > 1 ? 1 : fl); add_code(&P_rcpt, 550, fl > 1 ? 1 : fl); add_code(&P_rcpt, 400, 0); add_code(&P_rcpt, 500, 0); add_code(&P_rcpt, 399, 0); add_failures(&P_rcpt, fl > 1 ? 1 : fl);
    add_code(&P_data, 354, fl); add_code(&P_data, 250, 0); add_code(&P_data, 451, 0); add_code(&P_data, 554, 0); add_code(&P_data, 400, 0); add_code(&P_data, 500, 0); add_failures(&P_data, fl);
    add_code(&P_dot, 250, fl); add_code(&P_dot, 354, 0); add_code(&P_dot, 451, fl); add_code(&P_dot, 554, fl); add_code(&P_dot, 400, 0); add_code(&P_dot, 500, 0); add_code(&P_dot, 399, 0); add_code(&P_dot, 499, 0); add_code(&P_dot, 599, 0); add_failures(&P_dot, fl);
    enumerate(0, variants);
  } else if (!strcmp(argv[1], "report")) {
    static const char al[] = { 'r', 'h', 's', 'K', 'Z', 'D', 'x', 0 };
    static const int stats[] = { 0, 1 << 8, 100 << 8, 111 << 8, 11 /* SIGSEGV */, 9 /* SIGKILL */, 255 << 8 };
    int maxlen = atoi(argv[2]), n, idx[16]; unsigned st; char s[16];
    for (st = 0; st < sizeof stats / sizeof stats[0]; st++)
      for (n = 0; n <= maxlen; n++) {
        if (st && n > 4) continue;
        memset(idx, 0, sizeof idx);
        do { int i; for (i = 0; i < n; i++) s[i] = al[idx[i]]; check_report(stats[st], s, n); n_scripts++;
             if ((n_eval % 300007) == 1) H_SAMPLE("report(wstat=%d, output=%s) -> %c", stats[st], H_ESC(s, n), rep[0]); } while (h_odo_next(idx, n, 8));
      }
  } else return 2;
  printf("STAT evaluations=%ld distinct_nontrivial=%ld scripts=%ld variant_runs=%ld verdict_K=%ld verdict_Z=%ld verdict_D=%ld possible_duplicate=%ld chained_into_report=%ld states=%zu\n",
         n_eval, n_nontrivial, n_scripts, n_variants, n_K, n_Z, n_D, n_dup, n_chain, distinct_obs.n);
  fflush(stdout);
  h_real_exit(h_nfail ? 1 : 0);
}
