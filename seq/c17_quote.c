/* C17 (quoting part): for every local part over an alphabet of all RFC 822/821 specials, space, CR, TAB, 8-bit bytes,
 * letters and digits up to a length bound: (1) quote2() -> header field -> token822_parse/addrlist/unquote, and
 * (2) qmail-remote's addrmangle() -> MAIL FROM:<...> -> qmail-smtpd's addrparse(), must give back the identical address.
 *   usage: c17_quote <maxlen> <shard> <nshards>
 */
#define _GNU_SOURCE
#define main qmail_smtpd_main
#include "qmail-smtpd.c"
#undef main
#include "harness.h"
#include "smtpd_env.h"
#include "token822.h"
#include "quote.h"

extern void r_addrmangle(stralloc *, char *);
static int addr_is(const char *a, size_t al) { return addr.len == al + 1 && !memcmp(addr.s, a, al) && !addr.s[al]; }
static const char *addr_s(void) { return addr.s; }
static size_t addr_len(void) { return addr.len; }   /* qmail-remote.o with its globals prefixed r_ */

static long n_eval, n_nontrivial, n_quoted;
static stralloc got = {0}; static int ngot;
static int cb(token822_alloc *addr)
{
  token822_reverse(addr);
  if (token822_unquote(&got, addr) != 1) { printf("HARNESS unquote failed\n"); h_real_exit(2); }
  token822_reverse(addr);
  ngot++;
  return 1;
}

static void check(const unsigned char *lp, size_t n, const char *dom)
{
  static stralloc q = {0}, line = {0}, buf = {0}, m = {0}; static token822_alloc ta = {0}, out = {0}, addrtoks = {0};
  char addr[64], key[200]; size_t al; int r;
  memcpy(addr, lp, n); addr[n] = '@'; strcpy(addr + n + 1, dom); al = n + 1 + strlen(dom);
  snprintf(h_cur, sizeof h_cur, "c17 addr=%s", H_ESC(addr, al));
  snprintf(key, sizeof key, "quote-roundtrip:%s", H_ESC(addr, al));
  /* (1) header path */
  if (!quote2(&q, addr)) h_real_exit(2);
  if (q.len != al || memcmp(q.s, addr, al)) n_quoted++;
  if (!stralloc_copys(&line, "To: ") || !stralloc_cat(&line, &q) || !stralloc_cats(&line, "\n")) h_real_exit(2);
  ngot = 0; got.len = 0;
  r = token822_parse(&ta, &line, &buf);
  n_eval++;
  if (r != 1) { H_FAIL(key, "header form %s does not parse (token822_parse = %d)", H_ESC(q.s, q.len), r); return; }
  r = token822_addrlist(&out, &addrtoks, &ta, cb);
  if (r != 1) { H_FAIL(key, "header form %s: address list not recognised (%d)", H_ESC(q.s, q.len), r); return; }
  if (ngot != 1 || got.len != al || memcmp(got.s, addr, al)) { H_FAIL(key, "quoted for a header as %s, parsed back as %d address(es) %s", H_ESC(q.s, q.len), ngot, H_ESC(got.s, got.len)); return; }
  /* (2) SMTP path */
  {
    static char arg[256]; size_t l;
    r_addrmangle(&m, addr);
    l = snprintf(arg, sizeof arg, "FROM:<"); memcpy(arg + l, m.s, m.len); l += m.len; arg[l++] = '>'; arg[l] = 0;
    n_eval++;
    if (memchr(m.s, 0, m.len)) { H_FAIL(key, "mangled form contains NUL"); return; }
    if (!addrparse(arg)) { H_FAIL(key, "MAIL %s refused by the server's parser", H_ESC(arg, l)); return; }
    if (addr_is(addr, al) == 0) { H_FAIL(key, "sent as MAIL %s, server parsed %s", H_ESC(arg, l), H_ESC(addr_s(), addr_len())); return; }
  }
  n_nontrivial++;
  if ((n_eval % 400003) < 2) H_SAMPLE("%s -> header %s -> same address; -> MAIL FROM:<%s> -> same address", H_ESC(addr, al), H_ESC(q.s, q.len), H_ESC(m.s, m.len));
}

int main(int argc, char **argv)
{
  static const unsigned char alpha[] = { '(', ')', '<', '>', '@', ',', ';', ':', '\\', '"', '.', '[', ']', ' ', '\r', '\t', 0x80, 0xff, 'a', 'B', '1', '+', '-' };
  int maxlen, shard, nshards, n, idx[16]; unsigned char lp[16]; long cnt = 0; int k = sizeof alpha;
  h_init();
  if (argc < 4) return 2;
  maxlen = atoi(argv[1]); shard = atoi(argv[2]); nshards = atoi(argv[3]);
  for (n = 0; n <= maxlen; n++) {
    memset(idx, 0, sizeof idx);
    do {
      int i; if ((cnt++ % nshards) != shard) continue;
      for (i = 0; i < n; i++) lp[i] = alpha[idx[i]];
      check(lp, n, "h.dom"); check(lp, n, "[1.2.3.4]");
    } while (h_odo_next(idx, n, k));
  }
  printf("STAT evaluations=%ld distinct_nontrivial=%ld local_parts_needing_quotes=%ld\n", n_eval, n_nontrivial, n_quoted);
  fflush(stdout);
  h_real_exit(h_nfail ? 1 : 0);
}
