// C20 No input can corrupt memory: the real programs, built with AddressSanitizer + UBSan, as real processes under the virtual
// kernel.  For every untrusted-input surface a few grammar-derived base inputs are taken and EVERY single-point mutation of each is
// run: every truncation, every byte replaced by / every position receiving each character of a surface-specific hostile alphabet,
// every byte deleted, every decimal number replaced by each of 12 extreme values, every byte blown up to 1000 / 70000 copies; plus
// hand-written extreme inputs (lengths around every documented limit, thousands of tokens, deep nesting, 2^31/2^32/2^64 lengths).
// Oracle: no simulated program dies from a signal or a sanitizer report (ops.hpp VK_FATAL), and the program under test ends with
// a documented exit code.
#include "qmailenv.hpp"
using namespace vk;

enum Where { W_STDIN, W_FD1, W_FILE, W_ENV, W_ARG, W_REPORT };
struct Base { std::string subj; std::string note; std::string in0, in1; std::vector<std::string> env, args; int variant = 0; std::string path; /* W_FILE: the file that holds subj, if not the surface's target */ };
struct Mut { int base, kind, pos, arg; };
struct Surface {
  std::string name, prog; std::vector<Base> bases; std::string alpha; std::set<int> ok; int uid = 1000, gid = 1000; std::string cwd = "/"; Where where = W_STDIN; std::string target; /* file path, env name */ int argi = 0;
  std::vector<Base> extras;   // run as they are
};

static const char *NUMS[] = {"0", "1", "00000000000000000001", "999", "1000", "65535", "65536", "2147483647", "2147483648", "4294967295", "4294967296", "18446744073709551615", "18446744073709551616", "99999999999999999999999999", "-1", ""};
static const int NNUMS = sizeof NUMS / sizeof *NUMS;

static std::string ns(const std::string &s) { return std::to_string(s.size()) + ":" + s + ","; }
static std::string rep(const std::string &s, size_t n) { std::string o; o.reserve(s.size() * n); for (size_t i = 0; i < n; i++) o += s; return o; }
static std::string Z(const char *s, size_t n) { return std::string(s, n); }

static std::vector<std::pair<size_t, size_t>> digit_runs(const std::string &s) { std::vector<std::pair<size_t, size_t>> v; size_t i = 0; while (i < s.size()) { if (isdigit((unsigned char) s[i])) { size_t j = i; while (j < s.size() && isdigit((unsigned char) s[j])) j++; v.push_back({i, j - i}); i = j; } else i++; } return v; }

static std::string apply(const Surface &S, const Mut &m, std::string *desc) {
  const std::string &b = S.bases[m.base].subj; char t[160];
  switch (m.kind) {
    case 0: *desc = "unchanged"; return b;
    case 1: snprintf(t, sizeof t, "cut after byte %d", m.pos); *desc = t; return b.substr(0, m.pos);
    case 2: { snprintf(t, sizeof t, "byte %d := 0x%02x", m.pos, (unsigned char) S.alpha[m.arg]); *desc = t; std::string o = b; o[m.pos] = S.alpha[m.arg]; return o; }
    case 3: { snprintf(t, sizeof t, "0x%02x inserted at %d", (unsigned char) S.alpha[m.arg], m.pos); *desc = t; std::string o = b; o.insert(o.begin() + m.pos, S.alpha[m.arg]); return o; }
    case 4: { snprintf(t, sizeof t, "byte %d deleted", m.pos); *desc = t; std::string o = b; o.erase(m.pos, 1); return o; }
    case 5: { auto runs = digit_runs(b); auto r = runs[m.pos]; snprintf(t, sizeof t, "number at %zu := \"%s\"", r.first, NUMS[m.arg]); *desc = t; return b.substr(0, r.first) + NUMS[m.arg] + b.substr(r.first + r.second); }
    case 6: { snprintf(t, sizeof t, "byte %d repeated %d times", m.pos, m.arg); *desc = t; return b.substr(0, m.pos) + std::string(m.arg, b[m.pos]) + b.substr(m.pos + 1); }
  }
  return b;
}

static std::vector<Mut> mutations(const Surface &S, bool thorough) {
  std::vector<Mut> v;
  for (int bi = 0; bi < (int) S.bases.size(); bi++) {
    const std::string &b = S.bases[bi].subj; int n = (int) b.size(), na = (int) S.alpha.size();
    v.push_back({bi, 0, 0, 0});
    for (int k = 0; k < n; k++) v.push_back({bi, 1, k, 0});
    for (int k = 0; k < n; k++) for (int a = 0; a < na; a++) if (b[k] != S.alpha[a]) v.push_back({bi, 2, k, a});
    for (int k = 0; k < n; k++) v.push_back({bi, 4, k, 0});
    { auto runs = digit_runs(b); for (int r = 0; r < (int) runs.size(); r++) for (int a = 0; a < NNUMS; a++) v.push_back({bi, 5, r, a}); }
    for (int k = 0; k < n; k++) if (thorough || k % 4 == 0) v.push_back({bi, 6, k, 1000});
    if (thorough) { for (int k = 0; k <= n; k++) for (int a = 0; a < na; a++) v.push_back({bi, 3, k, a}); for (int k = 0; k < n; k++) v.push_back({bi, 6, k, 70000}); }
  }
  return v;
}

// ---------------------------------------------------------------------------------------------- surfaces
static const std::string MSG = "From: s@src.example\nTo: r1@a.example\nSubject: t\n\nhello\n.dot\n";
static std::string smtp_base(int v) {
  if (v == 0) return "EHLO peer.example\r\nMAIL FROM:<s@src.example> SIZE=100\r\nRCPT TO:<r1@a.example>\r\nRCPT TO:<@x,@y:r2@[10.0.0.1]>\r\nDATA\r\nReceived: x\r\nSubject: t\r\n\r\nhello\r\n..dot\r\n.\r\nRSET\r\nVRFY x\r\nHELP\r\nNOOP\r\nQUIT\r\n";
  return "HELO x\r\nMAIL FROM: <\"a b\\\"c\"@src.example>\r\nRCPT TO:r@a.example\r\nRCPT TO: <\"q\\@r\"@b.example>\r\nDATA\r\nDelivered-To: y\r\n\r\n.\r\nMAIL FROM:<>\r\nRCPT TO:<postmaster>\r\nDATA\r\n\r\nx\r\n.\r\n";
}
static std::string hdr_base(int v) {
  if (v == 0) return "From: \"J. Q. (not \\\"P\\\") Doe\" <jqd@a.example> (comment (nested \\) one))\nTo: list: a@b.example, <@r1,@r2:c@d.example>, \"quoted local\"@[10.\\1.2.3];, e\nCc: f@g (x), h.i.j @ k . l\nBcc: hidden@b.example\nReturn-Path: <rp@a.example>\nReply-To: x@[1.2.3.4]\nMail-Followup-To: m@n.example\nNotice-Requested-Upon-Delivery-To: me@here.example\nDate: 1 Jan 2000 00:00:00 -0000\nMessage-ID: <1@2>\nResent-To: o@p.example\nResent-From: q@r\nSubject: s\n continued\nContent-Length: 5\n\nbody\n";
  return "to:a\nTO:  b ,,, c\nSender: <>\nFrom: @\nReturn-Receipt-To: z@z\nErrors-To: y@y\nApparently-To: x@x\nResent-Sender: w\nResent-Cc: v:;\nResent-Bcc: u\nResent-Date: now\nResent-Message-ID: <r>\nReceived: by x\n\n";
}

static Surface make_surface(const std::string &name, bool th) {
  Surface S; S.name = name; (void) th;
  std::vector<std::string> peer = {"TCPREMOTEIP=192.0.2.9", "TCPREMOTEHOST=peer.example", "TCPLOCALHOST=mx.example", "TCPREMOTEINFO=who"};
  auto B = [&](const std::string &subj, const std::string &note, std::vector<std::string> env = {}, std::vector<std::string> args = {}) { Base b; b.subj = subj; b.note = note; b.env = env; b.args = args; return b; };
  if (name == "smtpd") {
    S.prog = "qmail-smtpd"; S.uid = UID_QMAILD; S.gid = GID_NOFILES; S.ok = {0, 1}; S.alpha = Z("\0\xff\n\r<>@\"\\:. -", 13);
    auto rc = peer; rc.push_back("RELAYCLIENT=@relay.example.org");
    S.bases = { B(smtp_base(0), "session A", peer), B(smtp_base(1), "session B (RELAYCLIENT)", rc) };
    for (size_t l : {1u, 500u, 898u, 899u, 900u, 1000u, 1023u, 1024u, 1025u, 4096u, 70000u, 300000u}) {
      S.extras.push_back(B("MAIL FROM:<" + std::string(l, 'a') + "@b>\r\nRCPT TO:<" + std::string(l, 'c') + "@d>\r\nQUIT\r\n", "addresses of " + std::to_string(l) + " bytes", rc));
      S.extras.push_back(B(std::string(l, 'x'), "a line of " + std::to_string(l) + " bytes without end", peer));
      S.extras.push_back(B("HELO " + std::string(l, 'h') + "\r\nMAIL FROM:<a@b>\r\nRCPT TO:<c@d>\r\nDATA\r\n" + std::string(l, 'H') + ": " + std::string(l, 'v') + "\r\n\r\n.\r\nQUIT\r\n", "HELO and header field of " + std::to_string(l) + " bytes", peer));
      S.extras.push_back(B("MAIL FROM:<" + rep("@r,", l / 3) + ":a@b>\r\nRCPT TO:<" + rep("\"", l) + ">\r\nRCPT TO:<" + rep("\\", l) + "@x>\r\nQUIT\r\n", "routes/quotes/backslashes x" + std::to_string(l), peer));
    }
    S.extras.push_back(B("MAIL FROM:<a@b>\r\n" + rep("RCPT TO:<c@d>\r\n", 5000) + "DATA\r\n\r\n.\r\nQUIT\r\n", "5000 recipients", rc));
    S.extras.push_back(B("MAIL FROM:<a@b>\r\nRCPT TO:<c@d>\r\nDATA\r\n" + rep("Received: x\r\n", 3000) + "\r\n" + rep(".\r\n..\r\n", 0) + rep("..\r\n", 20000) + ".\r\nQUIT\r\n", "3000 hop fields, 20000 stuffed lines", peer));
    S.extras.push_back(B(rep("NOOP\r\n", 20000), "20000 commands", peer));
    for (const char *db : {"0", "1", "2147483647", "4294967296", "18446744073709551616", "-5", "x"}) { auto e = peer; e.push_back(std::string("DATABYTES=") + db); S.extras.push_back(B(smtp_base(0), std::string("DATABYTES=") + db, e)); }
    { auto e = peer; e.push_back("RELAYCLIENT=" + std::string(5000, 'R')); S.extras.push_back(B(smtp_base(0), "RELAYCLIENT of 5000 bytes", e)); }
    { std::vector<std::string> e = {"TCPREMOTEIP=" + std::string(3000, '9'), "TCPREMOTEHOST=" + std::string(3000, 'h'), "TCPLOCALHOST=" + std::string(3000, 'l'), "TCPREMOTEINFO=" + std::string(3000, 'i')}; S.extras.push_back(B(smtp_base(0), "3000-byte TCP* variables", e)); S.extras.push_back(B(smtp_base(0), "no TCP* variables", {})); }
  } else if (name == "qmtpd" || name == "qmqpd") {
    bool mtp = name == "qmtpd"; S.prog = "qmail-" + name; S.uid = UID_QMAILD; S.gid = GID_NOFILES; S.ok = {0, 100, 111}; S.alpha = Z("\0\xff\n\r:,0 9", 9);
    auto rc = peer; rc.push_back("RELAYCLIENT=@relay.example.org");
    auto sess = [&](const std::string &body, const std::string &sender, const std::vector<std::string> &rcp) { std::string r; for (auto &x : rcp) r += ns(x); return mtp ? ns(body) + ns(sender) + ns(r) : ns(ns(body.substr(1)) + ns(sender) + r); };
    S.bases = { B(sess("\n" + MSG, "s@src.example", {"r1@a.example", "r2@b.example"}) + (mtp ? sess("\rl1\r\nl2\r\n", "", {"x"}) : ""), "two messages", peer), B(sess("\n" + MSG, "s@src.example", {"r1@a.example"}), "relay client", rc) };
    for (size_t rl : {0u, 1u, 16u, 17u, 100u, 500u, 1100u}) { std::set<size_t> ls; for (size_t l = 995; l <= 1003; l++) ls.insert(l); for (size_t t = 990; t <= 1005; t++) if (t > rl) ls.insert(t - rl);
      for (size_t l : ls) { auto e = peer; if (rl) e.push_back("RELAYCLIENT=" + std::string(rl, 'R'));
        S.extras.push_back(B(sess("\nx\n", "s@src.example", {std::string(l, 'r'), "ok@a.example"}), "recipient of " + std::to_string(l) + " bytes, RELAYCLIENT of " + std::to_string(rl), e));
        S.extras.push_back(B(sess("\nx\n", std::string(l, 's'), {"ok@a.example"}), "sender of " + std::to_string(l) + " bytes, RELAYCLIENT of " + std::to_string(rl), e)); } }
    for (const char *n : NUMS) { S.extras.push_back(B(std::string(n) + ":", std::string("outer length ") + n, peer)); S.extras.push_back(B(std::string(n) + ":" + std::string(3000, 'x'), std::string("outer length ") + n + " + 3000 bytes", peer)); }
    S.extras.push_back(B(sess("\n" + rep("line\n", 50000), "s@x", {"r@y"}), "250000-byte body", peer));
    { std::vector<std::string> many(3000, "r@a.example"); S.extras.push_back(B(sess("\nx\n", "s@x", many), "3000 recipients", rc)); }
    for (const char *db : {"0", "1", "2147483647", "4294967296", "18446744073709551616", "-5", "x"}) { auto e = peer; e.push_back(std::string("DATABYTES=") + db); S.extras.push_back(B(S.bases[0].subj, std::string("DATABYTES=") + db, e)); }
    { std::vector<std::string> e = {"TCPREMOTEIP=" + std::string(3000, '9'), "TCPREMOTEHOST=" + std::string(3000, 'h'), "TCPLOCALHOST=" + std::string(3000, 'l'), "TCPREMOTEINFO=" + std::string(3000, 'i'), "RELAYCLIENT=" + std::string(3000, 'R')}; S.extras.push_back(B(S.bases[0].subj, "3000-byte environment variables", e)); S.extras.push_back(B(S.bases[0].subj, "no TCP* variables", {})); }
  } else if (name == "pop3d") {
    S.prog = "qmail-pop3d"; S.ok = {0, 1}; S.cwd = "/home/u"; S.alpha = Z("\0\xff\n\r 0-9", 8); S.bases = { B("LIST\r\nUIDL 1\r\nTOP 1 2\r\nRETR 2\r\nDELE 1\r\nLAST\r\nSTAT\r\nNOOP\r\nRSET\r\nLIST 2\r\nUIDL\r\nTOP 3 0\r\nQUIT\r\n", "session") };
    for (size_t l : {100u, 1023u, 1024u, 1025u, 70000u}) { S.extras.push_back(B("TOP " + std::string(l, '1') + " " + std::string(l, '2') + "\r\nQUIT\r\n", "numbers of " + std::to_string(l) + " digits")); S.extras.push_back(B(std::string(l, 'x'), "line of " + std::to_string(l) + " bytes without end")); S.extras.push_back(B(std::string(l, ' ') + "\r\nLIST" + std::string(l, ' ') + "1\r\nQUIT\r\n", std::to_string(l) + " spaces")); }
    S.extras.push_back(B(rep("RETR 1\r\nTOP 2 1\r\nLIST\r\n", 3000), "9000 commands"));
  } else if (name == "popup") {
    S.prog = "qmail-popup"; S.uid = 0; S.gid = 0; S.ok = {0, 1}; S.alpha = Z("\0\xff\n\r <>", 7); S.bases = { B("USER alice\r\nPASS secret\r\n", "USER/PASS"), B("NOOP\r\nAPOP bob 0123456789abcdef\r\n", "APOP"), B("USER a\r\nUSER b\r\nPASS\r\nQUIT\r\n", "no password") };
    for (size_t l : {100u, 1023u, 1024u, 1025u, 70000u}) { S.extras.push_back(B("USER " + std::string(l, 'u') + "\r\nPASS " + std::string(l, 'p') + "\r\n", "credentials of " + std::to_string(l) + " bytes")); S.extras.push_back(B("APOP " + std::string(l, 'u') + " " + std::string(l, 'd') + "\r\n", "APOP of " + std::to_string(l) + " bytes")); }
  } else if (name == "inject" || name == "qreceipt") {
    bool inj = name == "inject"; S.prog = inj ? "qmail-inject" : "qreceipt"; S.ok = {0, 100, 111}; S.alpha = Z("()<>@,;:\\\"[]. \n\t\0\xff", 18);
    std::vector<std::string> e = {"USER=injector", "QMAILINJECT=cfimrs", "QMAILNAME=N (x", "MAILHOST=mh", "SENDER=s@src.example"}; std::vector<std::string> a = inj ? std::vector<std::string>{} : std::vector<std::string>{"me@here.example"};
    S.bases = { B(hdr_base(0), "header A", e, a), B(hdr_base(1), "header B", e, a) };
    for (size_t l : {10u, 200u, 1000u, 5000u, 20000u}) {
      S.extras.push_back(B("To: " + rep("a@b,", l) + "\n\n", std::to_string(l) + " addresses", e, a)); S.extras.push_back(B("To: " + rep("(", l) + "x" + rep(")", l) + " a@b\n\n", "comment depth " + std::to_string(l), e, a));
      S.extras.push_back(B("To: " + rep("(", l) + "\n\n", std::to_string(l) + " open comments", e, a)); S.extras.push_back(B("To: " + rep("<", l) + rep("@x,", l) + ":" + rep(">", l) + "\n\n", std::to_string(l) + " angle brackets and routes", e, a));
      S.extras.push_back(B("To: a@[" + rep("\\]", l) + "]\nCc: \"" + rep("\\\"", l) + "\"@x\n\n", std::to_string(l) + " quoted pairs in a domain literal and a quoted string", e, a)); S.extras.push_back(B("To: " + rep("g:", l) + rep(";", l) + "\n\n", std::to_string(l) + " groups", e, a));
      S.extras.push_back(B("To: " + rep("a.", l) + "b@" + rep("c.", l) + "d\n" + rep(" folded\n", l) + "\n", std::to_string(l) + " dots and folded lines", e, a)); S.extras.push_back(B("Notice-Requested-Upon-Delivery-To: " + rep("me@here.example, ", l) + "\n\n", std::to_string(l) + " notice requests", e, a));
      S.extras.push_back(B(std::string(l, 'F') + ": x\n" + std::string(l, ':') + "\nTo" + std::string(l, ' ') + ": a@b\n\n", "field names of " + std::to_string(l) + " bytes", e, a));
    }
    for (const char *var : {"QMAILUSER", "QMAILHOST", "QMAILNAME", "QMAILSUSER", "QMAILSHOST", "QMAILMFTFILE", "QMAILINJECT", "QMAILDEFAULTHOST", "QMAILPLUSDOMAIN", "QMAILIDHOST", "MAILUSER", "MAILNAME", "NAME", "LOGNAME"}) for (const char *val : {"", "(", "\"", "a\nb", "\\"}) if (inj) S.extras.push_back(B(hdr_base(0), std::string(var) + "=[" + esc(val) + "]", {"USER=injector", std::string(var) + "=" + val}, a));
    if (inj) for (size_t l : {1000u, 70000u}) S.extras.push_back(B(hdr_base(1), "QMAILUSER/QMAILHOST/QMAILNAME of " + std::to_string(l) + " bytes", {"QMAILUSER=" + std::string(l, 'u'), "QMAILHOST=" + std::string(l, 'h'), "QMAILNAME=" + std::string(l, '('), "QMAILINJECT=frms"}, a));
    if (inj) for (const char *f : {"", "a", "a@", "@b", "\"", "a@[", "(", "<a@b>", "a b"}) { S.extras.push_back(B(hdr_base(0), std::string("-f [") + f + "]", e, {"-f", f})); S.extras.push_back(B("Subject: x\n\n", std::string("recipient argument [") + f + "]", e, {"-a", "--", f, std::string(2000, 'r')})); S.extras.push_back(B(hdr_base(1), std::string("-h -A recipient [") + f + "]", e, {"-A", "-h", "--", f})); }
  } else if (name == "queue") {
    S.prog = "qmail-queue"; S.gid = GID_QMAIL; S.ok = {0, 11, 51, 52, 53, 54, 55, 56, 61, 62, 63, 64, 65, 66, 71, 72, 73, 74, 81, 91}; S.where = W_FD1; S.alpha = Z("\0FT\xff\n@", 6);
    Base b = B(Z("Fs@src.example\0Tr1@a.example\0Tr2@b.example\0\0", 44), "envelope"); b.in0 = MSG; S.bases = {b};
    for (size_t l : {1u, 100u, 1000u, 1002u, 1003u, 1004u, 5000u, 70000u}) { Base x = B("F" + std::string(l, 's') + Z("\0T", 2) + std::string(l, 'r') + Z("\0\0", 2), "addresses of " + std::to_string(l) + " bytes"); x.in0 = MSG; S.extras.push_back(x); }
    { Base x = B("Fs" + Z("\0", 1) + rep(Z("Tr@x\0", 5), 20000) + Z("\0", 1), "20000 recipients"); x.in0 = rep("line\n", 40000); S.extras.push_back(x); }
  } else if (name == "dotqmail" || name == "localmsg") {
    S.prog = "qmail-local"; S.ok = {0, 99, 100, 111}; S.where = name == "dotqmail" ? W_FILE : W_STDIN; S.target = "/home/u/.qmail-ext"; S.alpha = name == "dotqmail" ? Z("\n#.&|/\0\xff \\+@<>,", 15) : Z("\n:\0\xff \t@<>", 9);
    std::vector<std::string> a = {"--", "u", "/home/u", "u-ext", "-", "ext", "local.example", "s@src.example", "./Mailbox"};
    std::string dq = "# comment\n./Mailbox\n./Maildir/\n&fwd@x.example\nfwd2@y.example, \n&<fwd3@z.example>\n|cmd arg\n+note\n/home/u/absfile\n";
    std::string lm = "Received: x\nDelivered-To: other@local.example\nDelivered-To: u-ext@local.examplx\nFrom: a@b\nReturn-Path: <x@y>\n\nFrom line\n>From quoted\nbody\n";
    if (name == "dotqmail") { Base b = B(dq, ".qmail-ext", {}, a); b.in0 = MSG; Base b2 = b; b2.args = a; b2.args[0] = "-n"; b2.note = ".qmail-ext, -n"; S.bases = {b, b2};
      for (size_t l : {1u, 255u, 1000u, 70000u}) for (const char *pre : {"", "&", "|", "./", "#", "+", "&<"}) { Base x = B(std::string(pre) + std::string(l, 'x') + (l % 2 ? "\n" : ""), std::string("line [") + pre + "] + " + std::to_string(l) + " bytes", {}, a); x.in0 = MSG; x.args[0] = "-n"; S.extras.push_back(x); if (std::string(pre) != "|") { x.args[0] = "--"; S.extras.push_back(x); } }
      { Base x = B(rep("&a@b\n", 20000), "20000 forwarding lines", {}, a); x.in0 = MSG; S.extras.push_back(x); x.args[0] = "-n"; S.extras.push_back(x); } }
    else { Base b = B(lm, "message", {}, a); b.in0 = dq; S.bases = {b};
      for (size_t l : {1000u, 70000u}) { Base x = B("Delivered-To: " + std::string(l, 'd') + "\n" + std::string(l, 'H') + "\n\n" + std::string(l, 'b'), "fields of " + std::to_string(l) + " bytes", {}, a); x.in0 = dq; S.extras.push_back(x); }
      for (size_t l : {0u, 1u, 100u, 1000u, 70000u}) for (int which = 0; which < 6; which++) { Base x = B(lm, "argument " + std::to_string(which + 1) + " of " + std::to_string(l) + " bytes", {}, a); x.in0 = dq; x.args[1 + which + (which >= 1 ? 1 : 0)] = std::string(l, which == 2 ? '-' : 'a'); S.extras.push_back(x); } }
  } else if (name == "lspawn" || name == "rspawn") {
    S.prog = "qmail-" + name; S.uid = name == "lspawn" ? 0 : UID_QMAILR; S.gid = name == "lspawn" ? 0 : GID_QMAIL; S.cwd = "/var/qmail/queue/mess"; S.ok = {0, 111}; S.alpha = Z("\0\xff/@.\n-1", 8);
    std::vector<std::string> a = name == "lspawn" ? std::vector<std::string>{"./Mailbox"} : std::vector<std::string>{};
    S.bases = { B(Z("\001" "8/123\0" "s@src.example\0" "joe-x@local.example\0" "\002" "8/123\0\0" "alias@remote.example\0", 69), "two deliveries", {}, a) };
    for (size_t l : {1u, 100u, 1000u, 15000u}) { S.extras.push_back(B(Z("\003", 1) + "8/123" + Z("\0", 1) + std::string(l, 's') + Z("\0", 1) + std::string(l, 'r') + "@" + std::string(l, 'd') + Z("\0", 1), "addresses of " + std::to_string(l) + " bytes", {}, a)); S.extras.push_back(B(Z("\004", 1) + std::string(l, '/') + "123" + Z("\0s\0r@d\0", 7), "message id of " + std::to_string(l) + " bytes", {}, a)); }
    { std::string many; for (int i = 0; i < 300; i++) many += std::string(1, (char) i) + Z("8/123\0s@x\0joe@local.example\0", 29); S.extras.push_back(B(many, "300 deliveries", {}, a)); }
  } else if (name == "report") {
    // qmail-lspawn / qmail-rspawn reading what qmail-local / qmail-remote printed (spawn.c), then truncating and classifying it
    S.prog = "qmail-rspawn"; S.uid = UID_QMAILR; S.gid = GID_QMAIL; S.cwd = "/var/qmail/queue/mess"; S.ok = {0, 111}; S.where = W_REPORT; S.alpha = Z("\0\xff\nKZDrhs ", 10);
    Base b = B(Z("rrecipient accepted\nhhost said\n\0Ksuccess: 250 ok\n\0", 50), "qmail-remote output"); b.subj = Z("rremote said 250\n\0Kaccepted message.\nRemote host said: 250 ok\n\0", 63); b.in0 = Z("\001" "8/123\0" "s@src.example\0" "r@remote.example\0", 39); S.bases = {b};
    for (size_t l : {0u, 1u, 4095u, 4096u, 4097u, 9999u, 10000u, 10001u, 70000u, 300000u}) for (const char *pre : {"", "K", "Z", "D", "r", "h"}) { Base x = b; x.subj = std::string(pre) + std::string(l, 'x'); x.note = std::string("report [") + pre + "] + " + std::to_string(l) + " bytes"; S.extras.push_back(x); x.subj += Z("\0", 1); x.note += " + NUL"; S.extras.push_back(x); }
  } else if (name == "newu") {
    S.prog = "qmail-newu"; S.uid = 0; S.gid = 0; S.ok = {0, 111}; S.where = W_FILE; S.target = "/var/qmail/users/assign"; S.alpha = Z(":\n.=+\0\xff-", 8);
    S.bases = { B("=joe:joe:507:100:/home/joe:::\n+joe-:joe:507:100:/home/joe:-::\n+:alias:7790:2108:/var/qmail/alias:-::\n.\n", "assign") };
    for (size_t l : {255u, 256u, 1000u, 70000u}) { S.extras.push_back(B("=" + std::string(l, 'k') + ":" + std::string(l, 'u') + ":1:2:" + std::string(l, '/') + ":::\n.\n", "fields of " + std::to_string(l) + " bytes")); S.extras.push_back(B("+" + std::string(l, 'k') + ":u:1:2:/h:" + std::string(l, '-') + ":" + std::string(l, 'e') + ":\n.\n", "wildcard fields of " + std::to_string(l) + " bytes")); }
    { std::string many; for (int i = 0; i < 5000; i++) many += "=u" + std::to_string(i) + ":u:1:2:/h:::\n"; S.extras.push_back(B(many + ".\n", "5000 lines")); }
  } else if (name == "pw2u") {
    S.prog = "qmail-pw2u"; S.uid = 0; S.gid = 0; S.ok = {0, 100, 111}; S.alpha = Z(":\n\0\xff-/", 6);
    S.bases = { B("root:x:0:0:root:/root:/bin/sh\njoe:x:507:100:Joe:/home/joe:/bin/sh\nJane-X:x:508:100::/home/jane:\nalias:x:7790:2108::/var/qmail/alias:/bin/true\n", "passwd", {}, {"-/", "-h"}), B("joe:x:507:100:Joe:/home/joe:/bin/sh\n", "passwd -o -c-", {}, {"-o", "-c-", "-C"}) };
    for (size_t l : {1000u, 70000u}) S.extras.push_back(B(std::string(l, 'u') + ":x:1:2:" + std::string(l, 'g') + ":" + std::string(l, '/') + ":\n", "fields of " + std::to_string(l) + " bytes", {}, {"-h"}));
  } else if (name == "ctl-smtpd" || name == "ctl-qmtpd" || name == "ctl-inject") {
    // control files as input: every single-point mutation of a typical content of each control file the program reads
    bool inj = name == "ctl-inject", mtp = name == "ctl-qmtpd";
    S.prog = inj ? "qmail-inject" : mtp ? "qmail-qmtpd" : "qmail-smtpd"; S.where = W_FILE; S.alpha = Z("\n\0\xff#:@. 09-", 12);
    if (inj) { S.ok = {0, 100, 111}; } else { S.uid = UID_QMAILD; S.gid = GID_NOFILES; S.ok = mtp ? std::set<int>{0, 100, 111} : std::set<int>{0, 1}; }
    std::vector<std::pair<std::string, std::string>> files = inj ? std::vector<std::pair<std::string, std::string>>{{"me", "mx.example\n"}, {"defaulthost", "dh\n"}, {"defaultdomain", "dd.example\n"}, {"plusdomain", "pd.example\n"}, {"idhost", "id.example\n"}}
      : mtp ? std::vector<std::pair<std::string, std::string>>{{"me", "mx.example\n"}, {"databytes", "100000\n"}, {"localiphost", "mx.example\n"}, {"rcpthosts", "a.example\n.d.example\n"}}
      : std::vector<std::pair<std::string, std::string>>{{"me", "mx.example\n"}, {"smtpgreeting", "mx.example ESMTP hello\n"}, {"localiphost", "mx.example\n"}, {"timeoutsmtpd", "1200\n"}, {"databytes", "100000\n"}, {"rcpthosts", "a.example\nb.example\n.d.example\n#c\n"}, {"badmailfrom", "bad@x.example\n@bad.example\n"}};
    std::string in0 = inj ? hdr_base(1) + "To: a+x, b@c+\n" : mtp ? ns("\n" + MSG) + ns("s@src.example") + ns(ns("r1@a.example") + ns("r2@[10.0.0.1]")) : smtp_base(0);
    for (auto &f : files) { Base b = B(f.second, "control/" + f.first, inj ? std::vector<std::string>{"USER=injector"} : peer); b.in0 = in0; b.path = "/var/qmail/control/" + f.first; S.bases.push_back(b);
      for (size_t l : {0u, 1u, 1000u, 70000u}) for (const char *fill : {"x", "\n", "9", ":", "#", "@"}) { Base x = b; x.subj = rep(fill, l); x.note = "control/" + f.first + " = " + std::to_string(l) + " x [" + esc(fill) + "]"; S.extras.push_back(x); x.subj += "\n"; S.extras.push_back(x); } }
  } else if (name == "maildirnames") {
    // qmail-pop3d over a maildir whose file names are hostile (names are chosen by whoever delivers)
    S.prog = "qmail-pop3d"; S.ok = {0, 1}; S.cwd = "/home/u"; S.where = W_FILE; S.target = "NAME"; S.alpha = Z(":,\xff 2S.-", 8); Base b = B("1000.2.host:2,S", "file name"); b.in0 = "STAT\r\nLIST\r\nUIDL\r\nRETR 1\r\nTOP 1 1\r\nDELE 1\r\nQUIT\r\n"; S.bases = {b};
    for (size_t l : {1u, 100u, 254u, 255u}) { Base x = b; x.subj = std::string(l, 'n'); x.note = "name of " + std::to_string(l) + " bytes"; S.extras.push_back(x); x.subj = std::string(l > 4 ? l - 4 : 1, 'n') + ":2,S"; x.note += " with info"; S.extras.push_back(x); }
  } else throw HarnessError{"unknown surface " + name};
  return S;
}

struct C20 : Scenario {
  const Config &cfg; Surface S; std::vector<Mut> muts; bool th; int mainpid = 0; std::shared_ptr<Sink> out; std::string casename, input; const Base *base = nullptr; Base exb; std::string report; int children = 0; std::map<int, size_t> child_off; std::set<int> child_seen;
  C20(const Config &c) : cfg(c) { th = c.geti("thorough"); S = make_surface(c.get("surface", "smtpd"), th); muts = mutations(S, th); }
  static size_t choose_big(World &w, size_t n) { size_t lo = 0, size = n; while (size > 1) { size_t span = 1; while (span * 240 < size) span *= 240; size_t cnt = (size + span - 1) / span; size_t d = (size_t) w.ex->choose_n((int) cnt, BK_FREE); lo += d * span; size = std::min(span, size - d * span); } return lo; }
  void setup(World &w) override {
    QmailEnv::build(w, cfg, true); Kernel &k = w.k; w.crash_soft = true; w.hang_ms = 5000; w.livelock_after = 200000;   /* 300000 identical input bytes are consumed in identical iterations */
    size_t idx = choose_big(w, muts.size() + S.extras.size()); std::string desc;
    if (idx < muts.size()) { base = &S.bases[muts[idx].base]; input = apply(S, muts[idx], &desc); casename = S.name + " [" + base->note + "] " + desc; }
    else { base = &S.extras[idx - muts.size()]; input = base->subj; casename = S.name + " [" + base->note + "]"; }
    w.crash_context = casename + ": [" + esc(input, 400) + "]";
    k.passwd.push_back({"u", 1000, 1000, "/home/u"}); k.passwd.push_back({"joe", 507, 100, "/home/joe"}); k.mkdir_p("/home/u", 0755, 1000, 1000); k.mkdir_p("/home/joe", 0755, 507, 100);
    k.put_file("/var/qmail/control/rcpthosts", "a.example\nb.example\n.d.example\n"); k.put_file("/var/qmail/control/databytes", "100000\n"); k.put_file("/var/qmail/control/locals", "local.example\n");
    w.exectab["/bin/sh"] = "@sh"; w.exectab["checker"] = "@checker"; w.exectab["/bin/checker"] = "@checker";
    if (S.name != "queue") w.exectab["/var/qmail/bin/qmail-queue"] = "@queue";
    if (S.name == "lspawn") { w.exectab["/var/qmail/bin/qmail-local"] = "@child"; w.exectab["qmail-local"] = "@child"; }
    if (S.name == "rspawn" || S.name == "report") { w.exectab["/var/qmail/bin/qmail-remote"] = "@child"; w.exectab["qmail-remote"] = "@child"; }
    if (S.name == "lspawn" || S.name == "rspawn" || S.name == "report") k.put_file(QmailEnv::messpath(123), MSG, 0644, UID_QMAILQ, GID_QMAIL);
    std::string in0 = base->in0, in1 = base->in1; std::vector<std::string> env = base->env, args = base->args;
    switch (S.where) {
      case W_STDIN: in0 = input; break;
      case W_FD1: in1 = input; break;
      case W_FILE: break;
      case W_ENV: env.push_back(S.target + "=" + input); break;
      case W_ARG: if ((int) args.size() > S.argi) args[S.argi] = input; break;
      case W_REPORT: report = input; break;
    }
    if (S.name == "pop3d" || S.name == "maildirnames") {
      for (auto d : {"new", "cur", "tmp"}) k.mkdir_p(std::string("/home/u/Maildir/") + d, 0700, 1000, 1000);
      std::string nm = S.name == "maildirnames" ? input : "1000.1.host:2,S"; for (auto &ch : nm) if (ch == '/' || ch == '\0') ch = '_'; if (nm.empty() || nm == "." || nm == "..") nm = "x"; if (nm.size() > 255) nm.resize(255);
      { int i1 = k.put_file("/home/u/Maildir/cur/" + nm, MSG, 0600, 1000, 1000), i2 = k.put_file("/home/u/Maildir/new/1001.2.host", "Subject: two\n\n.\n..\nlast line without newline", 0600, 1000, 1000); k.I(i1)->mtime = 999990000; k.I(i2)->mtime = 999990001; }   // only files older than "now" are listed
      args = {"Maildir"};
    }
    if (S.name == "popup") args = {"pop.example", "checker", "arg"};
    if (S.name == "dotqmail" || S.name == "localmsg") { k.put_file("/home/u/.qmail-ext", S.name == "dotqmail" ? input : base->in0, 0644, 1000, 1000); if (S.name == "localmsg") { in0 = input; } for (auto d : {"new", "cur", "tmp"}) k.mkdir_p(std::string("/home/u/Maildir/") + d, 0700, 1000, 1000); }
    if (S.name == "newu") k.put_file("/var/qmail/users/assign", input);
    if (!base->path.empty()) k.put_file(base->path, input);
    if (S.name == "pw2u") { k.mkdir_p("/var/qmail/users"); }
    std::map<int, int> fds; fds[0] = QmailEnv::preloaded_pipe(w, in0);
    if (S.prog == "qmail-local") { int ino = k.put_file(QmailEnv::messpath(124), in0, 0644, UID_QMAILQ, GID_QMAIL); int o = k.new_ofd(); k.ofds[o]->kind = K_FILE; k.ofds[o]->ino = ino; k.ofds[o]->flags = O_RDONLY; k.I(ino)->openrefs++; fds[0] = o; }   /* qmail-local rewinds its input */
    fds[1] = S.where == W_FD1 ? QmailEnv::preloaded_pipe(w, in1) : QmailEnv::sink(w, &out); fds[2] = QmailEnv::nullfd(w);
    std::vector<std::string> av = {S.prog}; for (auto &a : args) av.push_back(a);
    mainpid = w.spawn("/var/qmail/bin/" + S.prog, av, fds, S.uid, S.gid, S.cwd, env);
  }
  std::string script(World &, Proc &p) override {
    std::string a; int v; auto I = [&](int x) { v = x; a.append((char *) &v, 4); };
    if (p.standin == "queue") { I(VKA_READALL); I(0); I(VKA_READALL); I(1); I(VKA_EXIT); I(0); }
    else if (p.standin == "checker") { I(VKA_READALL); I(3); I(VKA_EXIT); I(0); }
    else if (p.standin == "child") {
      size_t &off = child_off[p.vpid]; if (!child_seen.count(p.vpid)) { child_seen.insert(p.vpid); children++; }
      std::string r = S.where == W_REPORT ? report : (children % 2 ? Z("K\0", 2) : std::string("Zdeferred\n"));
      if (off < r.size()) { size_t n = std::min<size_t>(60000, r.size() - off); I(VKA_WRITE); I(1); I((int) n); a += r.substr(off, n); off += n; }
      if (off < r.size()) I(VKA_ASK); else { I(VKA_EXIT); I(children % 3 == 0 ? 111 : 0); } }
    else { I(VKA_EXIT); I(0); }
    return a;
  }
  std::string qdata;
  void after_step(World &, Proc &p, const Step &st) override { if (p.standin == "queue" && st.op == VK_READ && st.ret > 0 && st.data && qdata.size() < 4000) qdata += *st.data; }
  void at_end(World &w) override {
    Proc *p = nullptr; for (auto &pp : w.procs) if (pp && pp->vpid == mainpid) p = pp.get();
    w.counters["cases"]++; w.counters["cases_" + S.name]++;
    int code = -1;
    if (!p || (p->st != P_ZOMBIE && p->st != P_REAPED)) { w.soft_violation("C20:no-exit:" + S.prog, casename + ": " + S.prog + " was still running when nothing could happen any more; input [" + esc(input, 300) + "]"); return; }
    if (p->status & 127) { w.counters["ended_by_signal"]++; code = 1000 + (p->status & 127); }   // crashes were reported by VK_FATAL already
    else { code = (p->status >> 8) & 255; if (!S.ok.count(code)) w.soft_violation("C20:exit:" + S.prog + ":" + std::to_string(code), casename + ": " + S.prog + " ended with undocumented exit code " + std::to_string(code) + "; input [" + esc(input, 300) + "]"); }
    w.counters["exit_" + std::to_string(code)]++; if (code != 0) w.counters["rejected_inputs"]++; else w.counters["accepted_inputs"]++;
    uint64_t h = fnvs(7, S.name); h = fnv(h, &code, sizeof code); if (out) h = fnvs(h, out->data.substr(0, 2000)); h = fnvs(h, qdata);
    for (const char *f : {"/var/qmail/users/cdb", "/home/u/Mailbox"}) if (w.k.exists(f)) h = fnvs(h, w.k.file(f)->data.substr(0, 4000));
    for (auto &t : w.k.listdir("/var/qmail/queue/todo")) h = fnvs(h, w.k.file("/var/qmail/queue/todo/" + t)->data.substr(0, 2000)); w.outcome_hash = h; w.description = casename + " -> exit " + std::to_string(code) + (out ? ", " + std::to_string(out->data.size()) + " bytes of output" : "");
  }
};
int main(int argc, char **argv) { return vk_main(argc, argv, [](const Config &c) -> Scenario * { return new C20(c); }, "c20"); }
