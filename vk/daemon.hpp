// Shared scenario base for everything that runs the real qmail-send + qmail-clean with controller-scripted
// spawners and a virtual clock (C02, C03, C04, C10, C14, C15, C16, C18c).  Monitors are switched on per run.
#pragma once
#include "qmailenv.hpp"
#include <cmath>
#include <deque>
namespace vk {

enum { TAG_LCMD = 1, TAG_LREP = 2, TAG_RCMD = 3, TAG_RREP = 4, TAG_LOG = 5, TAG_CLEANREQ = 6, TAG_CLEANREP = 7 };

struct MsgSpec { std::string name, sender; std::vector<std::string> rcpts; std::string body; int uid = 1000; };

static inline std::vector<MsgSpec> msg_catalogue() {
  std::vector<MsgSpec> v;
  auto B = [](const std::string &t) { return "Subject: " + t + "\n\nbody of " + t + "\n"; };
  v.push_back({"l1", "s1@src.example", {"la@a.com"}, B("l1"), 1000});
  v.push_back({"r1", "s2@src.example", {"ra@far.example"}, B("r1"), 1000});
  v.push_back({"l1r1", "s3@src.example", {"lb@a.com", "rb@far.example"}, B("l1r1"), 1000});
  v.push_back({"r2", "s4@src.example", {"rc@far.example", "rd@far2.example"}, B("r2"), 1000});
  v.push_back({"l3", "s5@src.example", {"lc@a.com", "ld@a.com", "le@a.com"}, B("l3"), 1000});
  v.push_back({"verp", "owner-@lists.example-@[]", {"lf@a.com", "rf@far.example"}, B("verp"), 1000});
  v.push_back({"empty", "", {"lg@a.com"}, B("empty-sender"), UID_QMAILS});
  v.push_back({"dbl", "#@[]", {"lh@a.com"}, B("double-bounce-sender"), UID_QMAILS});
  v.push_back({"l2", "s6@src.example", {"li@a.com", "lj@a.com"}, B("l2"), 1000});
  v.push_back({"l1b", "s7@src.example", {"lk@a.com"}, B("l1b"), 1000});
  v.push_back({"r1b", "s8@src.example", {"rk@far.example"}, B("r1b"), 1000});
  v.push_back({"v1", "s9@src.example", {"info@virt.example", "x@sub.virt.example"}, B("v1"), 1000});
  v.push_back({"mix5", "s11@src.example", {"ma@a.com", "mb@far.example", "mc@virt2.example", "md@virt.example", "me@A.COM"}, B("mix5"), 1000});
  v.push_back({"mix5b", "s12@src.example", {"na@far.example", "nb@a.com", "nc@FAR.example", "nd@virt2.example", "ne@far2.example"}, B("mix5b"), 1000});
  v.push_back({"l6", "s10@src.example", {"m1@a.com", "m2@a.com", "m3@a.com", "m4@a.com", "m5@a.com", "m6@a.com"}, B("l6"), 1000});
  return v;
}

struct Delivery { int chan, delnum; long msg; std::string sender, recip; long started; int serial; };
struct RcptState {
  std::string addr;          // as in the envelope
  std::string routed;        // address as it appears in delivery commands / channel files (after rewrite)
  int chan = -1;
  int attempts = 0; bool inflight = false; char final_report = 0;   // 'K', 'D' (incl. expired Z), 0 = none yet
  bool marked = false;       // a 'D' byte was written over its record
  bool ever_D = false;
  bool attempted_in_pass = false;
  bool awaiting_mark = false; // (unused) // reported K/D; the daemon's next mark write for this message/channel must cover this record
  std::string reason;
  int k_reports = 0;
  bool attempted_after_final = false;
};
struct MsgState { bool retry_not_persisted[2] = {false, false}; bool alrm_due[2] = {false, false};   /* deferred recipients waiting (none in flight) when an ALRM was sent */
  long num = 0; std::string sender; std::vector<RcptState> rc; bool is_bounce = false; long committed_at = 0; int injector_uid = 0;
  bool gone = false;         // info unlinked
  bool bounced = false;      // a bounce notice for it has been queued
  int eliminated_by = 0;     // pid of the qmail-send that unlinked info
  std::string body;
  long birth = 0;            // mtime of info/N
  long pass_started[2] = {0, 0}; long earliest_next[2] = {0, 0};   // C15: time the current/last pass began, earliest allowed next pass
  bool had_defer[2] = {false, false};
  bool pass_eof[2] = {false, false};         // the daemon has read end-of-file of the channel file in the current pass
  bool term_open_pass[2] = {false, false};   // TERM arrived while this channel's pass had unread recipients (known finding C15)
  bool preprocessed = false;
};

struct DaemonScenario : Scenario {
  const Config &cfg;
  std::set<std::string> mon;          // enabled monitors: C02 C03 C04 C10 C14 C15 C16
  std::vector<MsgSpec> tosend;        // messages still to inject (in order)
  std::string inject_mode;            // pre | seq | conc
  int conc_l = 2, conc_r = 2, announce = 120; long lifetime = 604800;
  int sendpid = 0, cleanpid = 0; int restarts = 0, max_restarts = 3; int ticks = 0, max_ticks = 60;
  std::shared_ptr<Pipe> cmd[2], rep[2]; std::shared_ptr<Sink> logsink;
  std::string cmdbuf[2];
  std::vector<Delivery> inflight; int serial = 0;
  size_t tick_pos = std::string::npos, tick_end = 0; int tick_cnt = 0;
  bool catchall = false;         // control/virtualdomains also has a catch-all entry and an exception
  int held_ticks = 0, burned = 0;
  int sigwait_held = 0;
  bool busysig = false, busysig_done = false;   // option busysig=1
  bool halfsleep = false;   // option halfsleep=1
  bool sigwait = false, sigwait_done = false;   // option sigwait=1
  int hups_since_start = 0;
  bool clockback = false, clock_was_set_back = false;   // option clockback=1
  bool queue_refusals = false;   // option queuerefuse=1: the bounce's queue program may exit 31 / 53 (alternatives())
  bool hupedit = false, config_b = false;   // C10: every HUP is preceded by an edit of locals/virtualdomains (far.example becomes local, virt2.example virtual) / back
  bool expect_leftovers = false; // failed or hung injections legitimately leave S2/S3 files that are collected after 36 hours
  bool mark_check_off = false;   // after an injected failure inside the daemon the report/mark alignment is unknown until it restarts
  std::deque<std::pair<long, std::string>> markfifo[2];   // K/D reports sent and not yet followed by the daemon's mark write, per channel
  std::map<long, MsgState> ledger;    // by queue number (current holder of the number)
  std::vector<MsgState> finished;     // messages that left the queue
  std::vector<int> injectors;         // live injector pids
  std::vector<int> own_injectors;     // every injector the scenario itself started (anything else that commits was started by the daemon)
  bool machine_crashed = false, data_lost = false, daemon_killed = false; bool term_sent = false;
  int events = 0; int reports_sent = 0; bool ended_clean = false; int faults_seen = 0;
  std::string history;                // human-readable event history
  int zero_selects = 0; bool last_was_zero_select = false;
  bool clock_frozen = false;          // C16: never advance the clock
  std::map<std::string, std::string> control;   // extra control files
  std::map<long, long> last_atime;    // atime of mess/N as last seen before removal (C02)

  DaemonScenario(const Config &c) : cfg(c) {
    std::string m = c.get("monitors", "C02,C03,C04,C15,C16"); size_t i = 0;
    while (i < m.size()) { size_t j = m.find(',', i); if (j == std::string::npos) j = m.size(); mon.insert(m.substr(i, j - i)); i = j + 1; }
    std::string ms = c.get("msgs", "l1"); auto cat = msg_catalogue(); i = 0;
    while (i < ms.size()) { size_t j = ms.find('+', i); if (j == std::string::npos) j = ms.size(); std::string n = ms.substr(i, j - i); for (auto &x : cat) if (x.name == n) tosend.push_back(x); i = j + 1; }
    inject_mode = c.get("inject", "seq");
    conc_l = c.geti("concl", 2); conc_r = c.geti("concr", 2); announce = c.geti("announce", 120); lifetime = c.geti("lifetime", 604800);
    catchall = c.geti("catchall", 0); hupedit = c.geti("hupedit", 0); queue_refusals = c.geti("queuerefuse", 0); clockback = c.geti("clockback", 0); sigwait = c.geti("sigwait", 0); halfsleep = c.geti("halfsleep", 0); busysig = c.geti("busysig", 0);
    max_ticks = c.geti("maxticks", 60); max_restarts = c.geti("maxrestarts", 3); clock_frozen = c.geti("frozenclock", 0);
  }
  bool M(const char *m) { return mon.count(m) > 0; }

  // ------------------------------------------------------------------ setup
  virtual void extra_setup(World &) {}
  void setup(World &w) override {
    QmailEnv::build(w, cfg);
    Kernel &k = w.k;
    write_routing_controls(w);
    if (cfg.geti("bouncectl", 0)) {
      bouncefrom = "bouncer"; bouncehost = "bh.example"; doublebounceto = "dbl-catcher@dbh.example";
      k.put_file("/var/qmail/control/bouncefrom", "bouncer\n"); k.put_file("/var/qmail/control/bouncehost", "bh.example\n");
      k.put_file("/var/qmail/control/doublebounceto", "dbl-catcher\n"); k.put_file("/var/qmail/control/doublebouncehost", "dbh.example\n");
    }
    k.put_file("/var/qmail/control/concurrencylocal", std::to_string(conc_l) + "\n");
    k.put_file("/var/qmail/control/concurrencyremote", std::to_string(conc_r) + "\n");
    k.put_file("/var/qmail/control/queuelifetime", std::to_string(lifetime) + "\n");
    for (auto &c : control) k.put_file("/var/qmail/control/" + c.first, c.second);
    extra_setup(w);
    if (inject_mode == "pre") { for (auto &m : tosend) preinject(w, m); tosend.clear(); }
  }

  // place a message directly in state S4 (as a finished qmail-queue would have left it)
  void preinject(World &w, const MsgSpec &m) {
    Kernel &k = w.k;
    int ino = k.mknode(T_REG, 0644, UID_QMAILQ, GID_QMAIL); Inode *f = k.I(ino); f->nlink = 1;
    f->data = QmailEnv::received_line(99, m.uid) + m.body; f->synced = f->data; f->ever_synced = true;
    k.I(k.lookup(k.root, "/var/qmail/queue/mess/" + std::to_string(ino % SPLIT)))->ent[std::to_string(ino)] = ino;
    std::string env = "u" + std::to_string(m.uid) + '\0' + "p99" + '\0' + "F" + m.sender + '\0'; for (auto &r : m.rcpts) env += "T" + r + '\0';
    int e = k.put_file("/var/qmail/queue/intd/" + std::to_string(ino), env, 0644, UID_QMAILQ, GID_QMAIL);
    k.I(k.lookup(k.root, "/var/qmail/queue/todo"))->ent[std::to_string(ino)] = e; k.I(e)->nlink = 2;
    accept(w, ino, m.uid);
  }

  void start_daemon(World &w) {
    Kernel &k = w.k; pending_tail[0].clear(); pending_tail[1].clear(); hups_since_start = 0;
    int lc_r, lc_w, lr_r, lr_w, rc_r, rc_w, rr_r, rr_w, qc_r, qc_w, cq_r, cq_w;
    k.make_pipe(&lc_r, &lc_w); k.make_pipe(&lr_r, &lr_w); k.make_pipe(&rc_r, &rc_w); k.make_pipe(&rr_r, &rr_w); k.make_pipe(&qc_r, &qc_w); k.make_pipe(&cq_r, &cq_w);
    // the controller is the spawner: it holds the read ends of the command pipes and the write ends of the report pipes
    k.ofd_ref(lc_r); k.ofd_ref(lr_w); k.ofd_ref(rc_r); k.ofd_ref(rr_w);
    cmd[0] = k.ofds[lc_r]->pipe; rep[0] = k.ofds[lr_w]->pipe; cmd[1] = k.ofds[rc_r]->pipe; rep[1] = k.ofds[rr_w]->pipe;
    k.ofds[lc_w]->tag = TAG_LCMD; k.ofds[lr_r]->tag = TAG_LREP; k.ofds[rc_w]->tag = TAG_RCMD; k.ofds[rr_r]->tag = TAG_RREP; k.ofds[qc_w]->tag = TAG_CLEANREQ; k.ofds[cq_r]->tag = TAG_CLEANREP;
    rep[0]->buf.push_back((char) announce); rep[1]->buf.push_back((char) announce);
    int lg = QmailEnv::sink(w, &logsink); k.ofds[lg]->tag = TAG_LOG;
    cmdbuf[0].clear(); cmdbuf[1].clear(); inflight.clear(); markfifo[0].clear(); markfifo[1].clear(); mark_check_off = false;
    std::map<int, int> cf; cf[0] = qc_r; cf[1] = cq_w; cf[2] = QmailEnv::nullfd(w);
    cleanpid = w.spawn("/var/qmail/bin/qmail-clean", {"qmail-clean"}, cf, UID_QMAILQ, GID_QMAIL, "/");
    w.run_until_blocked(cleanpid);   // its start-up is independent of everything else: no scheduling choice needed
    std::map<int, int> sf; sf[0] = lg; sf[1] = lc_w; sf[2] = lr_r; sf[3] = rc_w; sf[4] = rr_r; sf[5] = qc_w; sf[6] = cq_r;
    sendpid = w.spawn("/var/qmail/bin/qmail-send", {"qmail-send"}, sf, UID_QMAILS, GID_QMAIL, "/");
    term_sent = false; w.cur = sendpid; clamp_checked = false; alarm_check_pending = false;
    w.counters["daemon_starts"]++;
  }
  int start_injector(World &w, const MsgSpec &m) {
    if (cfg.geti("bucket", -1) >= 0) {   // message numbers are inode numbers: occupy free numbers until the next one is == bucket (mod split)
      Kernel &k = w.k; int want = cfg.geti("bucket", 0) % SPLIT; k.mkdir_p("/burn", 0755, 0, 0);
      for (int i = 0; i < 3 * SPLIT && k.alloc_ino() % SPLIT != want; i++) k.put_file("/burn/" + std::to_string(burned++), "", 0600, 0, 0);
    }
    std::string env = "F" + m.sender + '\0'; for (auto &r : m.rcpts) env += "T" + r + '\0'; env += '\0';
    std::map<int, int> fds; fds[0] = QmailEnv::preloaded_pipe(w, m.body); fds[1] = QmailEnv::preloaded_pipe(w, env); fds[2] = QmailEnv::nullfd(w);
    int pid = w.spawn("/var/qmail/bin/qmail-queue", {"qmail-queue"}, fds, m.uid, GID_QMAIL, "/");
    injectors.push_back(pid); own_injectors.push_back(pid); w.counters["injections"]++;
    return pid;
  }
  Proc *proc(World &w, int pid) { for (auto &pp : w.procs) if (pp && pp->vpid == pid && pp->st != P_REAPED) return pp.get(); return nullptr; }
  bool alive(World &w, int pid) { Proc *p = proc(w, pid); return p && p->st == P_PENDING; }

  void write_routing_controls(World &w) {
    Kernel &k = w.k;
    k.put_file("/var/qmail/control/locals", std::string("a.com\n") + (config_b ? "far.example\n" : ""));
    k.put_file("/var/qmail/control/virtualdomains", std::string("virt.example:vuser\n.virt.example:vsub\n") + (config_b ? "virt2.example:v2\n" : "") + (catchall ? ":catchall\nfar2.example:\n" : ""));
  }
  // ------------------------------------------------------------------ ledger
  static std::vector<std::string> split0(const std::string &s) { std::vector<std::string> v; size_t i = 0; while (i < s.size()) { size_t j = s.find('\0', i); if (j == std::string::npos) break; v.push_back(s.substr(i, j - i)); i = j + 1; } return v; }
  virtual std::string route(const std::string &rcpt, int *chan) {   // model of the scenario's fixed configuration (locals a.com; two virtual domains)
    size_t at = rcpt.rfind('@'); std::string dom = at == std::string::npos ? "me.example" : rcpt.substr(at + 1); std::string a = at == std::string::npos ? rcpt + "@me.example" : rcpt;
    for (auto &ch : dom) ch = tolower((unsigned char) ch);   // matching ignores case; the address itself is kept as written
    if (dom == "a.com") { *chan = 0; return a; }
    if (config_b && dom == "far.example") { *chan = 0; return a; }
    if (config_b && dom == "virt2.example") { *chan = 0; return "v2-" + a; }
    if (dom == "virt.example") { *chan = 0; return "vuser-" + a; }
    if (dom.size() > 13 && dom.compare(dom.size() - 13, 13, ".virt.example") == 0) { *chan = 0; return "vsub-" + a; }
    if (catchall && dom != "far2.example") { *chan = 0; return "catchall-" + a; }   // ":catchall" entry; "far2.example:" is the documented exception
    *chan = 1; return a;
  }
  void accept(World &w, long num, int uid, bool by_daemon = false) {
    Inode *t = w.k.file(QmailEnv::qpath("todo", num, false)); if (!t) return;
    MsgState ms; ms.num = num; ms.committed_at = w.k.clock; ms.injector_uid = uid;
    for (auto &rec : split0(t->data)) { if (rec.empty()) continue; if (rec[0] == 'F') ms.sender = rec.substr(1); else if (rec[0] == 'T') { RcptState r; r.addr = rec.substr(1); r.routed = route(r.addr, &r.chan); ms.rc.push_back(r); } }
    Inode *m = w.k.file(QmailEnv::messpath(num)); if (m) ms.body = m->data;
    ms.is_bounce = (by_daemon && uid == UID_QMAILS && (ms.sender.empty() || ms.sender == "#@[]") && ms.body.find("Hi. This is the qmail-send program") != std::string::npos);
    auto it = ledger.find(num);
    if (it != ledger.end() && !it->second.gone && M("C02")) w.violation("C02:number-shared:" + std::to_string(num), "message number " + std::to_string(num) + " was given to a new message while the previous holder is still in the queue");
    if (ms.is_bounce && M("C14")) check_bounce(w, ms);
    if (by_daemon && !ms.is_bounce && M("C14")) w.violation("C14:daemon-injected-non-bounce", "qmail-send queued a message that is not a bounce notice: sender [" + ms.sender + "]");
    ledger[num] = ms;
    w.counters[ms.is_bounce ? "bounces_queued" : "messages_accepted"]++;
  }
  MsgState *find_msg(long num) { auto it = ledger.find(num); return it == ledger.end() ? nullptr : &it->second; }
  RcptState *find_rcpt(MsgState &m, const std::string &routed, int chan) { for (auto &r : m.rc) if (r.routed == routed && r.chan == chan) return &r; return nullptr; }

  // all bounce notices queued so far (committed), for "named with its reason in a bounce"
  bool named_in_bounce(const std::string &addr, const std::string &reason, bool need_reason) {
    auto look = [&](const MsgState &b) { if (!b.is_bounce) return false; size_t p = b.body.find("<" + addr + ">:\n"); if (p == std::string::npos) return false; if (!need_reason || reason.empty()) return true; return b.body.find(reason.substr(0, reason.find('\n')), p) != std::string::npos; };
    for (auto &kv : ledger) if (look(kv.second)) return true;
    for (auto &b : finished) if (look(b)) return true;
    return false;
  }

  // ------------------------------------------------------------------ C14: bounce notices
  std::string bouncefrom = "MAILER-DAEMON", bouncehost = "me.example", doublebounceto = "postmaster@me.example";   // defaults; bouncectl=1 sets all four control files
  static std::string base_sender(const std::string &s) { if (s.size() >= 4 && s.compare(s.size() - 4, 4, "-@[]") == 0) return s.substr(0, s.size() - 4); return s; }
  void check_bounce(World &w, MsgState &b) {
    w.counters["bounce_notices_checked"]++;
    // which original does it belong to?  The failed recipients' addresses are unique across the scenario.
    size_t intro_end = b.body.find("\n\n", b.body.find("Hi. This is the qmail-send program"));
    size_t below = b.body.find("--- Below this line is ");
    // the real end of the paragraph region is the LAST "--- Below" marker that is followed by the copy of the original: search from the
    // recipient paragraphs' own structure instead: every paragraph starts with '<'
    if (intro_end == std::string::npos || below == std::string::npos) { w.violation("C14:notice-format", "bounce notice lacks the documented structure"); return; }
    MsgState *orig = nullptr; std::vector<MsgState *> cands;
    for (auto &kv : ledger) if (!kv.second.gone) cands.push_back(&kv.second);
    // the original is the (unique) message all of whose recipients are finished and that has D-final recipients not yet named in an earlier bounce
    // pass 0: messages not yet bounced; pass 1 (only after a failed call or a crash, when the daemon legitimately sends a notice again: at-least-once,
    // like deliveries after a crash): messages already bounced, if the envelope fits them
    for (int pass = 0; pass < 2 && !orig; pass++) {
      if (pass == 1 && !(faults_seen > 0 || machine_crashed || daemon_killed)) break;
      for (auto *m : cands) { bool anyD = false, alldone = true; for (auto &r : m->rc) { if (r.final_report == 'D') anyD = true; if (!r.final_report && !r.marked) alldone = false; }
        if (!(anyD && alldone) || (pass == 0) == m->bounced) continue;
        if (pass == 1 && b.sender != (m->sender.empty() ? "#@[]" : "")) continue;
        bool named = false; for (auto &r : m->rc) if (r.final_report == 'D' && b.body.find("<" + r.addr + ">:\n") != std::string::npos) named = true;
        if (named) { orig = m; break; } } }
    if (!orig) { if (!machine_crashed && !daemon_killed) w.violation("C14:bounce-without-failed-recipient", "a bounce notice was queued that names no permanently failed recipient of any message in the queue: envelope sender [" + b.sender + "] to [" + (b.rc.empty() ? "" : b.rc[0].addr) + "]"); return; }
    orig->bounced = true;
    bool isdouble = orig->sender.empty();
    // envelope
    std::string want_sender = isdouble ? "#@[]" : "", want_rcpt = isdouble ? doublebounceto : base_sender(orig->sender);
    if (orig->sender == "#@[]") { w.violation("C14:bounce-of-double-bounce", "a failing double bounce (sender #@[]) produced yet another notice: bounce loop"); return; }
    if (b.sender != want_sender || b.rc.size() != 1 || b.rc[0].addr != want_rcpt) { w.violation("C14:bounce-envelope:" + orig->sender, "bounce for a message from [" + orig->sender + "] was queued with envelope sender [" + b.sender + "] recipient [" + (b.rc.empty() ? "" : b.rc[0].addr) + "]; documented: sender [" + want_sender + "] recipient [" + want_rcpt + "]"); return; }
    // header: From the configured bounce address, To the notice's recipient
    { size_t he = b.body.find("\n\n"); std::string hdr = "\n" + b.body.substr(0, he == std::string::npos ? 0 : he + 1);
      if (hdr.find("\nFrom: " + bouncefrom + "@" + bouncehost + "\n") == std::string::npos) { w.violation("C14:notice-from", "bounce notice is not From: " + bouncefrom + "@" + bouncehost + " (bouncefrom/bouncehost): [" + esc(hdr, 200) + "]"); return; }
      if (hdr.find("\nTo: " + want_rcpt + "\n") == std::string::npos && want_rcpt.find_first_of(" \"\\()<>") == std::string::npos) { w.violation("C14:notice-to", "bounce notice header does not say To: " + want_rcpt + ": [" + esc(hdr, 200) + "]"); return; } }
    // paragraphs: between the intro and the copy of the original message
    std::string copy_marker = isdouble ? "--- Below this line is the original bounce.\n\n" : "--- Below this line is a copy of the message.\n\n";
    std::string tail = copy_marker + "Return-Path: <" + base_sender(orig->sender) + ">\n" + orig->body;
    if (b.body.size() < tail.size() || b.body.compare(b.body.size() - tail.size(), tail.size(), tail) != 0) { if (orig->sender.find_first_of(" \"") == std::string::npos) { w.violation("C14:original-not-appended", "bounce notice does not end with the marker line, Return-Path and the original message"); return; } }
    size_t region_end = b.body.size() - tail.size();
    std::string region = b.body.substr(intro_end + 2, region_end > intro_end + 2 ? region_end - intro_end - 2 : 0);
    std::vector<std::string> paras; size_t i = 0;
    while (i < region.size()) { size_t j = region.find("\n\n", i); if (j == std::string::npos) { paras.push_back(region.substr(i)); break; } paras.push_back(region.substr(i, j - i)); i = j + 2; }
    std::vector<std::string> failed; for (auto &r : orig->rc) if (r.final_report == 'D') failed.push_back(r.addr);
    bool lost = data_lost;
    std::set<std::string> seen;
    for (auto &pg : paras) {
      if (pg.empty()) { w.violation("C14:empty-paragraph", "bounce notice contains an empty paragraph inside the recipient list"); return; }
      size_t e = pg.find(">:\n"); std::string addr = (pg[0] == '<' && e != std::string::npos) ? pg.substr(1, e - 1) : std::string();
      bool isfailed = std::find(failed.begin(), failed.end(), addr) != failed.end();
      if (!isfailed && (machine_crashed || daemon_killed)) for (auto &r : orig->rc) if (r.addr == addr && r.ever_D) isfailed = true;   // a paragraph written before the crash survives; the retry may have succeeded
      if (!isfailed) { w.violation("C14:forged-paragraph", "bounce notice contains a paragraph that does not belong to a failed recipient of the message: [" + esc(pg, 80) + "] (failure text was able to forge a recipient paragraph)"); return; }
      if (seen.count(addr) && !(machine_crashed || daemon_killed)) { w.violation("C14:recipient-named-twice", "recipient " + addr + " occupies more than one paragraph of the notice"); return; }
      seen.insert(addr);
    }
    if (!lost) for (auto &f : failed) if (!seen.count(f)) { w.violation("C14:failed-recipient-not-named", "permanently failed recipient " + f + " is not named in the bounce notice"); return; }
    w.counters[isdouble ? "double_bounces_checked" : "single_bounces_checked"]++;
  }

  // ------------------------------------------------------------------ queue state table (C02)
  void check_qstate(World &w, const char *when) {
    Kernel &k = w.k; std::set<long> nums;
    auto scan = [&](const std::string &dir, bool split) { if (split) { for (int d = 0; d < SPLIT; d++) for (auto &n : k.listdir(dir + "/" + std::to_string(d))) { long v = atol(n.c_str()); nums.insert(v); if (v % SPLIT != d) w.violation("C02:wrong-bucket", std::string(when) + ": " + dir + "/" + std::to_string(d) + "/" + n + " is in the wrong split directory"); } } else for (auto &n : k.listdir(dir)) nums.insert(atol(n.c_str())); };
    scan("/var/qmail/queue/mess", true); scan("/var/qmail/queue/info", true); scan("/var/qmail/queue/local", true); scan("/var/qmail/queue/remote", true);
    scan("/var/qmail/queue/intd", false); scan("/var/qmail/queue/todo", false); scan("/var/qmail/queue/bounce", false);
    for (long n : nums) {
      Inode *me = k.file(QmailEnv::messpath(n));
      bool mess = me != nullptr, intd = k.exists(QmailEnv::qpath("intd", n, false)), todo = k.exists(QmailEnv::qpath("todo", n, false)), info = k.exists(QmailEnv::qpath("info", n, true)),
           loc = k.exists(QmailEnv::qpath("local", n, true)), rem = k.exists(QmailEnv::qpath("remote", n, true)), bnc = k.exists(QmailEnv::qpath("bounce", n, false));
      int S = 0;
      if (mess && !intd && !todo && !info && !loc && !rem && !bnc) S = 2;
      else if (mess && intd && !todo && !info && !loc && !rem && !bnc) S = 3;
      else if (mess && todo && !bnc) S = 4;
      else if (mess && !intd && !todo && info) S = 5;
      if (!S) {
        char b[200]; snprintf(b, sizeof b, "%cmess %cintd %ctodo %cinfo %clocal %cremote %cbounce", mess ? '+' : '-', intd ? '+' : '-', todo ? '+' : '-', info ? '+' : '-', loc ? '+' : '-', rem ? '+' : '-', bnc ? '+' : '-');
        w.violation(std::string("C02:undocumented-state:") + b, std::string(when) + ": message " + std::to_string(n) + " is in state [" + b + "], not one of S1-S5 of INTERNALS.md"); return;
      }
      if (me && me->ino != n) { w.violation("C02:inode-mismatch", std::string(when) + ": mess file named " + std::to_string(n) + " has inode " + std::to_string(me->ino)); return; }
      w.counters["qstate_S" + std::to_string(S)]++;
    }
  }

  // ------------------------------------------------------------------ command parsing (spawner side)
  void drain_commands(World &w, int c) {
    if (!cmd[c]) return;
    cmdbuf[c] += cmd[c]->buf; cmd[c]->buf.clear();
    for (;;) {
      if (cmdbuf[c].size() < 2) return;
      size_t a = cmdbuf[c].find('\0', 1); if (a == std::string::npos) return;
      size_t b = cmdbuf[c].find('\0', a + 1); if (b == std::string::npos) return;
      size_t e = cmdbuf[c].find('\0', b + 1); if (e == std::string::npos) return;
      Delivery d; d.chan = c; d.delnum = (unsigned char) cmdbuf[c][0]; std::string mid = cmdbuf[c].substr(1, a - 1); d.sender = cmdbuf[c].substr(a + 1, b - a - 1); d.recip = cmdbuf[c].substr(b + 1, e - b - 1);
      size_t sl = mid.find('/'); d.msg = atol(mid.substr(sl == std::string::npos ? 0 : sl + 1).c_str()); d.started = w.k.clock; d.serial = ++serial;
      cmdbuf[c].erase(0, e + 1);
      on_command(w, d);
      inflight.push_back(d);
    }
  }
  virtual void on_command(World &w, Delivery &d) {
    w.counters[d.chan ? "remote_attempts" : "local_attempts"]++;
    MsgState *m = find_msg(d.msg);
    std::string who = "delivery command (chan " + std::to_string(d.chan) + " slot " + std::to_string(d.delnum) + " msg " + std::to_string(d.msg) + " to " + d.recip + ")";
    if (!m || m->gone) { if (M("C04")) w.violation("C04:command-for-unknown-message", who + " names a message that is not in the queue"); return; }
    RcptState *r = find_rcpt(*m, d.recip, d.chan);
    if (!r) { if (M("C10")) w.violation("C10:misrouted:" + d.recip, who + ": no accepted recipient of that message is routed to this channel with this address"); else if (M("C04")) w.violation("C04:command-for-unknown-recipient", who + " does not correspond to an accepted recipient"); return; }
    if (M("C04")) {
      for (auto &o : inflight) if (o.chan == d.chan && o.delnum == d.delnum) { w.violation("C04:slot-reused", who + " re-uses a delivery slot that is still in flight"); return; }
      if (r->inflight) { w.violation("C04:two-attempts-in-flight", who + ": an attempt for this recipient is already outstanding"); return; }
      int out = 0; for (auto &o : inflight) if (o.chan == d.chan) out++;
      int lim = std::min(d.chan ? conc_r : conc_l, announce);
      if (out + 1 > lim) { w.violation("C04:concurrency-exceeded", who + ": " + std::to_string(out + 1) + " outstanding attempts on the channel, limit min(configured,announced) = " + std::to_string(lim)); return; }
      // the record must be T (not done) in the current file image
      Inode *f = w.k.file(QmailEnv::qpath(d.chan ? "remote" : "local", d.msg, true));
      bool isT = false, found = false;
      if (f) { size_t i = 0; while (i < f->data.size()) { size_t j = f->data.find('\0', i); if (j == std::string::npos) break; if (f->data.compare(i + 1, j - i - 1, d.recip) == 0) { found = true; if (f->data[i] == 'T') isT = true; } i = j + 1; } }
      if (!found || !isT) { w.violation("C04:retry-of-finished-recipient", who + ": its record is " + (found ? "marked done (D)" : "absent") + " in the recipient list on disk, yet a new attempt was started"); return; }
      if (r->final_report && !machine_crashed && !daemon_killed) { w.violation("C04:retry-after-final-report", who + ": this recipient was already reported " + std::string(1, r->final_report) + " and no crash happened"); return; }
    }
    check_schedule_on_command(w, *m, d);
    r->attempts++; r->inflight = true; r->attempted_in_pass = true;
    if (d.sender != expected_sender(*m, *r) && M("C10")) w.violation("C10:sender-field:" + m->sender, who + ": sender field is [" + d.sender + "], documented [" + expected_sender(*m, *r) + "]");
  }
  std::string expected_sender(const MsgState &m, const RcptState &r) {
    const std::string &s = m.sender;
    if (s.size() >= 4 && s.compare(s.size() - 4, 4, "-@[]") == 0) { size_t j = s.rfind('@', s.size() - 5); size_t k2 = r.routed.rfind('@'); if (j != std::string::npos && k2 != std::string::npos) return s.substr(0, j) + r.routed.substr(0, k2) + "=" + r.routed.substr(k2 + 1) + "@" + s.substr(j + 1, s.size() - 5 - j); }
    return s;
  }

  // ------------------------------------------------------------------ C15: schedule
  static long isqrt(long x) { long r = (long) std::sqrt((double) x); while (r * r > x) r--; while ((r + 1) * (r + 1) <= x) r++; return r; }
  void check_schedule_on_command(World &w, MsgState &m, Delivery &d) {
    int c = d.chan; long now = w.k.clock;
    if (m.pass_started[c] == 0 || now > m.pass_started[c]) {
      // a new pass for (message, channel) begins now
      if (!M("C15")) { }
      else if (m.retry_not_persisted[c]) { }   // the utimes() that records the retry time failed (injected): the next incarnation cannot know it
      else if (m.had_defer[c] && m.earliest_next[c] && now < m.earliest_next[c] && !alarm_since[c] && m.term_open_pass[c])
        w.soft_violation("C15:retried-too-early:after-TERM-during-open-pass", "message " + std::to_string(m.num) + " chan " + std::to_string(c) + ": TERM arrived while its pass was still open (recipients not yet read), so the job was never closed and pqfinish did not persist the retry time; after the clean restart the deferred recipient is retried at " + std::to_string(now) + ", earlier than its back-off time " + std::to_string(m.earliest_next[c]) + "; history:" + history);
      else if (m.had_defer[c] && m.earliest_next[c] && now < m.earliest_next[c] && !alarm_since[c] && !restarted_since(m, c))
        w.violation("C15:retried-too-early", "message " + std::to_string(m.num) + " chan " + std::to_string(c) + " retried at " + std::to_string(now) + ", earlier than its back-off time " + std::to_string(m.earliest_next[c]) + " (birth " + std::to_string(m.birth) + ")");
      m.pass_started[c] = now; m.had_defer[c] = false; m.term_open_pass[c] = false; m.pass_eof[c] = false; for (auto &r : m.rc) if (r.chan == c) r.attempted_in_pass = false;
      long age = now > m.birth ? now - m.birth : 0; long n = isqrt(age) + (c ? 20 : 10);
      m.earliest_next[c] = m.birth + n * n;
      w.counters["passes_started"]++;
    }
  }
  bool alarm_since[2] = {false, false}; bool alarm_check_pending = false;
  std::map<std::pair<long, int>, int> restart_marks;
  bool restarted_since(MsgState &, int) { return false; }

  // ------------------------------------------------------------------ reports (spawner -> daemon)
  int tail_hold[2] = {0, 0};   // > 0: the rest of the report is held back until a report of the other channel has been delivered
  std::string pending_tail[2];   // the rest of a report that arrives in two pieces (flushed at the next quiescent point, before anything else happens)
  void send_report(World &w, size_t idx, char verdict, const std::string &text, size_t cut = 0) {
    Delivery d = inflight[idx]; inflight.erase(inflight.begin() + idx);
    std::string r; r.push_back((char) d.delnum); r.push_back(verdict); r += text; r.push_back('\0');
    if (cut > 0 && cut < r.size()) { rep[d.chan]->buf += r.substr(0, cut); pending_tail[d.chan] += r.substr(cut); w.counters["reports_in_two_pieces"]++; } else rep[d.chan]->buf += r;
    reports_sent++;
    MsgState *m = find_msg(d.msg); RcptState *rc = m ? find_rcpt(*m, d.recip, d.chan) : nullptr;
    if (rc) {
      rc->inflight = false;
      bool dying = (d.started > m->birth + lifetime);
      if (verdict == 'K') { rc->final_report = 'K'; rc->k_reports++; markfifo[d.chan].push_back({d.msg, rc->routed}); }
      else if (verdict == 'D') { rc->final_report = 'D'; rc->ever_D = true; rc->reason = text; markfifo[d.chan].push_back({d.msg, rc->routed}); }
      else if (verdict == 'Z') { if (dying) { rc->final_report = 'D'; rc->ever_D = true; rc->reason = text; markfifo[d.chan].push_back({d.msg, rc->routed}); w.counters["expired_deferrals"]++; } else if (m) m->had_defer[d.chan] = true; }
      else if (m) m->had_defer[d.chan] = true;   // garbage is a deferral
    }
    w.counters[std::string("reports_") + (verdict == 'K' || verdict == 'Z' || verdict == 'D' ? std::string(1, verdict) : "garbage")]++;
    history += std::string(" ") + (d.chan ? "R" : "L") + std::to_string(d.delnum) + ":" + d.recip + "=" + verdict;
  }
  void send_raw_report(int chan, const std::string &bytes) { rep[chan]->buf += bytes; }

  // ------------------------------------------------------------------ step monitors
  void after_step(World &w, Proc &p, const Step &st) override {
    if (st.sigraised == SIGALRM && busysig && p.vpid == sendpid) { busysig_done = true; history += " ALRM(while busy)"; w.counters["signal_ALRM"]++; w.counters["alrm_while_busy"]++; note_signal(w, 1); return; }
    if (st.sigraised == -1 && sigwait) { sigwait_done = true; sigwait_held = p.vpid; return; }   // the bounce's queue program has closed its descriptors but not exited yet; at the next quiescent point (the daemon now waits for it) a HUP arrives
    if (st.sigraised == SIGHUP && hupedit) { config_b = !config_b; write_routing_controls(w); history += config_b ? " EDIT+HUP-during-reread(far.example local, virt2.example virtual)" : " EDIT+HUP-during-reread(back)"; w.counters["control_edits"]++; w.counters["hup_during_reread"]++; return; }
    if (st.op == VK_WRITE && (st.tag == TAG_LCMD || st.tag == TAG_RCMD) && st.ret > 0) drain_commands(w, st.tag == TAG_LCMD ? 0 : 1);
    if (st.injected && st.err && p.vpid == sendpid) { markfifo[0].clear(); markfifo[1].clear(); mark_check_off = true; }   // a mark may not get written: alignment is lost
    if (st.injected && st.err) { faults_seen++; w.counters["faults_injected"]++; history += " FAULT(" + opname(st.op) + " " + st.path + ")";
      if (p.vpid == cleanpid) expect_leftovers = true;
      if (st.op == VK_UTIMES) { int c = st.path.compare(0, 6, "local/") == 0 ? 0 : st.path.compare(0, 7, "remote/") == 0 ? 1 : -1; size_t sl = st.path.rfind('/'); if (c >= 0 && sl != std::string::npos) { MsgState *mm = find_msg(atol(st.path.c_str() + sl + 1)); if (mm) mm->retry_not_persisted[c] = true; } } }   // a file the cleaner could not remove is a documented leftover: collected once it is 36 hours old
    if (w.aborted) return;
    bool fsop = (st.op == VK_LINK || st.op == VK_UNLINK || st.op == VK_RENAME || st.op == VK_OPEN || st.op == VK_KILL);
    if (st.op == VK_LINK && st.ret == 0 && st.path2.compare(0, 5, "todo/") == 0) { accept(w, atol(st.path2.c_str() + 5), p.uid, std::find(own_injectors.begin(), own_injectors.end(), p.vpid) == own_injectors.end()); if (M("C01")) check_commit(w, atol(st.path2.c_str() + 5)); }
    if (M("C02") && fsop && st.ret >= 0) check_qstate(w, ("after " + opname(st.op) + " " + st.path + " by " + p.name.substr(p.name.rfind('/') + 1)).c_str());
    if (p.vpid == sendpid) {
      if (st.op == VK_WRITE && st.kind == K_FILE && st.ret == 1 && st.data && *st.data == "D") on_mark(w, st);
      if (st.op == VK_UNLINK && st.ret == 0) on_send_unlink(w, st);
      if (st.op == VK_OPEN && st.ret >= 0 && (st.a[0] & O_CREAT) && st.path.compare(0, 5, "info/") == 0) { long n = atol(st.path.c_str() + st.path.rfind('/') + 1); MsgState *m = find_msg(n); if (m) m->birth = w.k.clock; }
      if (st.op == VK_STAT && st.ret == 0 && st.path.compare(0, 5, "mess/") == 0) { Inode *mi = w.k.I(st.ino); if (mi) last_atime[atol(st.path.c_str() + st.path.rfind('/') + 1)] = mi->atime; }
      if (st.op == VK_READ && st.kind == K_FILE && st.ret == 0) { for (auto &kv : ledger) for (int c = 0; c < 2; c++) { Inode *f = w.k.file(QmailEnv::qpath(c ? "remote" : "local", kv.first, true)); if (f && f->ino == st.ino) kv.second.pass_eof[c] = true; } }
      if (st.op == VK_SELECT) on_select(w, p, st);
      else if (st.op != VK_TIME) last_was_zero_select = false;
    }
    if (p.vpid == cleanpid && st.op == VK_UNLINK && st.ret == 0) on_clean_unlink(w, st);
  }
  void check_commit(World &w, long n) {
    Inode *m = w.k.file(QmailEnv::messpath(n)), *t = w.k.file(QmailEnv::qpath("todo", n, false));
    if (m && t && (m->synced != m->data || t->synced != t->data)) w.violation("C01:published-unsynced", "message " + std::to_string(n) + " published with unsynced data");
  }
  std::map<int, std::pair<long, int>> chanfile_of_ino;   // not needed: paths are resolved from the write's inode
  void on_mark(World &w, const Step &st) {
    // a one-byte 'D' written by qmail-send into a channel file: find which record it covers
    Kernel &k = w.k;
    for (auto &kv : ledger) for (int c = 0; c < 2; c++) {
      Inode *f = k.file(QmailEnv::qpath(c ? "remote" : "local", kv.first, true));
      if (!f || f->ino != st.ino) continue;
      // locate the record whose first byte was just overwritten: the write position is (offset after write) - 1; we search records
      size_t i = 0; bool hit = false;
      while (i < f->data.size()) {
        size_t j = f->data.find('\0', i); if (j == std::string::npos) break;
        std::string addr = f->data.substr(i + 1, j - i - 1);
        RcptState *r = find_rcpt(kv.second, addr, c);
        if (f->data[i] == 'D' && r && !r->marked) {
          r->marked = true; hit = true; w.counters["marks_written"]++;
          if (M("C15") && r->final_report == 0 && r->attempts > 0 && !machine_crashed && !daemon_killed)
            w.violation("C15:deferral-treated-as-permanent", "recipient " + addr + " of message " + std::to_string(kv.first) + " (age " + std::to_string(w.k.clock - kv.second.birth) + " s, queue lifetime " + std::to_string(lifetime) + " s) got only temporary failures but was marked done: a deferral of a message that has not expired was treated as permanent");
          if (M("C03") && r->final_report != 'K' && r->final_report != 'D')
            w.violation("C03:marked-done-without-final-report", "recipient " + addr + " of message " + std::to_string(kv.first) + " was marked done (D) although its last report was not success or permanent failure");
        }
        i = j + 1;
      }
      if ((M("C04") || M("C03")) && !markfifo[c].empty() && !mark_check_off) {
        // reports are processed in arrival order per channel: this mark belongs to the oldest K/D report not yet marked, and it
        // must cover that recipient's own record
        auto front = markfifo[c].front(); markfifo[c].pop_front();
        size_t i2 = 0; bool ok = false;
        if (front.first == kv.first) while (i2 < f->data.size()) { size_t j2 = f->data.find('\0', i2); if (j2 == std::string::npos) break; if (f->data.compare(i2 + 1, j2 - i2 - 1, front.second) == 0 && f->data[i2] == 'D') ok = true; i2 = j2 + 1; }
        if (!ok) { w.violation("C04:mark-misplaced", "a completion mark was written into " + std::string(c ? "remote/" : "local/") + std::to_string(kv.first) + " for the report on recipient " + front.second + " of message " + std::to_string(front.first) + ", but that recipient's own record is still not marked (the mark landed elsewhere): it would be attempted again"); return; }
      }
      if (!hit && M("C03")) w.violation("C03:stray-mark", "a D byte was written into " + std::string(c ? "remote/" : "local/") + std::to_string(kv.first) + " at a place that is not the start of an unfinished record");
      return;
    }
  }
  void on_send_unlink(World &w, const Step &st) {
    const std::string &pth = st.path;
    bool loc = pth.compare(0, 6, "local/") == 0, rem = pth.compare(0, 7, "remote/") == 0, info = pth.compare(0, 5, "info/") == 0;
    if (!loc && !rem && !info) return;
    long n = atol(pth.c_str() + pth.rfind('/') + 1);
    MsgState *m = find_msg(n); if (!m) return;
    if ((loc || rem) && m->preprocessed && M("C03")) {
      // todo_do also unlinks stale channel files before (re)creating them; that happens before 'preprocessed'
      // (a mark that could not be written -- "message will be delivered twice" -- does not make the recipient unfinished)
      for (auto &r : m->rc) if (r.chan == (rem ? 1 : 0) && !r.marked && !r.final_report) { w.violation("C03:recipient-list-removed-with-unfinished-recipient", pth + " was removed while recipient " + r.addr + " has neither been reported delivered/failed nor is marked done"); return; }
    }
    if (info && m->preprocessed) {
      if (M("C03") && !(m->sender == "#@[]")) {
        for (auto &r : m->rc) {
          if (r.final_report == 'K' && r.k_reports > 0) continue;
          bool lost_ok = data_lost;   // documented: bounce/N is not crash-proof
          if (r.final_report == 'D' && (named_in_bounce(stripped(r), r.reason, !lost_ok) || lost_ok)) continue;
          if (r.marked && (machine_crashed || daemon_killed) && lost_ok) continue;
          w.violation("C03:message-removed-with-unaccounted-recipient", "info/" + std::to_string(n) + " removed (message leaves the queue) but recipient " + r.addr + " was neither reported delivered nor named with its failure in a queued bounce (final report: " + (r.final_report ? std::string(1, r.final_report) : std::string("none")) + ")");
          return;
        }
      }
      m->gone = true; m->eliminated_by = sendpid; finished.push_back(*m); w.counters["messages_finished"]++;
    }
  }
  std::string stripped(const RcptState &r) { return r.addr; }   // bounce names the address without the virtual prefix = the envelope address
  void on_clean_unlink(World &w, const Step &st) {
    long n = atol(st.path.c_str() + st.path.rfind('/') + 1);
    if (st.path.compare(0, 5, "todo/") == 0) { MsgState *m = find_msg(n); if (m) { if (hupedit && !m->preprocessed) for (auto &r : m->rc) r.routed = route(r.addr, &r.chan);   /* routing is decided when the message is preprocessed, with the control files read last */
        m->preprocessed = true; w.counters["messages_preprocessed"]++; if (M("C10")) check_partition(w, *m); } return; }
    // qmail-clean removing mess/N: only legitimate when info and todo are gone
    if (st.path.compare(0, 5, "mess/") != 0) return;
    if (M("C02") && (w.k.exists(QmailEnv::qpath("info", n, true)) || w.k.exists(QmailEnv::qpath("todo", n, false)))) w.violation("C02:mess-removed-early", "mess/" + std::to_string(n) + " removed while info or todo still exists");
    if (M("C02")) {
      // either the daemon is eliminating a message it just finished (info unlinked in this incarnation), or it is a stale leftover older than 36 hours
      MsgState *m = find_msg(n); bool eliminating = m && m->gone && m->eliminated_by == sendpid;
      if (!eliminating) { long at = st.ino ? last_atime[n] : 0; if (w.k.clock <= at + 129600) w.violation("C02:leftover-collected-early", "mess/" + std::to_string(n) + " (a leftover not being eliminated by this daemon) was removed although it is not older than 36 hours (atime " + std::to_string(at) + ", now " + std::to_string(w.k.clock) + ")"); else w.counters["stale_leftovers_collected"]++; }
    }
  }
  // C10: local/N ++ remote/N are an order-preserving partition of the accepted recipients, each rewritten as documented
  void check_partition(World &w, MsgState &m) {
    for (int c = 0; c < 2; c++) {
      std::vector<std::string> want, got;
      for (auto &r : m.rc) if (r.chan == c) want.push_back(r.routed);
      Inode *f = w.k.file(QmailEnv::qpath(c ? "remote" : "local", m.num, true));
      if (f) for (auto &rec : split0(f->data)) got.push_back(rec.size() ? rec.substr(1) : rec);
      if (want != got) { std::string a, b; for (auto &x : want) a += x + " "; for (auto &x : got) b += x + " "; w.violation(std::string("C10:partition:") + (c ? "remote" : "local"), "message " + std::to_string(m.num) + ": " + (c ? "remote" : "local") + " recipient list is [" + b + "], documented routing of the envelope gives [" + a + "]"); return; }
    }
    Inode *i = w.k.file(QmailEnv::qpath("info", m.num, true));
    if (!i || i->data != "F" + m.sender + std::string(1, '\0')) w.violation("C10:info-sender", "info/" + std::to_string(m.num) + " does not hold the envelope sender");
    w.counters["partitions_checked"]++;
  }
  // C04: "startup clamps to the byte sent by the spawner": the daemon's own status line shows the limits it uses
  bool clamp_checked = false;
  void check_clamp(World &w) {
    if (clamp_checked || !logsink) return;
    size_t p = logsink->data.find("status: local 0/"); if (p == std::string::npos) return;
    size_t e = logsink->data.find('\n', p); if (e == std::string::npos) return;
    int l = -1, r = -1; sscanf(logsink->data.c_str() + p, "status: local 0/%d remote 0/%d", &l, &r);
    clamp_checked = true; w.counters["clamp_checks"]++;
    int wl = std::min(conc_l, announce), wr = std::min(conc_r, announce);
    if (M("C04") && (l != wl || r != wr)) w.violation("C04:concurrency-clamp", "configured concurrency " + std::to_string(conc_l) + "/" + std::to_string(conc_r) + ", spawners announced " + std::to_string(announce) + ": qmail-send uses limits " + std::to_string(l) + "/" + std::to_string(r) + ", documented min(configured, announced) = " + std::to_string(wl) + "/" + std::to_string(wr));
  }
  void on_select(World &w, Proc &p, const Step &st) {
    check_clamp(w);
    (void) p;
    long tmo = st.a[1];
    if (st.ret == 0 && tmo == 0) {
      if (last_was_zero_select && M("C16")) { if (++zero_selects > 3) w.violation("C16:busy-loop", "qmail-send called select() with a zero timeout repeatedly with nothing ready and no other system call in between"); }
      last_was_zero_select = true;
    } else { last_was_zero_select = false; zero_selects = 0; }
  }

  void on_livelock(World &w, Proc &p) override {
    if (p.vpid == sendpid && !M("C16")) return;
    if (p.vpid == sendpid) w.violation("C16:busy-loop", "qmail-send repeats the same sequence of calls around select() without blocking and without making progress, while every other process is blocked (busy loop); history:" + history);
    else Scenario::on_livelock(w, p);
  }
  // ------------------------------------------------------------------ crash handling
  void alternatives(World &w, Proc &p, const Req &r, std::vector<Alt> &a) override {
    // a HUP reaches the daemon while it waits for the queue program it started for a bounce (the wait is interrupted and must be taken up again)
    if (sigwait && !sigwait_done && p.ppid == sendpid && sendpid && r.op == VK_EXIT && p.name.find("qmail-queue") != std::string::npos && w.ex->bound[BK_ENV] > 0) { a.push_back({BK_ENV, ALT_HOLD_EXIT, 0}); return; }
    // ALRM reaches the daemon while it is busy (reading a report), not while it sleeps: the request to retry everything must not be lost
    if (busysig && !busysig_done && p.vpid == sendpid && r.op == VK_READ && w.ex->bound[BK_ENV] > 0 && !p.in_handler && !term_sent) { Ofd *o = w.O(p, r.a[0]); if (o && o->kind == K_PIPE_R && (o->pipe == rep[0] || o->pipe == rep[1])) a.push_back({BK_ENV, ALT_SIGNAL, SIGALRM}); }
    // C10: a second edit + HUP lands while the daemon is still rereading its control files after the first one
    if (hupedit && hups_since_start > 0 && p.vpid == sendpid && r.op == VK_OPEN && r.data.compare(0, 8, "control/") == 0 && w.ex->bound[BK_ENV] > 0 && !p.in_handler) a.push_back({BK_ENV, ALT_SIGNAL, SIGHUP});
    // the queue program the daemon starts for a bounce (qmail-queue, or whatever QMAILQUEUE names) may refuse: permanently (31) or temporarily (53)
    if (r.op == VK_EXEC && p.ppid == sendpid && sendpid && w.ex->bound[BK_FAULT] > 0 && queue_refusals && r.data.find("qmail-queue") != std::string::npos) { a.push_back({BK_FAULT, ALT_EXIT, 31}); a.push_back({BK_FAULT, ALT_EXIT, 53}); return; }
    bool mut = false;
    switch (r.op) { case VK_WRITE: { Ofd *o = w.O(p, r.a[0]); mut = o && o->kind == K_FILE; break; } case VK_OPEN: mut = (r.a[0] & (O_CREAT | O_TRUNC)) || (r.a[0] & O_ACCMODE) != O_RDONLY; break;
      case VK_UNLINK: case VK_LINK: case VK_RENAME: case VK_FSYNC: case VK_UTIMES: case VK_FTRUNCATE: mut = true; break; default: break; }
    if (!mut) {
      // non-mutating calls can fail too (C03: "every single failing open/read/.../stat"): reads of regular files, stat, read-only open
      if (w.ex->bound[BK_FAULT] > 0 && fault_points_enabled(w, p)) {
        if (r.op == VK_READ) { Ofd *o = w.O(p, r.a[0]); if (o && o->kind == K_FILE) a.push_back({BK_FAULT, ALT_FAIL, EIO}); }
        else if (r.op == VK_STAT) a.push_back({BK_FAULT, ALT_FAIL, EIO});
        else if (r.op == VK_OPEN) a.push_back({BK_FAULT, ALT_FAIL, EIO});
      }
      return;
    }
    if (w.ex->bound[BK_CRASH] > 0 && crash_points_enabled(w, p)) { a.push_back({BK_CRASH, ALT_MACHINE_CRASH, 0}); if (p.vpid == sendpid) a.push_back({BK_CRASH, ALT_KILL, 0}); }
    if (w.ex->bound[BK_FAULT] > 0 && fault_points_enabled(w, p)) {
      switch (r.op) { case VK_WRITE: a.push_back({BK_FAULT, ALT_FAIL, ENOSPC}); if (r.a[1] > 1) a.push_back({BK_FAULT, ALT_SHORT, (int) (r.a[1] / 2)}); /* a disk filling up mid-write: fewer bytes taken, no error */ break; case VK_OPEN: a.push_back({BK_FAULT, ALT_FAIL, EIO}); break; case VK_UNLINK: a.push_back({BK_FAULT, ALT_FAIL, EIO}); break;
        case VK_LINK: a.push_back({BK_FAULT, ALT_FAIL, EIO}); break; case VK_FSYNC: a.push_back({BK_FAULT, ALT_FAIL, EIO}); break; case VK_UTIMES: a.push_back({BK_FAULT, ALT_FAIL, EIO}); break; default: break; }
    }
  }
  virtual bool crash_points_enabled(World &, Proc &p) { return p.vpid == sendpid || p.vpid == cleanpid; }
  virtual bool fault_points_enabled(World &, Proc &p) { return p.vpid == sendpid || p.vpid == cleanpid; }   // the cleaner's unlinks can fail too: it then answers '!' and the daemon must not go on as if the file were gone
  void after_machine_crash(World &w) override {
    machine_crashed = true; w.counters["machine_crashes"]++; history += " CRASH";
    sendpid = cleanpid = 0; inflight.clear(); injectors.clear(); cmd[0].reset(); cmd[1].reset(); rep[0].reset(); rep[1].reset(); pending_tail[0].clear(); pending_tail[1].clear();
    for (auto &kv : ledger) { for (auto &r : kv.second.rc) { r.inflight = false; } kv.second.earliest_next[0] = kv.second.earliest_next[1] = 0; }
    // which un-fsynced data was dropped is visible as files whose content changed; for the bounce exemption any loss counts
    data_lost = true;
    // re-read the ledger against the post-crash image: marks that were lost are no longer marks
    for (auto &kv : ledger) for (int c = 0; c < 2; c++) { Inode *f = w.k.file(QmailEnv::qpath(c ? "remote" : "local", kv.first, true)); if (!f) continue; size_t i = 0; while (i < f->data.size()) { size_t j = f->data.find('\0', i); if (j == std::string::npos) break; RcptState *r = find_rcpt(kv.second, f->data.substr(i + 1, j - i - 1), c); if (r) r->marked = (f->data[i] == 'D'); i = j + 1; } }
    if (M("C02")) check_qstate(w, "after a machine crash");
  }
  void on_proc_exit(World &w, Proc &p) override {
    if (p.vpid == sendpid) { if ((p.status & 127) == SIGKILL) { daemon_killed = true; history += " KILL-SEND"; for (auto &kv : ledger) { for (auto &r : kv.second.rc) { r.inflight = false; } kv.second.earliest_next[0] = kv.second.earliest_next[1] = 0; } inflight.clear(); w.counters["daemon_kills"]++; } }
    for (size_t i = 0; i < injectors.size(); i++) if (injectors[i] == p.vpid) { injectors.erase(injectors.begin() + i); break; }
  }

  // ------------------------------------------------------------------ event loop
  bool queue_empty(World &w) {
    Kernel &k = w.k;
    for (auto d : {"intd", "todo", "bounce"}) if (!k.listdir(std::string("/var/qmail/queue/") + d).empty()) return false;
    for (auto d : {"mess", "info", "local", "remote"}) for (int i = 0; i < SPLIT; i++) if (!k.listdir(std::string("/var/qmail/queue/") + d + "/" + std::to_string(i)).empty()) return false;
    return true;
  }
  bool only_leftovers(World &w) {
    Kernel &k = w.k;
    for (auto d : {"todo", "bounce"}) if (!k.listdir(std::string("/var/qmail/queue/") + d).empty()) return false;
    for (auto d : {"info", "local", "remote"}) for (int i = 0; i < SPLIT; i++) if (!k.listdir(std::string("/var/qmail/queue/") + d + "/" + std::to_string(i)).empty()) return false;
    return true;
  }
  virtual void quiescent_checks(World &) {}
  virtual bool extra_events(World &) { return false; }
  bool on_quiescent(World &w) override {
    drain_commands(w, 0); drain_commands(w, 1);
    if (w.aborted) return false;
    events++;
    if (events > 4000) throw HarnessError{"event horizon exceeded"};
    bool send_alive = alive(w, sendpid);
    if (term_sent) alarm_check_pending = false;
    if (send_alive && alarm_check_pending && M("C15")) {
      // "an ALRM makes everything due at once": the daemon has come to rest again after the signal, so every message with deferred recipients
      // must have an attempt outstanding on that channel, unless the channel has no free slot
      alarm_check_pending = false;
      for (auto &kv : ledger) { MsgState &m = kv.second; if (m.gone || !m.preprocessed) continue;
        for (int c = 0; c < 2; c++) { if (!m.alrm_due[c]) continue; m.alrm_due[c] = false; bool pending = false, flying = false; for (auto &r : m.rc) if (r.chan == c && !r.final_report && !r.marked) { pending = true; if (r.inflight) flying = true; }
          int used = 0; for (auto &d : inflight) if (d.chan == c) used++;
          int limit = std::min(c == 0 ? conc_l : conc_r, announce);
          if (pending && !flying && used < limit) { w.violation(std::string("C15:alrm-not-honoured:") + (c ? "remote" : "local"), "after ALRM the daemon went back to sleep without retrying the deferred " + std::string(c ? "remote" : "local") + " recipients of message " + std::to_string(m.num) + " although " + std::to_string(limit - used) + " delivery slot(s) are free; history:" + history); return false; } } }
      w.counters["alrm_promptness_checked"]++;
    }
    if (!send_alive) {
      // daemon not running: (re)start it unless the run is over
      if (sendpid && proc(w, sendpid) && proc(w, sendpid)->st == P_ZOMBIE && !daemon_killed && !machine_crashed) {
        int code = proc(w, sendpid)->status;
        if (term_sent && code == 0) { w.counters["clean_stops"]++; history += " STOPPED"; if (M("C03") && !inflight.empty()) w.violation("C04:exit-with-deliveries-in-flight", "qmail-send exited after TERM while delivery attempts were still outstanding"); }
        else if (!term_sent && code == (111 << 8) && faults_seen > 0) { w.counters["start_refused_after_fault"]++; history += " START-REFUSED"; }
        else if (!term_sent) { w.violation("daemon-exit", "qmail-send exited unexpectedly with status " + std::to_string(code) + " log: " + esc(logsink ? logsink->data.substr(logsink->data.size() > 300 ? logsink->data.size() - 300 : 0) : "", 300)); return false; }
      }
      if (restarts++ > max_restarts) return false;
      // the cleaner of the previous incarnation exits on EOF; make sure it is gone before restarting
      if (alive(w, cleanpid)) { Proc *c = proc(w, cleanpid); if (c) w.kill_proc(*c, SIGKILL); }
      for (auto &kv : ledger) for (int c = 0; c < 2; c++) kv.second.pass_started[c] = 0;
      if (clockback && restarts > 1 && !clock_was_set_back) {   // while the daemon is down the administrator corrects a clock that was two hours ahead: every queued message now has a birth time in the future
        uint8_t kinds[2] = {0, BK_ENV}; if (w.ex->choose(kinds, 2)) { w.k.clock -= 7200; clock_was_set_back = true; history += " CLOCK-SET-BACK(2h)"; w.counters["clock_set_back"]++; } }
      start_daemon(w);
      return true;
    }
    if (!tosend.empty() && injectors.empty() && !(inject_mode == "drain" && !(queue_empty(w) && inflight.empty())) && !(inject_mode == "event" && !(queue_empty(w) && inflight.empty()))) {
      if (inject_mode == "conc") { for (auto &m : tosend) start_injector(w, m); tosend.clear(); }
      else { start_injector(w, tosend.front()); tosend.erase(tosend.begin()); }
      return true;
    }
    if (M("C16") && injectors.empty() && !term_sent && faults_seen == 0) {   // (a failed open of the trigger or of todo/ legitimately delays the pick-up to the rescan)
      // every committed message must have been noticed by now: the daemon is blocked and the clock has not moved
      // (a daemon that was told to exit deliberately stops looking at todo/; the next incarnation scans at start-up)
      for (auto &n : w.k.listdir("/var/qmail/queue/todo")) { w.violation("C16:lost-wakeup", "all processes are blocked, the injector of message " + n + " has finished, yet todo/" + n + " has not been picked up (the daemon will only notice it at the 25-minute rescan)"); return false; }
    }
    if (sigwait_held) { Proc *sp = proc(w, sendpid), *c = proc(w, sigwait_held); if (sp && c) { w.raise_sig(*sp, SIGHUP); history += " HUP-while-waiting-for-the-bounce-injection"; w.counters["signals_during_wait"]++; } if (c) c->held = false; sigwait_held = 0; return true; }
    for (int c = 0; c < 2; c++) if (!pending_tail[c].empty() && rep[c] && (tail_hold[c] <= 0 || inflight.empty())) { tail_hold[c] = 0; rep[c]->buf += pending_tail[c]; pending_tail[c].clear(); history += " (rest of the report arrives)"; return true; }
    quiescent_checks(w);
    if (w.aborted) return false;
    if (extra_events(w)) return true;
    if (!inflight.empty()) {
      // alternatives: (delivery, verdict); default = oldest delivery succeeds
      struct Ev { size_t idx; char v; };
      std::vector<Ev> evs; std::string verd = cfg.get("verdicts", "KZDX");
      size_t lim = std::min<size_t>(inflight.size(), cfg.geti("reorder", 3));
      for (size_t i = 0; i < lim; i++) for (char v : verd) { if (v == 'T' && i > 0) continue; evs.push_back({i, v}); }
      uint8_t kinds[VK_MAXALT]; int n = 0;
      for (auto &e : evs) { (void) e; kinds[n] = n == 0 ? 0 : BK_ENV; n++; }
      int sig_base = n;
      if (cfg.geti("signals", 1) == 2) kinds[n++] = BK_ENV;   // TERM only
      else if (cfg.geti("signals", 1)) { kinds[n++] = BK_ENV; kinds[n++] = BK_ENV; kinds[n++] = BK_ENV; }   // TERM, ALRM, HUP
      int inj_alt = -1;
      if (inject_mode == "event" && !tosend.empty() && injectors.empty()) { inj_alt = n; kinds[n++] = BK_ENV; }   // a new message arrives now
      int c = w.ex->choose(kinds, n);
      if (c == inj_alt && inj_alt >= 0) { history += " INJECT(" + tosend.front().name + ")"; start_injector(w, tosend.front()); tosend.erase(tosend.begin()); return true; }
      if (c >= sig_base) { send_signal(w, c - sig_base); return true; }
      Ev e = evs[c];
      // a report whose rest is being held back (verdicts m, n): the next event happens first.  A spawner writes its reports one after the other, so
      // an event on the same channel makes the rest arrive first; a report on the *other* channel overtakes it
      { int ch = inflight[e.idx].chan; if (!pending_tail[ch].empty() && rep[ch]) { rep[ch]->buf += pending_tail[ch]; pending_tail[ch].clear(); tail_hold[ch] = 0; history += " (rest of the report arrives)"; }
        else for (int c2 = 0; c2 < 2; c2++) if (tail_hold[c2] > 0) { tail_hold[c2]--; w.counters["reports_overtaken_by_other_channel"]++; } }
      if (e.v == 'g' || e.v == 'h' || e.v == 'u') {
        // a report that belongs to no delivery: number == the channel's concurrency (one past the last slot), 255, or a free slot.
        // Nothing may change: the ledger is left alone and the delivery stays in flight
        Delivery d = inflight[e.idx]; int conc = d.chan == 0 ? conc_l : conc_r, dn = e.v == 'g' ? conc : 255;
        if (e.v == 'u') { for (int x = 0; x < conc; x++) { bool used = false; for (auto &f : inflight) if (f.chan == d.chan && f.delnum == x) used = true; if (!used) { dn = x; break; } } }
        std::string g; g.push_back((char) dn); g += "Kstray report\n"; g.push_back('\0'); rep[d.chan]->buf += g; w.counters["reports_stray"]++; history += std::string(" stray(") + std::to_string(dn) + ")"; return true;
      }
      if (e.v == 'T') {
        // a slow delivery: nothing is reported, time passes until the daemon's own next deadline (retry timers, the 123-second
        // retry of messages it could not stat, the todo rescan) while the attempt is still outstanding
        long dl = w.next_deadline(); if (dl < 0 || ++held_ticks > 6) { send_report(w, e.idx, 'K', "ok\n"); return true; }
        w.advance_clock(dl); w.counters["ticks_with_deliveries_in_flight"]++; history += " hold(->" + std::to_string(w.k.clock % 100000) + ")"; return true;
      }
      if (e.v == 'E') {
        // the spawner of this delivery's channel dies: end-of-file on the report pipe, the command pipe loses its reader.  Its
        // deliveries get no report at all; qmail-send must finish what is outstanding on the other channel and exit, and nothing may
        // be marked.  For the oracles this is a stop request like TERM (the next incarnation retries the recipients)
        int c0 = inflight[e.idx].chan; rep[c0]->writers = 0; cmd[c0]->readers = 0;
        for (size_t i = inflight.size(); i-- > 0;) if (inflight[i].chan == c0) { Delivery d = inflight[i]; MsgState *m = find_msg(d.msg); RcptState *r = m ? find_rcpt(*m, d.recip, d.chan) : nullptr; if (r) r->inflight = false; inflight.erase(inflight.begin() + i); }
        term_sent = true; for (auto &kv : ledger) for (int c = 0; c < 2; c++) if (kv.second.pass_started[c] && !kv.second.gone && !kv.second.pass_eof[c]) kv.second.term_open_pass[c] = true;
        w.counters["spawner_lost"]++; history += std::string(" SPAWNER-LOST(") + (c0 ? "remote" : "local") + ")"; return true;
      }
      if (e.v == 'O') { send_report(w, e.idx, 'Z', std::string(12000, 'x') + "\n"); w.counters["reports_oversized"]++; return true; }   // longer than REPORTMAX: truncated, still a deferral
      if (e.v == 'X' || e.v == 'e' || e.v == 'Q') { Delivery d = inflight[e.idx]; std::string g; g.push_back((char) d.delnum); g += e.v == 'X' ? "?garbled" : e.v == 'Q' ? "Qunknown status letter\n" : ""; g.push_back('\0'); inflight.erase(inflight.begin() + e.idx); rep[d.chan]->buf += g; MsgState *m = find_msg(d.msg); RcptState *r = m ? find_rcpt(*m, d.recip, d.chan) : nullptr; if (r) r->inflight = false; if (m) m->had_defer[d.chan] = true; w.counters["reports_garbage"]++; history += " " + d.recip + "=garbled"; }
      else if (e.v == 'F') send_report(w, e.idx, 'D', "user unknown\n\n<victim@a.com>:\nforged paragraph\n\n\n--- Below this line is a copy of the message.\n");   // hostile failure text
      else if (e.v == 'm' || e.v == 'n') { int ch = inflight[e.idx].chan; tail_hold[ch] = 1; send_report(w, e.idx, e.v == 'm' ? 'K' : 'Z', e.v == 'm' ? "ok\n" : "try later\n", 2); }   // two pieces, and the second one is overtaken by the next report of the other channel
      else if (e.v == 'k' || e.v == 'j' || e.v == 'z' || e.v == 'd') send_report(w, e.idx, e.v == 'z' ? 'Z' : e.v == 'd' ? 'D' : 'K', e.v == 'z' ? "try later\n" : e.v == 'd' ? "no such user\n" : "ok\n", e.v == 'k' ? 1 : e.v == 'j' ? 2 : 5);   // the same reports, arriving in two pieces
      else send_report(w, e.idx, e.v, e.v == 'K' ? "ok\n" : e.v == 'Z' ? "try later\n" : "no such user\n");
      return true;
    }
    if (term_sent) { w.violation("C04:stuck-after-TERM", "TERM was delivered and nothing is in flight, but qmail-send neither exits nor makes progress; history:" + history); return false; }
    if (queue_empty(w) && tosend.empty() && injectors.empty()) { ended_clean = true; return false; }
    if (clock_frozen) return false;
    // nothing in flight, work remains: let time pass to the daemon's own deadline (default) or send a signal
    {
      uint8_t kinds[4] = {0, BK_ENV, BK_ENV, BK_ENV}; int n = cfg.geti("signals", 1) == 2 ? 2 : cfg.geti("signals", 1) ? 4 : 1;
      int c = w.ex->choose(kinds, n);
      if (c > 0) { send_signal(w, c - 1); return true; }
    }
    long dl = w.next_deadline();
    if (dl < 0) { w.violation("C16:blocked-forever", "queue not empty but qmail-send is blocked without any timeout"); return false; }
    // after a crash S2/S3 leftovers are legitimate; they are collected only once they are 36 hours old
    bool leftovers_only = (machine_crashed || daemon_killed || expect_leftovers) && only_leftovers(w);
    if (++ticks > (leftovers_only ? max_ticks + 140 : max_ticks)) { if ((M("C15") || M("C03")) && cfg.get("verdicts", "KZDX")[0] == 'K') w.violation("C03:queue-not-drained", "after " + std::to_string(max_ticks) + " wake-ups with every further attempt answered success the queue is still not empty; history:" + history); return false; }
    if (M("C16")) check_sleep_bound(w, dl);
    w.advance_clock(dl); w.counters["ticks"]++;
    if (tick_pos != std::string::npos && history.size() == tick_end) { history.resize(tick_pos); tick_cnt++; } else { tick_cnt = 1; tick_pos = history.size(); }
    history += (tick_cnt > 1 ? " tick*" + std::to_string(tick_cnt) : std::string(" tick")) + "(->" + std::to_string(dl - 1000000000) + ")"; tick_end = history.size();
    return true;
  }
  void send_signal(World &w, int which) {
    Proc *p = proc(w, sendpid); if (!p) return;
    static const int sigs[] = {SIGTERM, SIGALRM, SIGHUP}; static const char *names[] = {"TERM", "ALRM", "HUP"};
    if (which == 2) hups_since_start++;
    if (which == 2 && halfsleep) { long dl = w.next_deadline(); if (dl > w.k.clock + 2) { w.advance_clock(w.k.clock + (dl - w.k.clock) / 2); history += " (half the sleep passes)"; w.counters["signals_in_mid_sleep"]++; } }   // the signal finds the daemon in the middle of a timed sleep: what remains of it must be recomputed from the current time
    if (which == 2 && hupedit) { config_b = !config_b; write_routing_controls(w); history += config_b ? " EDIT(far.example local, virt2.example virtual)" : " EDIT(back)"; w.counters["control_edits"]++; }
    w.raise_sig(*p, sigs[which]); history += std::string(" ") + names[which]; w.counters[std::string("signal_") + names[which]]++;
    note_signal(w, which);
  }
  void note_signal(World &w, int which) {   // what the monitors have to know about a signal, however it was delivered
    (void) w;
    if (which == 0) { term_sent = true; for (auto &kv : ledger) for (int c = 0; c < 2; c++) if (kv.second.pass_started[c] && !kv.second.gone && !kv.second.pass_eof[c]) kv.second.term_open_pass[c] = true; }
    if (which == 1 && !term_sent) { alarm_check_pending = true; for (auto &kv : ledger) { MsgState &m = kv.second; for (int c = 0; c < 2; c++) { bool pend = false, fly = false; for (auto &r : m.rc) if (r.chan == c && !r.final_report && !r.marked) { pend = true; if (r.inflight) fly = true; } m.alrm_due[c] = !m.gone && m.preprocessed && m.had_defer[c] && pend && !fly; } } }
    if (which == 1) { alarm_since[0] = alarm_since[1] = true; for (auto &kv : ledger) { kv.second.earliest_next[0] = kv.second.earliest_next[1] = 0; } }
  }
  // C16/C15: the daemon must not sleep past its earliest due event known to the ledger
  void check_sleep_bound(World &w, long wake_at) {
    long due = -1;
    for (auto &kv : ledger) { MsgState &m = kv.second; if (m.gone || !m.preprocessed) continue; for (int c = 0; c < 2; c++) if (m.had_defer[c] && m.earliest_next[c]) { bool pending = false; for (auto &r : m.rc) if (r.chan == c && !r.final_report) pending = true; if (pending && (due < 0 || m.earliest_next[c] < due)) due = m.earliest_next[c]; } }
    if (due >= 0 && wake_at > std::max(due, w.k.clock) + 1 && !term_sent)
      w.violation("C16:sleeps-past-due-event", "qmail-send blocks until " + std::to_string(wake_at) + " although a deferred message is due at " + std::to_string(due) + " (now " + std::to_string(w.k.clock) + ")");
  }

  void at_end(World &w) override {
    if (M("C02")) check_qstate(w, "at the end");
    if (w.aborted) return;
    if (ended_clean && M("C03")) {
      for (auto &m : finished) if (!m.is_bounce || true) for (auto &r : m.rc) {
        if (m.sender == "#@[]") continue;
        if (r.final_report == 'K') continue;
        if (r.final_report == 'D' && (data_lost || named_in_bounce(r.addr, r.reason, true))) continue;
        if ((machine_crashed || daemon_killed) && r.attempts > 0) continue;
        w.violation("C03:recipient-dropped", "queue is empty at the end but recipient " + r.addr + " of a finished message was neither delivered nor bounced; history:" + history); return;
      }
      for (auto &kv : ledger) if (!kv.second.gone) { w.violation("C03:ledger-mismatch", "queue directory is empty but message " + std::to_string(kv.first) + " never completed; history:" + history); return; }
    }
    w.counters[ended_clean ? "histories_drained" : "histories_open_end"]++;
    uint64_t h = fnvs(1469598103934665603ULL, history); std::string tree; w.k.dump_tree(w.k.lookup(w.k.root, "/var/qmail/queue"), "", tree, false); h = fnvs(h, tree);
    w.outcome_hash = h;
    w.description = "msgs=" + cfg.get("msgs", "l1") + " history:" + (history.empty() ? " (none)" : history) + (ended_clean ? " -> queue empty" : " -> end") + ", " + std::to_string(w.total_steps) + " calls";
  }
};

}  // namespace vk
