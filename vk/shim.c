/* libvk.so: LD_PRELOAD shim.  Every world-facing libc call of a simulated program is turned into a
 * request in the process's slot of the shared region and executed by the controller's in-memory
 * kernel.  The process runs user code only between a reply and its next request. */
#define _GNU_SOURCE
#include <dlfcn.h>
#include <errno.h>
#include <fcntl.h>
#include <dirent.h>
#include <grp.h>
#include <pwd.h>
#include <signal.h>
#include <stdarg.h>
#include <stdio.h>
#include <stdlib.h>
#include <string.h>
#include <unistd.h>
#include <linux/futex.h>
#include <net/if.h>
#include <sys/ioctl.h>
#include <sys/mman.h>
#include <sys/select.h>
#include <sys/socket.h>
#include <sys/stat.h>
#include <sys/syscall.h>
#include <sys/time.h>
#include <sys/types.h>
#include <sys/wait.h>
#include <netinet/in.h>
#include "vk_proto.h"

static struct vk_shm *shm;
static struct vk_slot *sl;
static int myslot = -1;
static int shmfd = -1;

static void rawmsg(const char *s) { syscall(SYS_write, 2, s, strlen(s)); }
static void __attribute__((noreturn)) rawexit(int c) { for (;;) syscall(SYS_exit_group, c); }

static void futex_wait(volatile int *w, int val)
{
  struct timespec ts = { 0, 20 * 1000 * 1000 };
  syscall(SYS_futex, w, FUTEX_WAIT, val, &ts, 0, 0);
}
static void futex_wake(volatile int *w) { syscall(SYS_futex, w, FUTEX_WAKE, 64, 0, 0, 0); }

struct req { int op; long a[6]; const void *in; int inlen; };

static void post(const struct req *r)
{
  int i;
  sl->op = r->op;
  for (i = 0; i < 6; i++) sl->a[i] = r->a[i];
  if (r->inlen > VK_BUFSZ) { rawmsg("vk shim: request too large\n"); rawexit(99); }
  if (r->inlen) memcpy(sl->buf, r->in, r->inlen);
  sl->len = r->inlen;
  sl->runsig = 0; sl->redo = 0; sl->die = 0;
  __atomic_store_n(&sl->state, VK_S_REQ, __ATOMIC_SEQ_CST);
  __atomic_add_fetch(&shm->ctl_futex, 1, __ATOMIC_SEQ_CST);
  futex_wake(&shm->ctl_futex);
}
static void wait_reply(void)
{
  int spins = 0;
  for (;;) {
    int s = __atomic_load_n(&sl->state, __ATOMIC_SEQ_CST);
    if (s == VK_S_REPLY) break;
    if (++spins < 2) { continue; }
    futex_wait(&sl->state, s);
  }
  if (sl->die) rawexit(0);
}

/* returns the call's return value; errno set; out receives up to outcap reply bytes */
static long vk_do(struct req *r, void *out, int outcap, int *outlen, long *aout)
{
  if (!sl) { char m[] = "vk shim: call 00 before attach\n"; m[14] = '0' + (r->op / 10) % 10; m[15] = '0' + r->op % 10; rawmsg(m); rawexit(99); }
  /* paths beyond PATH_MAX and argument lists beyond the slot size get the answer a real kernel gives for over-long ones */
  if (r->inlen > VK_BUFSZ) { errno = r->op == VK_EXEC ? E2BIG : ENAMETOOLONG; return -1; }
  for (;;) {
    post(r);
    wait_reply();
    if (sl->runsig) {
      int sig = sl->runsig; void (*h)(int) = (void (*)(int)) sl->handler;
      struct req sr; memset(&sr, 0, sizeof sr); sr.op = VK_SIGRETURN; sr.a[0] = sig;
      h(sig);
      post(&sr);
      wait_reply();
      if (sl->redo) continue;
    }
    break;
  }
  if (out && sl->len > 0) {
    int n = sl->len < outcap ? sl->len : outcap;
    memcpy(out, sl->buf, n);
    if (outlen) *outlen = n;
  } else if (outlen) *outlen = 0;
  if (aout) { int i; for (i = 0; i < 6; i++) aout[i] = sl->a[i]; }
  {
    long ret = sl->ret; int e = sl->err;
    __atomic_store_n(&sl->state, VK_S_RUNNING, __ATOMIC_SEQ_CST);
    if (ret == -1 || e) errno = e;
    return ret;
  }
}
#define REQ(o) struct req r; memset(&r, 0, sizeof r); r.op = (o)

static void fatal_handler(int sig)
{
  struct req r; memset(&r, 0, sizeof r); r.op = VK_FATAL; r.a[0] = sig;
  if (sl) { post(&r); wait_reply(); }
  rawexit(98);
}

static void attach(void)
{
  const char *e = getenv("VK_SHMFD"), *s = getenv("VK_SLOT");
  if (!e || !s) { rawmsg("vk shim: VK_SHMFD/VK_SLOT not set\n"); rawexit(99); }
  shmfd = atoi(e); myslot = atoi(s);
  shm = mmap(0, sizeof(struct vk_shm), PROT_READ | PROT_WRITE, MAP_SHARED, shmfd, 0);
  if (shm == MAP_FAILED) { rawmsg("vk shim: mmap failed\n"); rawexit(99); }
  sl = &shm->slot[myslot];
}

static int (*saved_main)(int, char **, char **);
static int wrap_main(int argc, char **argv, char **envp)
{
  int r;
  {
    /* announce the new image: argv for the trace */
    char b[4096]; int o = 0, i;
    REQ(VK_START);
    for (i = 0; i < argc && o < 4000; i++) { int l = strlen(argv[i]); if (o + l + 1 > 4000) break; memcpy(b + o, argv[i], l + 1); o += l + 1; }
    r.in = b; r.inlen = o; r.a[0] = argc; r.a[1] = syscall(SYS_getpid);
    vk_do(&r, 0, 0, 0, 0);
  }
  r = saved_main(argc, argv, envp);
  _exit(r);
}
int __libc_start_main(int (*mainf)(int, char **, char **), int argc, char **argv, void (*init)(void), void (*fini)(void), void (*rtld_fini)(void), void *stack_end)
{
  int (*real)(int (*)(int, char **, char **), int, char **, void (*)(void), void (*)(void), void (*)(void), void *) = dlsym(RTLD_NEXT, "__libc_start_main");
  struct sigaction sa;
  attach();
  memset(&sa, 0, sizeof sa); sa.sa_handler = fatal_handler;
  {
    int (*rsa)(int, const struct sigaction *, struct sigaction *) = dlsym(RTLD_NEXT, "sigaction");
    rsa(SIGSEGV, &sa, 0); rsa(SIGBUS, &sa, 0); rsa(SIGFPE, &sa, 0); rsa(SIGILL, &sa, 0); rsa(SIGABRT, &sa, 0);
  }
  saved_main = mainf;
  return real(wrap_main, argc, argv, init, fini, rtld_fini, stack_end);
}

/* ------------------------------------------------------------------------------------------ */
void _exit(int code)
{
  REQ(VK_EXIT); r.a[0] = code;
  if (sl) { post(&r); wait_reply(); }
  rawexit(0);
}
void _Exit(int code) { _exit(code); }
void exit(int code) { _exit(code); }

int open(const char *path, int flags, ...)
{
  mode_t mode = 0; va_list ap;
  va_start(ap, flags); if (flags & O_CREAT) mode = va_arg(ap, int); va_end(ap);
  { REQ(VK_OPEN); r.a[0] = flags; r.a[1] = mode; r.in = path; r.inlen = strlen(path) + 1; return vk_do(&r, 0, 0, 0, 0); }
}
int open64(const char *path, int flags, ...)
{
  mode_t mode = 0; va_list ap;
  va_start(ap, flags); if (flags & O_CREAT) mode = va_arg(ap, int); va_end(ap);
  return open(path, flags, mode);
}
int close(int fd) { REQ(VK_CLOSE); r.a[0] = fd; return vk_do(&r, 0, 0, 0, 0); }
ssize_t read(int fd, void *buf, size_t n)
{
  REQ(VK_READ); r.a[0] = fd; r.a[1] = n > VK_BUFSZ ? VK_BUFSZ : n;
  return vk_do(&r, buf, n > VK_BUFSZ ? VK_BUFSZ : n, 0, 0);
}
ssize_t write(int fd, const void *buf, size_t n)
{
  REQ(VK_WRITE); r.a[0] = fd; if (n > VK_BUFSZ) n = VK_BUFSZ; r.a[1] = n; r.in = buf; r.inlen = n;
  return vk_do(&r, 0, 0, 0, 0);
}
off_t lseek(int fd, off_t off, int whence) { REQ(VK_LSEEK); r.a[0] = fd; r.a[1] = off; r.a[2] = whence; return vk_do(&r, 0, 0, 0, 0); }
off_t lseek64(int fd, off_t off, int whence) { return lseek(fd, off, whence); }
int fsync(int fd) { REQ(VK_FSYNC); r.a[0] = fd; return vk_do(&r, 0, 0, 0, 0); }
int ftruncate(int fd, off_t len) { REQ(VK_FTRUNCATE); r.a[0] = fd; r.a[1] = len; return vk_do(&r, 0, 0, 0, 0); }
int ftruncate64(int fd, off_t len) { return ftruncate(fd, len); }

static void fill_stat(struct stat *st, const struct vk_stat *v)
{
  memset(st, 0, sizeof *st);
  st->st_ino = v->ino; st->st_mode = v->mode; st->st_nlink = v->nlink; st->st_uid = v->uid; st->st_gid = v->gid;
  st->st_size = v->size; st->st_atime = v->atime; st->st_mtime = v->mtime; st->st_ctime = v->ctime; st->st_dev = v->dev;
  st->st_blksize = 4096; st->st_blocks = (v->size + 511) / 512;
}
int fstat(int fd, struct stat *st)
{
  struct vk_stat v; long ret; REQ(VK_FSTAT); r.a[0] = fd;
  ret = vk_do(&r, &v, sizeof v, 0, 0); if (ret == 0) fill_stat(st, &v); return ret;
}
int stat(const char *path, struct stat *st)
{
  struct vk_stat v; long ret; REQ(VK_STAT); r.in = path; r.inlen = strlen(path) + 1;
  ret = vk_do(&r, &v, sizeof v, 0, 0); if (ret == 0) fill_stat(st, &v); return ret;
}
int lstat(const char *path, struct stat *st) { return stat(path, st); }
int fstat64(int fd, struct stat64 *st) { return fstat(fd, (struct stat *) st); }
int stat64(const char *path, struct stat64 *st) { return stat(path, (struct stat *) st); }
int lstat64(const char *path, struct stat64 *st) { return stat(path, (struct stat *) st); }
int __fxstat(int ver, int fd, struct stat *st) { (void) ver; return fstat(fd, st); }
int __xstat(int ver, const char *p, struct stat *st) { (void) ver; return stat(p, st); }
int __lxstat(int ver, const char *p, struct stat *st) { (void) ver; return stat(p, st); }

static int two_paths(int op, const char *a, const char *b)
{
  char tmp[2100]; int la = strlen(a) + 1, lb = strlen(b) + 1;
  REQ(op);
  if (la + lb > (int) sizeof tmp) { errno = ENAMETOOLONG; return -1; }
  memcpy(tmp, a, la); memcpy(tmp + la, b, lb); r.in = tmp; r.inlen = la + lb; r.a[0] = la;
  return vk_do(&r, 0, 0, 0, 0);
}
int link(const char *a, const char *b) { return two_paths(VK_LINK, a, b); }
int rename(const char *a, const char *b) { return two_paths(VK_RENAME, a, b); }
int unlink(const char *p) { REQ(VK_UNLINK); r.in = p; r.inlen = strlen(p) + 1; return vk_do(&r, 0, 0, 0, 0); }
int chdir(const char *p) { REQ(VK_CHDIR); r.in = p; r.inlen = strlen(p) + 1; return vk_do(&r, 0, 0, 0, 0); }
int mkdir(const char *p, mode_t m) { if (!sl) return syscall(SYS_mkdir, p, m); /* the sanitizer runtime prepares its log directory before main */ REQ(VK_MKDIR); r.a[0] = m; r.in = p; r.inlen = strlen(p) + 1; return vk_do(&r, 0, 0, 0, 0); }
int mkfifo(const char *p, mode_t m) { REQ(VK_MKFIFO); r.a[0] = m; r.in = p; r.inlen = strlen(p) + 1; return vk_do(&r, 0, 0, 0, 0); }
mode_t umask(mode_t m) { REQ(VK_UMASK); r.a[0] = m; return vk_do(&r, 0, 0, 0, 0); }
int pipe(int fds[2])
{
  long a[6]; long ret; REQ(VK_PIPE);
  ret = vk_do(&r, 0, 0, 0, a); if (ret == 0) { fds[0] = a[0]; fds[1] = a[1]; } return ret;
}
int dup2(int a, int b) { REQ(VK_DUP2); r.a[0] = a; r.a[1] = b; return vk_do(&r, 0, 0, 0, 0); }
int fcntl(int fd, int cmd, ...)
{
  long arg; va_list ap; va_start(ap, cmd); arg = va_arg(ap, long); va_end(ap);
  { REQ(VK_FCNTL); r.a[0] = fd; r.a[1] = cmd; r.a[2] = arg; return vk_do(&r, 0, 0, 0, 0); }
}
int fcntl64(int fd, int cmd, ...)
{
  long arg; va_list ap; va_start(ap, cmd); arg = va_arg(ap, long); va_end(ap);
  return fcntl(fd, cmd, arg);
}
int flock(int fd, int op) { REQ(VK_FLOCK); r.a[0] = fd; r.a[1] = op; return vk_do(&r, 0, 0, 0, 0); }
int utimes(const char *p, const struct timeval tv[2])
{
  REQ(VK_UTIMES); r.in = p; r.inlen = strlen(p) + 1;
  if (tv) { r.a[0] = 1; r.a[1] = tv[0].tv_sec; r.a[2] = tv[1].tv_sec; }
  return vk_do(&r, 0, 0, 0, 0);
}

int select(int nfds, fd_set *rf, fd_set *wf, fd_set *ef, struct timeval *tv)
{
  char in[3 * sizeof(fd_set)], out[3 * sizeof(fd_set)]; long ret; REQ(VK_SELECT);
  memset(in, 0, sizeof in);
  if (rf) memcpy(in, rf, sizeof(fd_set));
  if (wf) memcpy(in + sizeof(fd_set), wf, sizeof(fd_set));
  if (ef) memcpy(in + 2 * sizeof(fd_set), ef, sizeof(fd_set));
  r.a[0] = nfds; r.a[1] = (rf ? 1 : 0) | (wf ? 2 : 0) | (ef ? 4 : 0);
  r.a[2] = tv ? tv->tv_sec : -1; r.a[3] = tv ? tv->tv_usec : 0;
  r.in = in; r.inlen = sizeof in;
  ret = vk_do(&r, out, sizeof out, 0, 0);
  if (ret >= 0) {
    if (rf) memcpy(rf, out, sizeof(fd_set));
    if (wf) memcpy(wf, out + sizeof(fd_set), sizeof(fd_set));
    if (ef) memcpy(ef, out + 2 * sizeof(fd_set), sizeof(fd_set));
  }
  return ret;
}
unsigned int sleep(unsigned int s) { REQ(VK_SLEEP); r.a[0] = s; return vk_do(&r, 0, 0, 0, 0); }
unsigned int alarm(unsigned int s) { REQ(VK_ALARM); r.a[0] = s; return vk_do(&r, 0, 0, 0, 0); }
time_t time(time_t *t) { long v; REQ(VK_TIME); v = vk_do(&r, 0, 0, 0, 0); if (t) *t = v; return v; }
int gettimeofday(struct timeval *tv, void *tz) { (void) tz; if (tv) { tv->tv_sec = time(0); tv->tv_usec = 0; } return 0; }
pid_t getpid(void) { REQ(VK_GETPID); return vk_do(&r, 0, 0, 0, 0); }
pid_t getppid(void) { REQ(VK_GETPPID); return vk_do(&r, 0, 0, 0, 0); }
uid_t getuid(void) { REQ(VK_GETUID); return vk_do(&r, 0, 0, 0, 0); }
uid_t geteuid(void) { return getuid(); }
gid_t getgid(void) { REQ(VK_GETGID); return vk_do(&r, 0, 0, 0, 0); }
gid_t getegid(void) { return getgid(); }
int setuid(uid_t u) { REQ(VK_SETUID); r.a[0] = u; return vk_do(&r, 0, 0, 0, 0); }
int setgid(gid_t g) { REQ(VK_SETGID); r.a[0] = g; return vk_do(&r, 0, 0, 0, 0); }
int setgroups(size_t n, const gid_t *g)
{
  long tmp[64]; size_t i; REQ(VK_SETGROUPS);
  if (n > 64) n = 64;
  for (i = 0; i < n; i++) tmp[i] = g[i];
  r.a[0] = n; r.in = tmp; r.inlen = n * sizeof(long); return vk_do(&r, 0, 0, 0, 0);
}
int initgroups(const char *user, gid_t g) { REQ(VK_INITGROUPS); r.a[0] = g; r.in = user; r.inlen = strlen(user) + 1; return vk_do(&r, 0, 0, 0, 0); }

struct passwd *getpwnam(const char *name)
{
  static struct passwd pw; static char b[1024]; long a[6]; int n = 0; long ret; REQ(VK_GETPWNAM);
  r.in = name; r.inlen = strlen(name) + 1;
  ret = vk_do(&r, b, sizeof b - 1, &n, a);
  if (ret != 0) return 0;
  b[n] = 0;
  pw.pw_name = b; pw.pw_passwd = "x"; pw.pw_uid = a[0]; pw.pw_gid = a[1];
  pw.pw_dir = b + strlen(b) + 1; pw.pw_shell = "/bin/sh"; pw.pw_gecos = "";
  return &pw;
}
struct group *getgrnam(const char *name)
{
  static struct group gr; static char b[256]; static char *nomem[1] = { 0 }; long a[6]; int n = 0; long ret; REQ(VK_GETGRNAM);
  r.in = name; r.inlen = strlen(name) + 1;
  ret = vk_do(&r, b, sizeof b - 1, &n, a);
  if (ret != 0) return 0;
  b[n] = 0; gr.gr_name = b; gr.gr_passwd = "x"; gr.gr_gid = a[0]; gr.gr_mem = nomem;
  return &gr;
}
int gethostname(char *name, size_t len)
{
  char b[256]; int n = 0; long ret; REQ(VK_GETHOSTNAME);
  ret = vk_do(&r, b, sizeof b - 1, &n, 0);
  if (ret == 0) { b[n] = 0; strncpy(name, b, len); }
  return ret;
}

/* ---- processes ---- */
extern char **environ;
pid_t fork(void)
{
  pid_t (*realfork)(void) = dlsym(RTLD_NEXT, "fork");
  long cs; pid_t p;
  { REQ(VK_FORK); cs = vk_do(&r, 0, 0, 0, 0); }
  if (cs < 0) return -1;
  p = realfork();
  if (p < 0) { rawmsg("vk shim: real fork failed\n"); rawexit(99); }
  if (p == 0) {
    REQ(VK_FORKED);
    myslot = cs; sl = &shm->slot[myslot]; r.a[0] = syscall(SYS_getpid);
    vk_do(&r, 0, 0, 0, 0);
    return 0;
  }
  { REQ(VK_FORKDONE); r.a[0] = p; r.a[1] = cs; return vk_do(&r, 0, 0, 0, 0); }
}
pid_t vfork(void) { return fork(); }

static int do_exec(const char *path, char *const argv[], int search)
{
  char in[8192], host[4096]; int o = 0, i, n = 0; long ret; char **ne; int cnt = 0, k = 0; char e1[64], e2[64];
  REQ(VK_EXEC);
  { int l = strlen(path) + 1; memcpy(in, path, l); o = l; }
  for (i = 0; argv[i] && o < 8000; i++) { int l = strlen(argv[i]) + 1; if (o + l > 8000) break; memcpy(in + o, argv[i], l); o += l; }
  r.a[0] = search; r.a[1] = i; r.in = in; r.inlen = o;
  ret = vk_do(&r, host, sizeof host - 1, &n, 0);
  if (ret != 0) return -1;
  host[n] = 0;
  while (environ && environ[cnt]) cnt++;
  ne = malloc(sizeof(char *) * (cnt + 4));
  for (i = 0; i < cnt; i++) if (strncmp(environ[i], "VK_SHMFD=", 9) && strncmp(environ[i], "VK_SLOT=", 8) && strncmp(environ[i], "LD_PRELOAD=", 11)) ne[k++] = environ[i];
  snprintf(e1, sizeof e1, "VK_SHMFD=%d", shmfd); snprintf(e2, sizeof e2, "VK_SLOT=%d", myslot);
  ne[k++] = e1; ne[k++] = e2;
  /* the controller hands down the LD_PRELOAD value after the host path */
  { static char lp[4200]; snprintf(lp, sizeof lp, "LD_PRELOAD=%s", host + strlen(host) + 1); ne[k++] = lp; }
  ne[k] = 0;
  syscall(SYS_execve, host, argv, ne);
  rawmsg("vk shim: real execve failed: "); rawmsg(host); rawmsg("\n"); rawexit(99);
}
int execv(const char *path, char *const argv[]) { return do_exec(path, argv, 0); }
int execvp(const char *file, char *const argv[]) { return do_exec(file, argv, 1); }
int execve(const char *path, char *const argv[], char *const envp[]) { (void) envp; return do_exec(path, argv, 0); }

pid_t waitpid(pid_t pid, int *status, int options)
{
  long a[6]; long ret; REQ(VK_WAITPID); r.a[0] = pid; r.a[1] = options;
  ret = vk_do(&r, 0, 0, 0, a); if (ret > 0 && status) *status = a[2]; return ret;
}
pid_t wait(int *status) { return waitpid(-1, status, 0); }
int kill(pid_t pid, int sig) { REQ(VK_KILL); r.a[0] = pid; r.a[1] = sig; return vk_do(&r, 0, 0, 0, 0); }

/* ---- signals (virtual) ---- */
int sigaction(int sig, const struct sigaction *act, struct sigaction *oact)
{
  long a[6]; long ret; REQ(VK_SIGACTION);
  r.a[0] = sig; r.a[1] = act ? 1 : 0; r.a[2] = act ? (long) act->sa_handler : 0; r.a[3] = act ? act->sa_flags : 0;
  ret = vk_do(&r, 0, 0, 0, a);
  if (ret == 0 && oact) { memset(oact, 0, sizeof *oact); oact->sa_handler = (void (*)(int)) a[4]; }
  return ret;
}
typedef void (*sighandler_t)(int);
sighandler_t signal(int sig, sighandler_t h)
{
  struct sigaction sa, old; memset(&sa, 0, sizeof sa); sa.sa_handler = h;
  if (sigaction(sig, &sa, &old) == -1) return SIG_ERR;
  return old.sa_handler;
}
int sigprocmask(int how, const sigset_t *set, sigset_t *oset)
{
  long a[6]; long ret; unsigned long m = 0; int s; REQ(VK_SIGPROCMASK);
  if (set) for (s = 1; s < 64; s++) if (sigismember(set, s) == 1) m |= 1UL << s;
  r.a[0] = how; r.a[1] = set ? 1 : 0; r.a[2] = m;
  ret = vk_do(&r, 0, 0, 0, a);
  if (ret == 0 && oset) { sigemptyset(oset); for (s = 1; s < 64; s++) if (a[4] & (1UL << s)) sigaddset(oset, s); }
  return ret;
}
int sigsuspend(const sigset_t *mask) { (void) mask; rawmsg("vk shim: sigsuspend not modelled\n"); rawexit(99); }

/* ---- directories ---- */
struct vkdir { int id; struct dirent de; };
DIR *opendir(const char *path)
{
  long ret; struct vkdir *d; REQ(VK_OPENDIR); r.in = path; r.inlen = strlen(path) + 1;
  ret = vk_do(&r, 0, 0, 0, 0);
  if (ret < 0) return 0;
  d = malloc(sizeof *d); d->id = ret; return (DIR *) d;
}
struct dirent *readdir(DIR *dp)
{
  struct vkdir *d = (struct vkdir *) dp; char b[300]; int n = 0; long a[6]; long ret; REQ(VK_READDIR); r.a[0] = d->id;
  ret = vk_do(&r, b, sizeof b - 1, &n, a);
  if (ret <= 0) return 0;
  b[n] = 0; memset(&d->de, 0, sizeof d->de);
  d->de.d_ino = a[0]; strncpy(d->de.d_name, b, sizeof d->de.d_name - 1); d->de.d_type = DT_UNKNOWN;
  return &d->de;
}
struct dirent64 *readdir64(DIR *dp) { return (struct dirent64 *) readdir(dp); }
int closedir(DIR *dp)
{
  struct vkdir *d = (struct vkdir *) dp; long ret; REQ(VK_CLOSEDIR); r.a[0] = d->id;
  ret = vk_do(&r, 0, 0, 0, 0); free(d); return ret;
}

/* ---- sockets (only what ipme.c / qmail-remote need) ---- */
int socket(int dom, int type, int proto) { REQ(VK_SOCKET); r.a[0] = dom; r.a[1] = type; r.a[2] = proto; return vk_do(&r, 0, 0, 0, 0); }
int connect(int fd, const struct sockaddr *sa, socklen_t len)
{
  REQ(VK_CONNECT); r.a[0] = fd; r.in = sa; r.inlen = len; return vk_do(&r, 0, 0, 0, 0);
}
int getpeername(int fd, struct sockaddr *sa, socklen_t *len)
{
  REQ(VK_GETPEERNAME); r.a[0] = fd; (void) sa; (void) len; return vk_do(&r, 0, 0, 0, 0);
}
/* resolver: the answer bytes come from the scenario; dn_expand and friends stay real */
extern int *__h_errno_location(void);
static int vk_resquery(const char *name, int class, int type, unsigned char *answer, int anslen)
{
  long aout[6]; long ret; int outlen = 0; REQ(VK_RESQUERY);
  r.a[0] = class; r.a[1] = type; r.a[2] = anslen; r.in = name; r.inlen = strlen(name) + 1;
  memset(aout, 0, sizeof aout);
  ret = vk_do(&r, answer, anslen, &outlen, aout);
  if (ret < 0) { *__h_errno_location() = (int) aout[0]; return -1; }
  return (int) ret;   /* the full length, which may exceed anslen, as the real resolver reports it */
}
int res_query(const char *n, int c, int t, unsigned char *a, int l) { return vk_resquery(n, c, t, a, l); }
int __res_query(const char *n, int c, int t, unsigned char *a, int l) { return vk_resquery(n, c, t, a, l); }
int res_search(const char *n, int c, int t, unsigned char *a, int l) { return vk_resquery(n, c, t, a, l); }
int __res_search(const char *n, int c, int t, unsigned char *a, int l) { return vk_resquery(n, c, t, a, l); }
int __res_init(void) { return 0; }
int res_init(void) { return 0; }
int ioctl(int fd, unsigned long reqno, ...)
{
  void *arg; va_list ap; va_start(ap, reqno); arg = va_arg(ap, void *); va_end(ap);
  if (reqno == SIOCGIFCONF) { struct ifconf *ifc = arg; REQ(VK_IOCTL); r.a[0] = fd; r.a[1] = reqno; if (vk_do(&r, 0, 0, 0, 0) == -1) return -1; ifc->ifc_len = 0; return 0; }
  errno = ENOTTY; return -1;
}

/* ---- stand-in support: ask the controller what this scripted program does ---- */
int vk_script(char *out, int cap) { int n = 0; REQ(VK_SCRIPT); vk_do(&r, out, cap, &n, 0); return n; }
