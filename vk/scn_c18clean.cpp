// C18 (cleanup helper): the real qmail-clean under the virtual kernel, fed one request at a time; every request
// of a bounded-exhaustive set; oracle on the paths passed to unlink() and the bytes answered per request.
#include "qmailenv.hpp"
using namespace vk;

static std::vector<std::string> g_requests;   // without the terminating NUL; a trailing "\1" marks "no terminator, then EOF"
static void odometer(const std::string &alpha, size_t maxlen, std::vector<std::string> &out, size_t minlen = 0) {
  for (size_t n = minlen; n <= maxlen; n++) {
    std::vector<int> idx(n, 0);
    for (;;) {
      std::string s; for (size_t i = 0; i < n; i++) s += alpha[idx[i]];
      out.push_back(s);
      int i = (int) n - 1; while (i >= 0 && ++idx[i] == (int) alpha.size()) { idx[i] = 0; i--; }
      if (i < 0) break;
    }
  }
}
static void make_requests(bool thorough) {
  if (!g_requests.empty()) return;
  std::vector<std::string> kw, suf, sufrep;
  odometer("fopt d/x" + std::string(1, 'd'), 0, kw);   // placeholder, replaced below
  kw.clear();
  odometer("foptd/x", 5, kw, 5);
  std::string salpha = std::string("12/.x") + '\xff';
  odometer(salpha, 4, suf);
  sufrep = {"1", "12", "1x", "x1", "", "1/", "../1", std::string("1") + '\xff', "123", "0", "01"};
  std::vector<std::string> near = {"foop/", "todo/", "foop", "todo", "todoX", "foopX", "fooq/", "toda/", "TODO/", "Foop/", "todo\\", "foop//", "todo/.", "intd/", "mess/", "info/", "pid/", "../fo"};
  if (thorough) { for (auto &k : kw) for (auto &s : suf) g_requests.push_back(k + s); }
  else {
    for (auto &k : kw) for (auto &s : sufrep) g_requests.push_back(k + s);
    for (auto &k : near) for (auto &s : suf) g_requests.push_back(k + s);
  }
  for (auto &k : near) for (auto &s : sufrep) g_requests.push_back(k + s);
  // lengths around the 7 / 100 limits, leading zeros, numbers at and beyond 2^64
  for (const char *pre : {"foop/", "todo/"}) {
    std::string p = pre;
    g_requests.push_back(p + std::string(93, '1')); g_requests.push_back(p + std::string(94, '1')); g_requests.push_back(p + std::string(95, '1'));
    g_requests.push_back(p + std::string(92, '0') + "12"); g_requests.push_back(p + std::string(93, '0') + "12");
    g_requests.push_back(p + "18446744073709551615"); g_requests.push_back(p + "18446744073709551616"); g_requests.push_back(p + "18446744073709551617");
    g_requests.push_back(p + "99999999999999999999999"); g_requests.push_back(p + "4294967297"); g_requests.push_back(p + "00000000000000000000000000000000012");
  }
  g_requests.push_back(std::string("foop/12") + '\1');   // unterminated at end of input
}

struct Expect { bool valid = false; std::vector<std::string> unlinks; std::string reply; };
static Expect expect_for(const std::string &q) {
  Expect e; e.reply = "x";
  if (!q.empty() && q.back() == '\1') { e.reply = ""; return e; }
  size_t len = q.size() + 1;
  if (len < 7 || len > 100) return e;
  bool foop = q.compare(0, 5, "foop/") == 0, todo = q.compare(0, 5, "todo/") == 0;
  if (!foop && !todo) return e;
  std::string num = q.substr(5);
  if (num.empty()) return e;
  unsigned __int128 v = 0; bool over = false;
  for (char c : num) { if (c < '0' || c > '9') return e; v = v * 10 + (c - '0'); if (v > (unsigned __int128) 0xFFFFFFFFFFFFFFFFULL) over = true; }
  if (over) return e;   // not a message number: nothing may be removed
  unsigned long n = (unsigned long) v;
  e.valid = true; e.reply = "+";
  e.unlinks.push_back("intd/" + std::to_string(n));
  e.unlinks.push_back(foop ? "mess/" + std::to_string(n % SPLIT) + "/" + std::to_string(n) : "todo/" + std::to_string(n));
  return e;
}

struct C18Clean : Scenario {
  const Config &cfg; size_t per_batch; size_t lo = 0, hi = 0, next = 0; bool fault_batch = false;
  int wr_ofd = -1; std::shared_ptr<Pipe> inpipe; std::shared_ptr<Sink> outsink; int pid = 0;
  std::vector<std::string> seen_unlinks; std::string seen_reply; std::string other_mutation; bool have_cur = false; std::string cur; bool eof_sent = false;
  int injected_fail_at = -1;   // index into seen_unlinks of an injected unlink failure
  C18Clean(const Config &c) : cfg(c) { make_requests(c.geti("thorough")); per_batch = c.geti("batch", 3000); }

  void setup(World &w) override {
    QmailEnv::build(w, cfg);
    Kernel &k = w.k;
    for (long n : {1L, 2L, 12L, 123L}) {
      k.put_file(QmailEnv::messpath(n), "message\n", 0644, UID_QMAILQ, GID_QMAIL); k.put_file(QmailEnv::qpath("intd", n, false), "env", 0644, UID_QMAILQ, GID_QMAIL);
      k.put_file(QmailEnv::qpath("todo", n, false), "env", 0644, UID_QMAILQ, GID_QMAIL); k.put_file(QmailEnv::qpath("info", n, true), "Fs@x", 0600, UID_QMAILS, GID_QMAIL);
    }
    size_t nb = (g_requests.size() + per_batch - 1) / per_batch;
    int b; { size_t lo = 0, size = (size_t) nb + 1; while (size > 1) { size_t span = 1; while (span * 240 < size) span *= 240; size_t cnt = (size + span - 1) / span; size_t d = (size_t) w.ex->choose_n((int) cnt, BK_FREE); lo += d * span; size = std::min(span, size - d * span); } b = (int) lo; }   // more batches than one choice point may have alternatives: several digits
    if (b == 0) { fault_batch = true; lo = hi = 0; }
    else { lo = (b - 1) * per_batch; hi = std::min(g_requests.size(), lo + per_batch); }
    next = lo;
    int r, wr; k.make_pipe(&r, &wr, 1 << 20); wr_ofd = wr; k.ofd_ref(wr); inpipe = k.ofds[wr]->pipe;
    std::map<int, int> fds; fds[0] = r; fds[1] = QmailEnv::sink(w, &outsink); fds[2] = QmailEnv::nullfd(w);
    pid = w.spawn("/var/qmail/bin/qmail-clean", {"qmail-clean"}, fds, UID_QMAILQ, GID_QMAIL, "/");
  }
  const std::vector<std::string> &fault_reqs() { static std::vector<std::string> v = {"foop/1", "todo/2", "foop/12", "todo/123", "foop/7", "todo/1", "fooq/1", "foop/2"}; return v; }

  bool verify(World &w) {
    if (!have_cur) return true;
    auto bad = [&](const std::string &kx, const std::string &t) { w.soft_violation(kx, t); };
    Expect e = expect_for(cur);
    bool huge = false; { size_t dg = 0; for (size_t i = 5; i < cur.size() && isdigit((unsigned char) cur[i]); i++) dg++; unsigned __int128 v = 0; if (cur.size() > 5 && dg == cur.size() - 5) { for (size_t i = 5; i < cur.size(); i++) { v = v * 10 + (cur[i] - '0'); if (v > (unsigned __int128) 0xFFFFFFFFFFFFFFFFULL) huge = true; } } }
    std::string key = std::string("qmail-clean:") + (huge ? "number>=2^64:" : "") + esc(cur.size() > 40 ? cur.substr(0, 20) + "..(" + std::to_string(cur.size()) + " bytes).." + cur.substr(cur.size() - 12) : cur);
    w.counters[e.valid ? "valid_requests" : "rejected_requests"]++;
    if (!other_mutation.empty()) { bad(key, "request [" + esc(cur) + "]: helper touched something other than unlink of queue files: " + other_mutation); return true; }
    if (injected_fail_at >= 0) {
      // an unlink failed with a real error: answer '!' and stop working on this request
      w.counters["unlink_failures_injected"]++;
      std::vector<std::string> want(e.unlinks.begin(), e.unlinks.begin() + std::min<size_t>(e.unlinks.size(), injected_fail_at + 1));
      if (seen_unlinks != want || seen_reply != "!") {
        std::string su; for (auto &u : seen_unlinks) su += u + " ";
        bad(key + ":unlink-error", "request [" + esc(cur) + "] with unlink #" + std::to_string(injected_fail_at + 1) + " failing: unlink calls [" + su + "], reply [" + esc(seen_reply) + "]; expected to stop after the failure and answer exactly '!'"); return true; }
      return true;
    }
    if (seen_reply != e.reply || seen_unlinks != e.unlinks) {
      std::string su, eu; for (auto &u : seen_unlinks) su += u + " "; for (auto &u : e.unlinks) eu += u + " ";
      bad(key, "request [" + esc(cur) + "]: unlink calls [" + su + "] reply [" + esc(seen_reply) + "]; documented: unlink [" + eu + "] reply [" + e.reply + "]"); return true;
    }
    return true;
  }

  bool on_quiescent(World &w) override {
    if (!verify(w)) return false;
    have_cur = false; seen_unlinks.clear(); seen_reply.clear(); other_mutation.clear(); injected_fail_at = -1;
    if (eof_sent) return false;
    const std::string *q = nullptr;
    if (fault_batch) { if (next < fault_reqs().size()) q = &fault_reqs()[next]; }
    else if (next < hi) q = &g_requests[next];
    if (!q) { inpipe->writers = 0; eof_sent = true; return true; }   // writer closes: EOF
    next++; cur = *q; have_cur = true;
    if (!cur.empty() && cur.back() == '\1') { inpipe->buf += cur.substr(0, cur.size() - 1); inpipe->writers = 0; eof_sent = true; }
    else { inpipe->buf += cur; inpipe->buf.push_back('\0'); }
    return true;
  }
  void alternatives(World &w, Proc &p, const Req &r, std::vector<Alt> &a) override {
    (void) w; (void) p;
    if (fault_batch && r.op == VK_UNLINK && strncmp(r.data.c_str(), "pid/", 4)) { a.push_back({BK_FAULT, ALT_FAIL, EIO}); a.push_back({BK_FAULT, ALT_FAIL, EISDIR}); }
  }
  void after_step(World &w, Proc &p, const Step &st) override {
    (void) w; (void) p;
    switch (st.op) {
      case VK_UNLINK: if (st.path.compare(0, 4, "pid/") == 0) break; if (st.injected) injected_fail_at = (int) seen_unlinks.size(); seen_unlinks.push_back(st.path); break;
      case VK_WRITE: if (st.a[0] == 1 && st.data) seen_reply += *st.data; else other_mutation = "write to descriptor " + std::to_string(st.a[0]); break;
      case VK_OPEN: if ((st.a[0] & O_ACCMODE) != O_RDONLY || (st.a[0] & (O_CREAT | O_TRUNC))) other_mutation = "open for writing: " + st.path; break;
      case VK_RENAME: case VK_LINK: case VK_FTRUNCATE: case VK_UTIMES: case VK_MKDIR: other_mutation = opname(st.op) + " " + st.path; break;
      default: break;
    }
  }
  void at_end(World &w) override {
    Proc *p = nullptr; for (auto &pp : w.procs) if (pp && pp->vpid == pid) p = pp.get();
    if (!p || p->st != P_ZOMBIE || p->status != 0) { w.violation("qmail-clean:exit", "qmail-clean did not exit 0 at end of input (status " + std::to_string(p ? p->status : -1) + ")"); return; }
    w.counters["sessions"]++;
    w.outcome_hash = fnv(1469598103934665603ULL, &lo, sizeof lo) ^ (fault_batch ? 77 : 0) ^ w.trace_hash;
    w.description = fault_batch ? "fault batch: 8 requests with unlink failures" : "requests #" + std::to_string(lo) + ".." + std::to_string(hi) + " e.g. [" + esc(g_requests[lo]) + "], [" + esc(g_requests[(lo + hi) / 2]) + "]";
  }
};

int main(int argc, char **argv) { return vk_main(argc, argv, [](const Config &c) -> Scenario * { return new C18Clean(c); }, "c18clean"); }
