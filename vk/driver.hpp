// Worker pool, replay and reporting around World/Explorer.  A scenario binary calls vk_main().
#pragma once
#include "engine.hpp"
#include <fstream>
#include <sstream>
#include <sys/stat.h>
#include <sched.h>

namespace vk {

struct Config {
  std::string srcdir, preload, standin, outdir = ".", replay, family;
  int workers = 16;
  int bounds[BK_NKINDS] = {1 << 20, 0, 0, 0, 0};
  int total = 8;
  double deadline_s = 600;
  long qcap = 600000, outcap = 1 << 22;
  long max_execs = -1;
  std::map<std::string, std::string> opt;
  std::string get(const std::string &kx, const std::string &d = "") const { auto it = opt.find(kx); return it == opt.end() ? d : it->second; }
  long geti(const std::string &kx, long d = 0) const { auto it = opt.find(kx); return it == opt.end() ? d : atol(it->second.c_str()); }
};

typedef std::function<Scenario *(const Config &)> Factory;

struct Runner {
  Config cfg; Factory factory; Explorer ex; vk_shm *shm = nullptr; int shmfd = -1;
  std::map<std::string, long> totals; std::vector<std::string> samples; std::map<std::string, std::string> softs;
  int wid = 0; long nexec = 0;

  void setup_shm() {
    int fd = syscall(SYS_memfd_create, "vkslots", 0);
    if (fd < 0 || ftruncate(fd, sizeof(vk_shm)) < 0) { perror("memfd"); exit(2); }
    if (dup2(fd, 200) < 0) { perror("dup2"); exit(2); }
    close(fd); shmfd = 200;
    shm = (vk_shm *) mmap(0, sizeof(vk_shm), PROT_READ | PROT_WRITE, MAP_SHARED, shmfd, 0);
    if (shm == MAP_FAILED) { perror("mmap slots"); exit(2); }
  }

  struct Result { bool violated = false; std::string key, text; uint64_t trace = 0; std::vector<std::string> tracelog; bool harness = false, starved = false; std::string hmsg; long steps = 0; std::string description; std::map<std::string, long> counters; uint64_t outcome = 0; std::string tree; std::vector<std::pair<std::string, std::string>> softs; };

  Result run_one(const Item *it, bool keep_trace) {
    Result res;
    std::unique_ptr<Scenario> scn(factory(cfg));
    World w; w.shm = shm; w.shmfd = shmfd; w.ex = &ex; w.scn = scn.get(); w.preload = cfg.preload; w.standin_bin = cfg.standin; w.keep_trace = keep_trace;
    for (int i = 0; i < VK_NSLOTS; i++) shm->slot[i].state = 0;
    ex.begin(it);
    try { w.run(); }
    catch (HarnessError &e) { res.harness = true; res.hmsg = e.msg; res.starved = e.starved && ex.new_outcomes == 0; }
    catch (Hang &h) { if (w.crash_soft) w.soft_violation(h.key, h.text); else w.violation(h.key, h.text); }
    w.kill_all_real();
    if (ex.diverged) { res.harness = true; res.hmsg = "nondeterminism: " + ex.diverge_msg; }
    res.violated = w.aborted; res.key = w.viol_key; res.text = w.viol_text; res.trace = w.trace_hash; res.tracelog = w.tracelog; res.steps = w.total_steps;
    res.description = w.description; res.counters = w.counters; res.outcome = w.outcome_hash; res.softs = w.softs;
    if (keep_trace) { w.k.dump_tree(w.k.root, "", res.tree, true); }
    return res;
  }

  static std::string item_str(const Item *it) {
    std::ostringstream o; if (!it) return "";
    for (int i = 0; i < it->ndev; i++) o << (i ? " " : "") << it->dev[i].idx << ":" << it->dev[i].alt << ":" << it->dev[i].kind;
    return o.str();
  }
  static bool parse_item(const std::string &s, Item *it) {
    memset((void *) it, 0, sizeof *it); std::istringstream in(s); std::string tok;
    while (in >> tok) { unsigned a, b, c; if (sscanf(tok.c_str(), "%u:%u:%u", &a, &b, &c) != 3) return false; if (it->ndev >= VK_MAXDEV) return false; it->dev[it->ndev].idx = a; it->dev[it->ndev].alt = b; it->dev[it->ndev].kind = c; if (c) it->used[c]++; it->ndev++; }
    it->sig = 0; return true;
  }

  void write_replay(const Item *it, const Result &r, const std::string &path) {
    std::ofstream f(path);
    f << "scenario=" << cfg.family << "\n";
    f << "options="; for (auto &o : cfg.opt) f << o.first << "=" << o.second << " "; f << "\n";
    f << "choices=" << item_str(it) << "\n";
    f << "key=" << r.key << "\n" << "violation=" << r.text << "\n";
    f << "--- trace (pid program call = result) ---\n";
    for (auto &l : r.tracelog) f << l << "\n";
    f << "--- final file tree ---\n" << r.tree;
  }

  void worker_loop() {
    prctl(PR_SET_CHILD_SUBREAPER, 1);
    // pin the controller and (by inheritance) all of its simulated processes to one CPU: a request/reply hand-off is then a
    // plain context switch on that CPU (no cross-CPU wake-up), which is several times cheaper and scales with the worker count
    { long ncpu = sysconf(_SC_NPROCESSORS_ONLN); cpu_set_t cs; CPU_ZERO(&cs); CPU_SET(wid % (ncpu > 0 ? ncpu : 1), &cs); sched_setaffinity(0, sizeof cs, &cs); }
    setup_shm();
    Shared *sh = ex.sh;
    double t0 = now_s();
    for (int L = 0; L < VK_MAXLEVEL; L++) {
      for (;;) {
        if (sh->stop.load()) goto done;
        if (now_s() - t0 > cfg.deadline_s) { sh->stop.store(2); goto done; }
        long h = sh->head[L].load(), t = sh->tail[L].load();
        if (h < t) {
          Item *it = &ex.items(L)[h];
          if (!it->ready.load(std::memory_order_acquire)) { usleep(50); continue; }
          sh->active++;
          if (!sh->head[L].compare_exchange_strong(h, h + 1)) { sh->active--; continue; }
          if (cfg.max_execs >= 0 && sh->stat[0].load() >= cfg.max_execs) { sh->active--; sh->stop.store(2); goto done; }
          Result r = run_one(it, false); nexec++;
          for (int again = 0; r.harness && r.starved && again < 2; again++) { sh->stat[VK_NSTAT - 2]++; r = run_one(it, false); }   // executions are deterministic: one lost to an overloaded machine is simply run again
          sh->stat[0]++; sh->stat[1] += r.steps; sh->stat[2] += ex.npoints; sh->level_execs[L]++;
          for (auto &c : r.counters) totals[c.first] += c.second;
          for (auto &sv : r.softs) if (softs.size() < 200 && !softs.count(sv.first)) softs[sv.first] = sv.second + " [choices " + item_str(it) + "]";
          if (r.harness && r.starved) {
            // still not runnable after two more attempts: this machine, not the code under test, failed to run the execution. It is left out
            // together with the deviations that would have branched off it, counted, and the run reports itself as not exhaustive.
            sh->stat[VK_NSTAT - 3]++; snprintf(sh->harness_msg, sizeof sh->harness_msg, "%s [choices %s]", r.hmsg.c_str(), item_str(it).c_str());
            sh->pending[L]--; sh->active--; continue;
          }
          if (r.harness) { snprintf(sh->harness_msg, sizeof sh->harness_msg, "%s [choices %s]", r.hmsg.c_str(), item_str(it).c_str()); sh->stop.store(3); sh->active--; goto done; }
          if (r.violated) {
            // replay twice with tracing; identical verdict and trace hash required
            Result r2 = run_one(it, true), r3 = run_one(it, true);
            if (r2.harness || !r2.violated || r2.key != r.key || r2.trace != r.trace || r3.trace != r.trace || r3.key != r.key) {
              snprintf(sh->harness_msg, sizeof sh->harness_msg, "violation not reproducible on replay (key %s vs %s, trace %lx vs %lx) [choices %s]", r.key.c_str(), r2.key.c_str(), (unsigned long) r.trace, (unsigned long) r2.trace, item_str(it).c_str());
              sh->stop.store(3); sh->active--; goto done;
            }
            int expected = 0;
            if (sh->stop.compare_exchange_strong(expected, 1)) {
              std::string path = cfg.outdir + "/replay-" + cfg.family + ".txt";
              write_replay(it, r2, path);
              snprintf(sh->viol_key, sizeof sh->viol_key, "%s", r.key.c_str()); snprintf(sh->viol_text, sizeof sh->viol_text, "%s", r.text.c_str()); snprintf(sh->viol_file, sizeof sh->viol_file, "%s", path.c_str());
            }
            sh->active--; goto done;
          }
          if (r.outcome) ex.outcome(r.outcome);
          if (samples.size() < 3 && !r.description.empty()) samples.push_back("[choices " + item_str(it) + "] " + r.description);
          ex.expand();
          sh->pending[L]--;
          sh->active--;
          continue;
        }
        if (sh->pending[L].load() == 0) break;
        usleep(200);
      }
      { int cl = sh->completed_level.load(); while (cl < L && !sh->completed_level.compare_exchange_weak(cl, L)) {} }
      { bool any = false; for (int M = L + 1; M < VK_MAXLEVEL; M++) if (sh->tail[M].load() > 0) any = true; if (!any) break; }
    }
  done:
    { std::ofstream f(cfg.outdir + "/worker-" + cfg.family + "-" + std::to_string(wid) + ".stats");
      for (auto &c : totals) f << "C " << c.first << " " << c.second << "\n";
      for (auto &s : samples) f << "S " << s << "\n";
      for (auto &sv : softs) { std::string t = sv.second; for (auto &ch : t) if (ch == '\n') ch = ' '; f << "V " << sv.first << "\t" << t << "\n"; } }
  }
};

static inline int vk_main(int argc, char **argv, Factory factory, const char *default_family) {
  Runner R; Config &cfg = R.cfg; cfg.family = default_family;
  for (int i = 1; i < argc; i++) {
    std::string a = argv[i];
    auto val = [&]() { if (i + 1 >= argc) { fprintf(stderr, "missing value for %s\n", a.c_str()); exit(2); } return std::string(argv[++i]); };
    if (a == "--src") cfg.srcdir = val(); else if (a == "--preload") cfg.preload = val(); else if (a == "--standin") cfg.standin = val();
    else if (a == "--out") cfg.outdir = val(); else if (a == "--workers") cfg.workers = atoi(val().c_str());
    else if (a == "--bounds") { std::string v = val(); int p = 0, f = 0, c = 0, e = 0; sscanf(v.c_str(), "%d,%d,%d,%d", &p, &f, &c, &e); cfg.bounds[BK_PREEMPT] = p; cfg.bounds[BK_FAULT] = f; cfg.bounds[BK_CRASH] = c; cfg.bounds[BK_ENV] = e; }
    else if (a == "--total") cfg.total = atoi(val().c_str()); else if (a == "--deadline") cfg.deadline_s = atof(val().c_str());
    else if (a == "--family") cfg.family = val(); else if (a == "--replay") cfg.replay = val(); else if (a == "--qcap") cfg.qcap = atol(val().c_str());
    else if (a == "--max-execs") cfg.max_execs = atol(val().c_str());
    else if (a.compare(0, 2, "-D") == 0) { size_t e = a.find('='); if (e == std::string::npos) cfg.opt[a.substr(2)] = "1"; else cfg.opt[a.substr(2, e - 2)] = a.substr(e + 1); }
    else { fprintf(stderr, "unknown argument %s\n", a.c_str()); exit(2); }
  }
  R.factory = factory;
  R.ex.sh = Explorer::create(cfg.qcap, cfg.outcap);
  for (int kx = 0; kx < BK_NKINDS; kx++) R.ex.bound[kx] = cfg.bounds[kx];
  R.ex.bound[BK_FREE] = 1 << 20; R.ex.total_bound = cfg.total;
  mkdir(cfg.outdir.c_str(), 0755);
  double t0 = now_s();
  if (!cfg.replay.empty()) {
    // replay: choices line from a replay file, or a literal choice string
    std::string choices = cfg.replay;
    { std::ifstream f(cfg.replay); if (f) { std::string l; while (std::getline(f, l)) { if (l.compare(0, 8, "choices=") == 0) choices = l.substr(8); if (l.compare(0, 8, "options=") == 0) { std::istringstream in(l.substr(8)); std::string kv; while (in >> kv) { size_t e = kv.find('='); if (e != std::string::npos && !cfg.opt.count(kv.substr(0, e))) cfg.opt[kv.substr(0, e)] = kv.substr(e + 1); } } } } }
    Item it; if (!Runner::parse_item(choices, &it)) { fprintf(stderr, "cannot parse choices '%s'\n", choices.c_str()); return 2; }
    R.setup_shm(); prctl(PR_SET_CHILD_SUBREAPER, 1);
    Runner::Result r = R.run_one(&it, true);
    for (auto &l : r.tracelog) printf("%s\n", l.c_str());
    printf("--- final file tree ---\n%s", r.tree.c_str());
    if (r.harness) { printf("HARNESS-ERROR %s\n", r.hmsg.c_str()); return 2; }
    for (auto &sv : r.softs) printf("FAIL %s %s\n", sv.first.c_str(), sv.second.c_str());
    if (r.violated) { printf("FAIL %s %s\n", r.key.c_str(), r.text.c_str()); return 1; }
    if (!r.softs.empty()) return 1;
    printf("replay: no violation (%s)\n", r.description.c_str());
    return 0;
  }
  // root item
  { Item *root = &R.ex.items(0)[0]; memset((void *) root, 0, sizeof *root); R.ex.sh->tail[0].store(1); R.ex.sh->pending[0].store(1); root->ready.store(1); }
  std::vector<pid_t> kids;
  for (int i = 0; i < cfg.workers; i++) {
    pid_t pid = fork();
    if (pid == 0) { R.wid = i; R.worker_loop(); _exit(0); }
    kids.push_back(pid);
  }
  bool worker_crashed = false;
  for (pid_t pid : kids) { int st; waitpid(pid, &st, 0); if (!WIFEXITED(st) || WEXITSTATUS(st) != 0) worker_crashed = true; }
  Shared *sh = R.ex.sh;
  std::map<std::string, long> totals; std::vector<std::string> samples; std::map<std::string, std::string> softs;
  for (int i = 0; i < cfg.workers; i++) {
    std::string fn = cfg.outdir + "/worker-" + cfg.family + "-" + std::to_string(i) + ".stats";
    std::ifstream f(fn); std::string l;
    while (std::getline(f, l)) { if (l.compare(0, 2, "C ") == 0) { std::istringstream in(l.substr(2)); std::string kx; long v; in >> kx >> v; totals[kx] += v; } else if (l.compare(0, 2, "S ") == 0 && samples.size() < 6) samples.push_back(l.substr(2));
      else if (l.compare(0, 2, "V ") == 0) { size_t tb = l.find('\t'); if (tb != std::string::npos) softs[l.substr(2, tb - 2)] = l.substr(tb + 1); } }
    unlink(fn.c_str());
  }
  int stop = sh->stop.load();
  if (worker_crashed && stop != 1) { printf("HARNESS-ERROR worker process crashed\n"); return 2; }
  if (stop == 3) { printf("HARNESS-ERROR %s\n", sh->harness_msg); return 2; }
  printf("STAT evaluations=%ld transitions=%ld states=%ld choice_points=%ld distinct_nontrivial=%ld traces_validated_against_impl=%ld",
         sh->stat[0].load(), sh->stat[1].load(), sh->noutcomes.load(), sh->stat[2].load(), sh->noutcomes.load(), sh->stat[0].load());
  for (auto &c : totals) printf(" %s=%ld", c.first.c_str(), c.second);
  printf("\n");
  { std::string le; for (int L = 0; L < VK_MAXLEVEL; L++) if (sh->level_execs[L].load()) le += " L" + std::to_string(L) + "=" + std::to_string(sh->level_execs[L].load());
    printf("NOTE %s: bounds preempt=%d fault=%d crash=%d env=%d total=%d; executions per deviation level:%s; completed level %d; %.1fs\n", cfg.family.c_str(),
           cfg.bounds[BK_PREEMPT], cfg.bounds[BK_FAULT], cfg.bounds[BK_CRASH], cfg.bounds[BK_ENV], cfg.total, le.c_str(), sh->completed_level.load(), now_s() - t0); }
  for (auto &s : samples) printf("SAMPLE %s\n", s.c_str());
  if (sh->stat[VK_NSTAT - 3].load()) printf("CAPPED %s: %ld execution(s) could not be run on this machine (a simulated process got no CPU; last: %s) and were left out with the deviations branching off them\n", cfg.family.c_str(), sh->stat[VK_NSTAT - 3].load(), sh->harness_msg);
  if (stop == 2) printf("CAPPED %s: time/queue cap hit; deviation levels fully covered: 0..%d\n", cfg.family.c_str(), sh->completed_level.load());
  for (auto &sv : softs) printf("FAIL %s %s\n", sv.first.c_str(), sv.second.c_str());
  if (stop == 1) { printf("FAIL %s %s (replay: %s)\n", sh->viol_key, sh->viol_text, sh->viol_file); return 1; }
  return softs.empty() ? 0 : 1;
}

}  // namespace vk
