// qmail-local under the virtual kernel.  Serves C12 (maildir atomic, mbox rolled back) and C13 (delivery instructions).
// One delivery (or 2-3 concurrent ones) per execution; inputs selected by free choices at setup.
#include "qmailenv.hpp"
using namespace vk;

static std::string RP(const std::string &quoted_sender) { std::string s = "Return-Path: <" + quoted_sender; for (auto &c : s) if (c == '\n') c = '_'; return s + ">\n"; }
static std::string DT(const std::string &local, const std::string &host) { std::string s = "Delivered-To: " + local + "@" + host; for (auto &c : s) if (c == '\n') c = '_'; return s + "\n"; }

// reference mboxrd reader (mbox(5) "HOW A MESSAGE IS READ")
static std::vector<std::pair<std::string, std::string>> read_mbox(const std::string &f) {
  std::vector<std::pair<std::string, std::string>> out; std::vector<std::string> lines; size_t i = 0;
  while (i < f.size()) { size_t j = f.find('\n', i); if (j == std::string::npos) { lines.push_back(f.substr(i)); break; } lines.push_back(f.substr(i, j - i + 1)); i = j + 1; }
  int cur = -1;
  for (auto &l : lines) {
    if (l.compare(0, 5, "From ") == 0) { out.push_back({l, ""}); cur = (int) out.size() - 1; continue; }
    if (cur < 0) { out.push_back({"(no From_ line)", ""}); cur = 0; }
    size_t g = 0; while (g < l.size() && l[g] == '>') g++;
    if (g > 0 && l.compare(g, 5, "From ") == 0) out[cur].second += l.substr(1); else out[cur].second += l;
  }
  for (auto &m : out) if (!m.second.empty() && m.second.back() == '\n' && (m.second.size() == 1 || m.second[m.second.size() - 2] == '\n')) m.second.pop_back();   // strip the final blank line
  return out;
}

struct Deliv { int pid = 0; std::string msg, sender; int exitcode = -1; bool done = false; bool killed = false; };

struct Local : Scenario {
  const Config &cfg; std::string mode; std::vector<Deliv> d; std::string host = "host.example"; std::string oldmbox;
  std::string c12_local = "u";   // the recipient's local part in the maildir/mbox modes (one variant contains a line feed)
  bool timer_fired = false;   // ALT_SIGNAL: the pending alarm of a delivery process was made to expire
  bool crashed = false; int faults = 0; std::string inputname; std::shared_ptr<Sink> out1, err2;
  std::vector<std::string> actions;   // observed: "program <cmd>", "maildir", "mbox <file>", "forward <sender> -> <rcpts>"
  // C13
  std::string ext, dash, localpart; std::map<std::string, std::pair<std::string, int>> homefiles; int homemode = 0755; bool dryrun = false; std::string message; std::string sender = "s@src.example";
  std::vector<std::string> want_actions; int want_exit = 0; bool want_known = true; std::string casename; int patrn = 002;
  Local(const Config &c) : cfg(c) { mode = c.get("mode", "maildir"); }

  static std::vector<std::string> mbox_messages(bool thorough) {
    std::vector<std::string> v; const char *toks[] = {"From x\n", ">From y\n", ">>From z\n", "From\n", ">\n", "x\n", "\n"};
    int maxl = thorough ? 4 : 3;
    std::vector<int> idx;
    for (int n = 0; n <= maxl; n++) { idx.assign(n, 0); for (;;) { std::string m; for (int i = 0; i < n; i++) m += toks[idx[i]]; v.push_back(m); if (n) { std::string p = m; p.pop_back(); v.push_back(p); } int i = n - 1; while (i >= 0 && ++idx[i] == 7) { idx[i] = 0; i--; } if (i < 0) break; } }
    v.push_back(std::string("a\0b\n\xff\xfe\n", 7)); v.push_back("From "); v.push_back(">From "); v.push_back("From"); v.push_back(std::string(1023, 'x') + "\n"); v.push_back(std::string(1024, 'x') + "\n"); v.push_back(std::string(1025, 'y')); v.push_back(std::string(3000, 'z') + "\nFrom end\n");
    return v;
  }
  static std::vector<std::string> senders() { return {"a@b.example", "", "#@[]", "a b@c", "a\tb@c", "a\nb@c", "x@y z"}; }

  int spawn_local(World &w, const std::string &msg, const std::string &snd, const std::string &defdeliv, const std::string &lp = "u", const std::string &dsh = "", const std::string &ex = "", bool n = false) {
    Kernel &k = w.k;
    int ino = k.put_file("/var/qmail/queue/mess/0/" + std::to_string(900 + d.size()), msg, 0644, UID_QMAILQ, GID_QMAIL);
    int o = k.new_ofd(); k.ofds[o]->kind = K_FILE; k.ofds[o]->ino = ino; k.ofds[o]->flags = O_RDONLY; k.I(ino)->openrefs++;
    std::map<int, int> fds; fds[0] = o; fds[1] = QmailEnv::sink(w, &out1); fds[2] = QmailEnv::sink(w, &err2);
    std::vector<std::string> av = {"qmail-local"}; if (n) av.push_back("-n"); av.push_back("--");
    for (auto &a : {std::string("u"), std::string("/home/u"), lp, dsh, ex, host, snd, defdeliv}) av.push_back(a);
    int pid = w.spawn("/var/qmail/bin/qmail-local", av, fds, 1000, 1000, "/");
    Deliv dl; dl.pid = pid; dl.msg = msg; dl.sender = snd; d.push_back(dl);
    return pid;
  }

  void setup(World &w) override {
    QmailEnv::build(w, cfg, true);
    Kernel &k = w.k;
    { FILE *f = fopen((cfg.srcdir + "/conf-patrn").c_str(), "r"); if (f) { unsigned v = 2; if (fscanf(f, "%o", &v) == 1) patrn = v; fclose(f); } }
    k.passwd.push_back({"u", 1000, 1000, "/home/u"});
    k.mkdir_p("/home/u", 0755, 1000, 1000);
    w.exectab["/bin/sh"] = "@sh";
    bool th = cfg.geti("thorough");
    if (mode == "maildir") {
      for (auto dd : {"new", "cur", "tmp"}) k.mkdir_p(std::string("/home/u/Maildir/") + dd, 0700, 1000, 1000);
      std::vector<std::string> ms = {"", "x", std::string(1023, 'a') + "\n", std::string(1024, 'b'), std::string(1025, 'c') + "\n", "Subject: s\n\n" + std::string(3000, 'd') + "\nlast", std::string("nul\0and\xff 8bit\n", 15)};
      std::vector<std::string> ss = senders();
      int mi = w.ex->choose_n((int) ms.size(), BK_FREE), si = w.ex->choose_n((int) ss.size(), BK_FREE);
      if (w.ex->choose_n(2, BK_FREE)) c12_local = "list\nFrom owner";   // a local part with a line feed (the address rules allow it): it must not break the Delivered-To line
      inputname = "msg#" + std::to_string(mi) + "(" + std::to_string(ms[mi].size()) + "B) sender[" + esc(ss[si]) + "] local[" + esc(c12_local) + "]";
      if (cfg.geti("two")) { spawn_local(w, ms[mi], ss[si], "./Maildir/", c12_local); spawn_local(w, ms[(mi + 1) % ms.size()], ss[si], "./Maildir/", c12_local); }
      else spawn_local(w, ms[mi], ss[si], "./Maildir/", c12_local);
    } else if (mode == "mbox") {
      auto ms = mbox_messages(th); auto ss = senders();
      int mi = w.ex->choose_n(std::min<int>((int) ms.size(), 240), BK_FREE);
      int mj = ms.size() > 240 ? w.ex->choose_n((int) ((ms.size() + 239) / 240), BK_FREE) : 0;
      size_t m = (size_t) mj * 240 + mi; if (m >= ms.size()) m = ms.size() - 1;
      int si = w.ex->choose_n((int) ss.size(), BK_FREE);
      oldmbox = cfg.geti("emptybox") ? "" : "From old@x Thu Jan  1 00:00:00 1970\nold message\n\n";
      k.put_file("/home/u/Mailbox", oldmbox, 0600, 1000, 1000);
      if (w.ex->choose_n(2, BK_FREE)) c12_local = "list\nFrom owner";
      inputname = "msg[" + esc(ms[m], 40) + "] sender[" + esc(ss[si]) + "] local[" + esc(c12_local) + "]";
      spawn_local(w, ms[m], ss[si], "./Mailbox", c12_local);
    } else if (mode == "mboxconc") {
      oldmbox = "From old@x Thu Jan  1 00:00:00 1970\nold message\n\n";
      k.put_file("/home/u/Mailbox", oldmbox, 0600, 1000, 1000);
      int n = cfg.geti("n", 2);
      for (int i = 0; i < n; i++) spawn_local(w, "Subject: m" + std::to_string(i) + "\n\n" + std::string(1500, 'A' + i) + "\nFrom inside " + std::to_string(i) + "\n", "s" + std::to_string(i) + "@x", "./Mailbox");
      inputname = std::to_string(n) + " concurrent mbox deliveries";
    } else setup_c13(w);
  }

  int ticks = 0; bool anykill = false;
  bool on_quiescent(World &w) override { long dl = w.next_deadline(); if (dl < 0 || ++ticks > 50) return false; w.advance_clock(dl); w.counters["clock_advances"]++; return true; }
  // ------------------------------------------------------------------ alternatives: crash points and faults
  void alternatives(World &w, Proc &p, const Req &r, std::vector<Alt> &a) override {
    if (mode == "c13") {
      // the 30-second lock timer belongs to the lock wait alone: were it still pending at any later call (a program running, a forward), it could run out there
      if (cfg.get("family", "") == "instr" && w.ex->bound[BK_ENV] > 0 && p.vpid == d[0].pid && p.alarm_at > 0 && r.op != VK_FLOCK && r.op != VK_ALARM && !timer_fired) { a.push_back({BK_ENV, ALT_SIGNAL, SIGALRM}); return; }
      // family qmailio: the selected control file cannot be opened (each of a list of error codes) or read, or is read in short pieces
      if (cfg.get("family", "") != "qmailio" || w.ex->bound[BK_FAULT] <= 0 || p.vpid != d[0].pid) return;
      if (r.op == VK_OPEN && std::string(r.data.c_str()).compare(0, 6, ".qmail") == 0) for (int e : {EIO, ENFILE, EMFILE, ENOMEM, EACCES, EPERM, EAGAIN, ENOSPC, ETXTBSY, EBUSY}) a.push_back({BK_FAULT, ALT_FAIL, e});
      if (r.op == VK_READ) { Ofd *f = w.O(p, r.a[0]); Inode *i = (f && f->kind == K_FILE) ? w.k.I(f->ino) : nullptr; bool dq = false; for (auto &hf : homefiles) if (i && w.k.file("/home/u/" + hf.first) == i) dq = true;
        if (dq) { a.push_back({BK_FAULT, ALT_FAIL, EIO}); size_t left = i->data.size() > (size_t) f->off ? i->data.size() - f->off : 0; if (left > 1) { a.push_back({BK_FAULT, ALT_SHORT, 1}); a.push_back({BK_FAULT, ALT_SHORT, (int) (left / 2)}); if (left > 2) a.push_back({BK_FAULT, ALT_SHORT, (int) left - 1}); } } }
      return;
    }
    bool fileop = false; Ofd *o = nullptr;
    switch (r.op) { case VK_WRITE: case VK_FSYNC: case VK_CLOSE: case VK_FTRUNCATE: case VK_READ: o = w.O(p, r.a[0]); fileop = o && o->kind == K_FILE; break; case VK_OPEN: case VK_LINK: case VK_UNLINK: case VK_FORK: fileop = true; break; case VK_FLOCK: fileop = true; break; default: break; }
    if (!fileop) return;
    if (w.ex->bound[BK_CRASH] > 0 && r.op != VK_READ) { a.push_back({BK_CRASH, ALT_KILL, 0}); a.push_back({BK_CRASH, ALT_MACHINE_CRASH, 0}); }
    if (w.ex->bound[BK_ENV] > 0 && p.alarm_at > 0 && !timer_fired) a.push_back({BK_ENV, ALT_SIGNAL, SIGALRM});   // the program's own timer (lock wait 30 s, maildir delivery 24 h) runs out before this call: a slow disk
    if (w.ex->bound[BK_FAULT] > 0) {
      switch (r.op) {
        case VK_WRITE: a.push_back({BK_FAULT, ALT_FAIL, ENOSPC}); if (r.a[1] > 1) a.push_back({BK_FAULT, ALT_SHORT, (int) r.a[1] / 2}); break;
        case VK_FSYNC: a.push_back({BK_FAULT, ALT_FAIL, EIO}); break;
        case VK_CLOSE: if ((o->flags & O_ACCMODE) != O_RDONLY) a.push_back({BK_FAULT, ALT_FAIL, EIO}); break;
        case VK_LINK: a.push_back({BK_FAULT, ALT_FAIL, EIO}); a.push_back({BK_FAULT, ALT_FAIL, EEXIST}); break;
        case VK_OPEN: if (r.a[0] & O_CREAT) { a.push_back({BK_FAULT, ALT_FAIL, ENOSPC}); a.push_back({BK_FAULT, ALT_FAIL, EEXIST}); } else a.push_back({BK_FAULT, ALT_FAIL, EIO}); break;
        case VK_READ: a.push_back({BK_FAULT, ALT_FAIL, EIO}); break;
        case VK_FORK: a.push_back({BK_FAULT, ALT_FAIL, EAGAIN}); break;
        default: break;
      }
    }
  }
  bool local_op(World &w, Proc &p, const Req &r) override {
    if (mode != "mboxconc") return false;
    // the concurrent deliveries share only Mailbox (and its lock); everything else is private to each process
    if (r.op == VK_READ || r.op == VK_WRITE || r.op == VK_FSYNC || r.op == VK_FTRUNCATE || r.op == VK_FLOCK || r.op == VK_CLOSE) { Ofd *o = w.O(p, r.a[0]); return !(o && o->ino && w.k.I(o->ino) == w.k.file("/home/u/Mailbox")); }
    if (r.op == VK_OPEN) return std::string(r.data.c_str()) != "./Mailbox";
    return r.op != VK_EXIT;
  }

  // ------------------------------------------------------------------ C12 invariants
  bool valid_entry(const std::string &data, const Deliv &x, bool mbox_partial_nl) {
    // Return-Path line (one line), Delivered-To line, then exactly the message
    size_t e1 = data.find('\n'); if (e1 == std::string::npos) return false;
    std::string l1 = data.substr(0, e1 + 1);
    if (l1.compare(0, 14, "Return-Path: <") != 0 || l1.size() < 16 || l1.compare(l1.size() - 2, 2, ">\n") != 0) return false;
    std::string rest = data.substr(e1 + 1), dt = DT(c12_local, host);
    if (rest.compare(0, dt.size(), dt) != 0) return false;
    std::string body = rest.substr(dt.size());
    if (body == x.msg) return true;
    if (mbox_partial_nl && !x.msg.empty() && x.msg.back() != '\n' && body == x.msg + "\n") return true;
    return false;
  }
  void check_maildir(World &w, const char *when) {
    Kernel &k = w.k;
    for (auto &n : k.listdir("/home/u/Maildir/new")) {
      Inode *f = k.file("/home/u/Maildir/new/" + n);
      bool ok = false; for (auto &x : d) if (valid_entry(f->data, x, false)) ok = true;
      if (!ok) { w.violation("C12:maildir-incomplete-file:" + inputname, std::string(when) + ": new/" + n + " is visible but is not a complete message (" + std::to_string(f->data.size()) + " bytes): [" + esc(f->data, 80) + "]"); return; }
      if (f->synced != f->data) { w.violation("C12:maildir-unsynced-file:" + inputname, std::string(when) + ": new/" + n + " is visible but its data is not on disk yet (no fsync before link)"); return; }
      w.counters["maildir_files_checked"]++;
    }
  }
  void after_step(World &w, Proc &p, const Step &st) override {
    if (st.sigraised) { timer_fired = true; faults++; w.counters["timers_expired"]++; return; }   // counted as a fault: the delivery may legitimately be deferred
    if (st.injected && st.err) faults++;
    if (st.op == VK_KILL) { for (auto &x : d) if (x.pid == p.vpid) x.killed = true; anykill = true; w.counters["process_kills"]++; }
    if (mode == "maildir" && (st.op == VK_LINK || st.op == VK_KILL || st.op == VK_RENAME || st.op == VK_WRITE)) check_maildir(w, ("after " + opname(st.op)).c_str());
    if (mode == "c13") {
      if (st.op == VK_LINK && st.ret == 0 && st.path2.compare(0, 4, "new/") == 0) actions.push_back("maildir " + p.cwdpath.substr(p.cwdpath.rfind('/') + 1));
      if (st.op == VK_OPEN && st.ret >= 0 && (st.a[0] & O_APPEND) && st.path.compare(0, 2, "./") == 0) actions.push_back("mbox " + st.path);
      if (st.op == VK_LINK && st.ret == 0 && st.path2.compare(0, 5, "todo/") == 0) { Inode *t = w.k.file("/var/qmail/queue/" + st.path2); std::string env = t ? t->data : ""; std::string s, r; size_t i = 0; while (i < env.size()) { size_t j = env.find('\0', i); if (j == std::string::npos) break; if (env[i] == 'F') s = env.substr(i + 1, j - i - 1); if (env[i] == 'T') r += (r.empty() ? "" : ",") + env.substr(i + 1, j - i - 1); i = j + 1; } actions.push_back("forward " + s + " -> " + r); }
    }
  }
  void after_machine_crash(World &w) override { crashed = true; w.counters["machine_crashes"]++; if (mode == "maildir") check_maildir(w, "after a machine crash"); }
  void on_proc_exit(World &w, Proc &p) override { if (mode == "c13") w.k.clock++;   /* time passes between two deliveries of one .qmail file (otherwise pid re-use within one second makes maildir names collide) */ for (auto &x : d) if (x.pid == p.vpid) { x.done = true; x.exitcode = (p.status & 127) ? 1000 + (p.status & 127) : (p.status >> 8) & 255; } }
  std::string script(World &w, Proc &p) override {
    // /bin/sh -c "<cmd>": the stand-in understands "exit N"
    (void) w; std::string cmd = p.argv.size() > 2 ? p.argv[2] : ""; actions.push_back("program " + cmd);
    int code = 0; size_t e = cmd.find("exit "); if (e != std::string::npos) code = atoi(cmd.c_str() + e + 5);
    std::string a; int v = VKA_EXIT; a.append((char *) &v, 4); a.append((char *) &code, 4); return a;
  }

  void at_end(World &w) override {
    Kernel &k = w.k;
    if (mode == "c13") { end_c13(w); return; }
    if (mode == "maildir") {
      check_maildir(w, "at the end"); if (w.aborted) return;
      std::set<std::string> names; for (auto &n : k.listdir("/home/u/Maildir/new")) names.insert(n);
      for (auto &x : d) {
        if (crashed || x.killed) continue;
        bool present = false; for (auto &n : names) if (valid_entry(k.file("/home/u/Maildir/new/" + n)->data, x, false)) present = true;
        if (x.exitcode == 0 && !present) { w.violation("C12:maildir-success-without-file:" + inputname, "qmail-local reported success (exit 0) but no complete file for the message is in new/"); return; }
        if (x.exitcode != 0 && x.exitcode != 111) { w.violation("C12:maildir-exit-code:" + inputname, "exit code " + std::to_string(x.exitcode) + ", documented 0 or 111"); return; }
        if (x.exitcode == 111 && present && faults == 0 && !anykill) { w.violation("C12:maildir-failure-with-file", "temporary failure reported although the message is in new/ and nothing failed"); return; }
        w.counters[x.exitcode == 0 ? "deliveries_ok" : "deliveries_deferred"]++;
      }
      if (!crashed) { size_t okc = 0; for (auto &x : d) if (x.exitcode == 0) okc++; if (names.size() < okc) { w.violation("C12:maildir-name-collision", std::to_string(okc) + " deliveries reported success but only " + std::to_string(names.size()) + " files exist in new/: two deliveries used the same name"); return; } }
    } else {
      Inode *mb = k.file("/home/u/Mailbox"); std::string f = mb ? mb->data : "";
      if (crashed) { w.description = inputname + ": machine crash (mbox is documented as not crash-proof)"; w.counters["mbox_crash_runs"]++; return; }
      if (f.compare(0, oldmbox.size(), oldmbox) != 0) { w.violation("C12:mbox-old-content-damaged:" + inputname, "the previous content of the mbox was modified: now [" + esc(f, 120) + "]"); return; }
      auto entries = read_mbox(f.substr(oldmbox.size()));
      std::vector<bool> used(entries.size(), false);
      for (auto &x : d) {
        if (x.killed) continue;
        int found = -1; for (size_t i = 0; i < entries.size(); i++) if (!used[i] && valid_entry(entries[i].second, x, true)) { found = (int) i; break; }
        if (x.exitcode == 0) {
          if (found < 0) { w.violation("C12:mbox-entry-not-recoverable:" + inputname, "delivery reported success but the mbox reader of mbox(5) does not get the delivered message back; appended bytes: [" + esc(f.substr(oldmbox.size()), 200) + "]"); return; }
          used[found] = true;
          // From_ line: "From <one word> <24-character date>\n"
          const std::string &fl = entries[found].first; size_t sp = fl.find(' ', 5);
          std::string snd = x.sender.empty() ? "MAILER-DAEMON" : x.sender; for (auto &c : snd) if (c == ' ' || c == '\t' || c == '\n') c = '-';
          if (sp == std::string::npos || fl.substr(5, sp - 5) != snd || fl.size() != sp + 1 + 24 + 1) { w.violation("C12:mbox-from-line:" + inputname, "From_ line is [" + esc(fl) + "]; documented: From <sender as one word> <24-character date>"); return; }
          w.counters["deliveries_ok"]++;
        } else {
          if (x.exitcode != 111) { w.violation("C12:mbox-exit-code:" + inputname, "exit code " + std::to_string(x.exitcode) + ", documented 0 or 111"); return; }
          if (found >= 0) { w.violation("C12:mbox-not-rolled-back:" + inputname, "delivery reported temporary failure but its entry is in the mbox (no truncation back to the previous length)"); return; }
          w.counters["deliveries_deferred"]++;
        }
      }
      for (size_t i = 0; i < entries.size(); i++) if (!used[i]) { bool killed_any = false; for (auto &x : d) if (x.killed) killed_any = true; if (!killed_any) { w.violation("C12:mbox-garbage:" + inputname, "the mbox contains bytes that are not a complete entry of a successful delivery: [" + esc(entries[i].first + entries[i].second, 160) + "] (a failed or interleaved write was left behind)"); return; } }
    }
    uint64_t h = fnvs(7, inputname); for (auto &x : d) h = fnv(h, &x.exitcode, sizeof x.exitcode); std::string tree; k.dump_tree(k.lookup(k.root, "/home/u"), "", tree, false); w.outcome_hash = fnvs(h, tree);
    std::string ex; for (auto &x : d) ex += (ex.empty() ? "" : ",") + (x.killed ? std::string("killed") : std::to_string(x.exitcode));
    w.description = mode + " " + inputname + ": exit " + ex + (crashed ? ", machine crash" : "") + (faults ? ", " + std::to_string(faults) + " fault(s)" : "");
  }

  // ================================================================== C13
  struct Instr { std::string line; };
  void setup_c13(World &w);
  void end_c13(World &w);
};

// ---- C13: reference interpreter of dot-qmail(5) / qmail-command(8) ----
void Local::setup_c13(World &w) {
  Kernel &k = w.k; std::string fam = cfg.get("family", "select");
  for (auto dd : {"new", "cur", "tmp"}) k.mkdir_p(std::string("/home/u/maildir/") + dd, 0700, 1000, 1000);
  message = "Subject: t\nTo: someone\n\nbody\n"; homemode = 0755; dryrun = true; sender = "s@src.example";
  std::string body_default = "";
  auto addfile = [&](const std::string &n, const std::string &b, int m) { homefiles[n] = {b, m}; };
  if (fam == "select") {
    static const char *names[] = {".qmail", ".qmail-a", ".qmail-a-default", ".qmail-a-b", ".qmail-default", ".qmail-a:b", ".qmail-a-b-default", ".qmail-zaz"};
    static const char *exts[] = {"", "a", "A", "a-b", "a-b-c", "a.b", "a-", "a/../x", "default", "a-default", "a-b-", "A.B", "-", "b", "ZAZ", "zaZ"};   // Z: the last letter the lower-casing must reach
    int sub = w.ex->choose_n(128, BK_FREE) * 2 + w.ex->choose_n(2, BK_FREE), ei = w.ex->choose_n(16, BK_FREE);
    for (int i = 0; i < 8; i++) if (sub & (1 << i)) addfile(names[i], std::string("./chosen") + (names[i] + 6) + "\n", 0600);
    ext = exts[ei]; casename = "files=" + std::to_string(sub) + " ext=" + ext;
  } else if (fam == "perm") {
    static const int fmodes[] = {0600, 0622, 0700, 0602, 0640, 0711}; static const int hmodes[] = {0755, 01755, 0757, 0775, 0700};
    static const char *bodies[] = {"./mbox\n", "&fwd@x.example\n", "|exit 0\n", "./maildir/\n", ""};
    int fi = w.ex->choose_n(6, BK_FREE), hi = w.ex->choose_n(5, BK_FREE), bi = w.ex->choose_n(5, BK_FREE), dr = w.ex->choose_n(2, BK_FREE), which = w.ex->choose_n(2, BK_FREE);
    ext = which ? "list" : ""; addfile(which ? ".qmail-list" : ".qmail", bodies[bi], fmodes[fi]); homemode = hmodes[hi]; dryrun = dr == 0;
    char b[100]; snprintf(b, sizeof b, "perm file=%o home=%o body#%d %s ext=%s", fmodes[fi], hmodes[hi], bi, dryrun ? "-n" : "real", ext.c_str()); casename = b;
  } else if (fam == "instr") {
    static const char *ins[] = {"# comment", "", "|exit 0", "|exit 99", "|exit 100", "|exit 111", "|exit 64", "|exit 1", "./mbox", "./maildir/", "&fwd@x.example", "fwd2@y.example", "+list", "|exit 0  \t", "./maildir/ \t", "./mbox  "};   /* trailing blanks are ignored on every kind of line */
    int n = 1 + w.ex->choose_n(cfg.geti("thorough") ? 4 : 3, BK_FREE); std::string body; casename = "instr";
    for (int i = 0; i < n; i++) { int c = w.ex->choose_n(16, BK_FREE); body += std::string(ins[c]) + "\n"; casename += " [" + std::string(ins[c]) + "]"; }
    if (w.ex->choose_n(2, BK_FREE)) { body.pop_back(); casename += " (no newline at the end of the file)"; }   // dot-qmail(5) does not require one; an empty last line is then no line at all
    int variant = w.ex->choose_n(3, BK_FREE);   // 0: -n   1: real   2: real with x bit
    dryrun = variant == 0; addfile(".qmail", body, variant == 2 ? 0700 : 0600); ext = ""; casename += dryrun ? " -n" : variant == 2 ? " real,x-bit" : " real";
  } else if (fam == "qmailio") {
    int dr = w.ex->choose_n(2, BK_FREE), which = w.ex->choose_n(2, BK_FREE);
    addfile(".qmail-a", "./mbox\n./maildir/\n&fwd@x.example\n|exit 0\n", 0600); addfile(".qmail-default", "./chosendefault\n", 0600); addfile(".qmail", "./chosenplain\n", 0600);
    ext = which ? "a" : "b"; dryrun = dr == 0; casename = std::string("control file i/o ext=") + ext + (dryrun ? " -n" : " real");
  } else if (fam == "owner") {
    int sub = w.ex->choose_n(4, BK_FREE), si = w.ex->choose_n(3, BK_FREE); static const char *snd[] = {"s@src.example", "", "#@[]"};
    // the modes of the three files vary independently: what is judged (writable -> defer, x bit -> forwards only) is the mode of the *selected* file,
    // whatever the -owner files next to it look like
    static const int fm[] = {0600, 0622, 0700}; int mi = w.ex->choose_n(3, BK_FREE), oi = w.ex->choose_n(3, BK_FREE), di = w.ex->choose_n(3, BK_FREE), bi = w.ex->choose_n(2, BK_FREE);
    addfile(".qmail-list", bi ? "./mbox\n&a@x.example\n" : "&a@x.example\n&b@y.example\n", fm[mi]); if (sub & 1) addfile(".qmail-list-owner", "&o@x.example\n", fm[oi]); if (sub & 2) addfile(".qmail-list-owner-default", "#\n", fm[di]);
    ext = "list"; dryrun = false; sender = snd[si]; char mb[80]; snprintf(mb, sizeof mb, " modes=%o/%o/%o body#%d", fm[mi], fm[oi], fm[di], bi);
    casename = "owner files=" + std::to_string(sub) + " sender=[" + sender + "]" + mb;
  } else {   // loop + header injection
    static const char *snd[] = {"s@src.example", "evil@x.example\nX-Injected: 1", "a\"b@c", "a b@c", "x@y\n\nbody-inject", std::string("long-enough-sender-address@host.example\nX: y").c_str()};
    static const char *exs[] = {"", "a\nX-Inj: 1", "b"};
    int si = w.ex->choose_n(5, BK_FREE), ei = w.ex->choose_n(3, BK_FREE), lp = w.ex->choose_n(3, BK_FREE), tg = w.ex->choose_n(3, BK_FREE);
    sender = si == 1 ? std::string("evil@x.example\nX-Injected: 1") : si == 4 ? std::string("x@y\n\nbody-inject") : snd[si]; ext = exs[ei];
    std::string lpart = ext.empty() ? "u" : "u-" + ext;
    if (lp == 1) message = "Received: x\n" + DT(lpart, host) + "Subject: loop\n\nbody\n";           // already carries my Delivered-To line
    if (lp == 2) message = "Subject: no loop\n\n" + DT(lpart, host) + "body\n";                        // same text, but in the body
    static const char *targets[] = {"./mbox\n", "./maildir/\n", "&fwd@x.example\n"};
    addfile(ext.empty() ? ".qmail" : ".qmail-default", targets[tg], 0600); dryrun = false;
    casename = "hdr sender=[" + esc(sender) + "] ext=[" + esc(ext) + "] loopvariant=" + std::to_string(lp) + " target=" + std::to_string(tg);
  }
  dash = ext.empty() ? "" : "-"; localpart = "u" + dash + ext;
  k.I(k.lookup(k.root, "/home/u"))->mode = homemode;
  for (auto &f : homefiles) k.put_file("/home/u/" + f.first, f.second.first, f.second.second, 1000, 1000);
  // ---- reference ----
  want_actions.clear(); want_exit = 0;
  auto finish = [&]() { spawn_local(w, message, sender, "./Mailbox", localpart, dash, ext, dryrun); inputname = casename; };
  if (homemode & patrn) { want_exit = 111; finish(); return; }
  if ((homemode & 01000) && !dryrun) { want_exit = 111; finish(); return; }
  if (!dryrun) {   // loop detection: an identical Delivered-To line in the header
    std::string dt = DT(localpart, host); size_t i = 0; bool loop = false;
    while (i < message.size()) { size_t j = message.find('\n', i); if (j == std::string::npos) break; std::string l = message.substr(i, j - i + 1); if (l.size() <= 1) break; if (l == dt) loop = true; i = j + 1; }
    if (loop) { want_exit = 100; finish(); return; }
  }
  std::string se = ext; for (auto &c : se) { c = tolower((unsigned char) c); if (c == '.') c = ':'; }
  std::string chosen; bool found = false;
  auto exists_reg = [&](const std::string &n) { return homefiles.count(n) > 0; };
  if (exists_reg(".qmail" + dash + se)) { chosen = ".qmail" + dash + se; found = true; }
  else for (int i = (int) se.size(); i >= 0 && !found; i--) if (i == 0 || se[i - 1] == '-') { std::string n = ".qmail" + dash + se.substr(0, i) + "default"; if (exists_reg(n)) { chosen = n; found = true; } }
  if (se.find('/') != std::string::npos) { /* a slash in the extension can only ever name files below the home directory; none exist in these scenarios */ }
  if (!found && !dash.empty()) { want_exit = 100; finish(); return; }
  std::string cmds; bool fwdonly = false;
  if (found) { int m = homefiles[chosen].second; if (m & patrn) { want_exit = 111; finish(); return; } fwdonly = (m & 0100) != 0; cmds = homefiles[chosen].first; }
  if (cmds.empty()) { cmds = "./Mailbox"; fwdonly = false; }
  if (cmds.back() != '\n') cmds += "\n";
  // envelope sender of forwards
  std::string ueo = sender;
  if (!sender.empty() && sender != "#@[]" && exists_reg(".qmail" + dash + se + "-owner")) ueo = exists_reg(".qmail" + dash + se + "-owner-default") ? localpart + "-owner-@" + host + "-@[]" : localpart + "-owner@" + host;
  std::vector<std::string> fw; size_t i = 0; bool first = true, stop99 = false;
  while (i < cmds.size() && !stop99) {
    size_t j = cmds.find('\n', i); std::string l = cmds.substr(i, j - i); i = j + 1;
    while (!l.empty() && (l.back() == ' ' || l.back() == '\t')) l.pop_back();
    bool wasfirst = first; first = false;
    if (l.empty()) { if (wasfirst) { want_exit = 111; break; } continue; }
    if (l[0] == '#') continue;
    if (l[0] == '.' || l[0] == '/') { if (fwdonly) { want_exit = 111; break; } if (l.back() == '/') want_actions.push_back("maildir " + l.substr(2, l.size() - 3)); else want_actions.push_back("mbox " + l); continue; }
    if (l[0] == '|') { if (fwdonly) { want_exit = 111; break; } std::string c = l.substr(1); want_actions.push_back("program " + c);
      if (!dryrun) { size_t e = c.find("exit "); int code = e == std::string::npos ? 0 : atoi(c.c_str() + e + 5);
        if (code == 99) stop99 = true; else if (code == 100 || code == 64 || code == 65 || code == 70 || code == 76 || code == 77 || code == 78 || code == 112) { want_exit = 100; break; } else if (code != 0) { want_exit = 111; break; } }
      continue; }
    if (l[0] == '+') { if (l == "+list") fwdonly = true; continue; }
    fw.push_back(l[0] == '&' ? l.substr(1) : l);
    if (dryrun) want_actions.push_back("forward " + fw.back());
  }
  if (want_exit == 0 && !fw.empty() && !dryrun) { std::string r; for (auto &x : fw) r += (r.empty() ? "" : ",") + x; want_actions.push_back("forward " + ueo + " -> " + r); }
  if (dryrun && want_exit != 0) { /* -n prints what it saw before the refusal */ }
  finish();
}

void Local::end_c13(World &w) {
  Deliv &x = d[0]; std::string key = "C13:" + casename;
  w.counters["c13_cases"]++;
  std::string errtxt = err2 ? err2->data : "";
  if (cfg.get("family", "") == "qmailio" && faults > 0) {
    // a control file that exists but cannot be opened or read: the delivery is deferred, no other file takes its place, nothing is done
    w.counters["c13_control_file_errors"]++;
    if (x.exitcode != 111) { w.soft_violation(key + ":unreadable-control-file", casename + ": a .qmail file could not be opened/read (injected error) but qmail-local exited " + std::to_string(x.exitcode) + " [" + esc(errtxt, 100) + "] instead of deferring (111)"); return; }
    if (!actions.empty()) { w.soft_violation(key + ":unreadable-control-file", casename + ": deliveries were made although the control file could not be read"); return; }
    return;
  }
  if (x.exitcode != want_exit) { w.soft_violation(key, casename + ": exit code " + std::to_string(x.exitcode) + " [" + esc(errtxt, 100) + "], documented " + std::to_string(want_exit)); return; }
  std::vector<std::string> got = actions;
  if (dryrun) { got.clear(); std::string o = out1->data; size_t i = 0; while (i < o.size()) { size_t j = o.find('\n', i); if (j == std::string::npos) break; std::string l = o.substr(i, j - i); i = j + 1; if (l.compare(0, 4, "did ") == 0 || l.compare(0, 3, "qp ") == 0) continue; if (l.compare(0, 8, "maildir ") == 0) l = "maildir " + l.substr(10, l.size() - 11); got.push_back(l); } }
  bool same = got == want_actions;
  if (!same && want_exit != 0 && !dryrun) {
    // a failing instruction: everything before it must have happened, in order; nothing after it; forwards never
    same = got.size() <= want_actions.size() && std::equal(got.begin(), got.end(), want_actions.begin());
    for (auto &g : got) if (g.compare(0, 8, "forward ") == 0) same = false;
    if (got.size() + 1 < want_actions.size()) same = false;
  }
  if (!same) { std::string a, b; for (auto &s : got) a += "{" + s + "} "; for (auto &s : want_actions) b += "{" + s + "} "; w.soft_violation(key, casename + ": performed " + (a.empty() ? "nothing" : a) + "; dot-qmail(5)/qmail-command(8) say " + (b.empty() ? "nothing" : b) + "(exit " + std::to_string(x.exitcode) + ")"); return; }
  // header integrity: delivered copies carry exactly one Return-Path and one Delivered-To line in front of the message
  Kernel &k = w.k;
  if (!dryrun && want_exit == 0) {
    for (auto &n : k.listdir("/home/u/maildir/new")) { const std::string &dta = k.file("/home/u/maildir/new/" + n)->data; size_t hl = dta.size() - message.size(); std::string hdr = dta.substr(0, hl); int nl = 0; for (char c : hdr) if (c == '\n') nl++;
      if (dta.size() < message.size() || dta.compare(hl, message.size(), message) != 0 || nl != 2 || hdr.compare(0, 14, "Return-Path: <") != 0 || hdr.find("\nDelivered-To: ") == std::string::npos) w.soft_violation(key + ":header-lines", casename + ": maildir copy starts with [" + esc(hdr, 160) + "]: envelope addresses were able to add header lines"); }
    Inode *mb = k.file("/home/u/mbox"); if (mb) for (auto &en : read_mbox(mb->data)) { const std::string &dta = en.second; size_t hl = dta.size() >= message.size() ? dta.size() - message.size() : 0; std::string hdr = dta.substr(0, hl); int nl = 0; for (char c : hdr) if (c == '\n') nl++;
      if (dta.size() < message.size() || dta.compare(hl, message.size(), message) != 0 || nl != 2 || hdr.compare(0, 14, "Return-Path: <") != 0) w.soft_violation(key + ":header-lines", casename + ": mbox entry has header [" + esc(hdr, 160) + "]: envelope addresses were able to add header lines"); }
    for (auto &n : k.listdir("/var/qmail/queue/todo")) { Inode *m = k.file(QmailEnv::messpath(atol(n.c_str()))); if (m) { std::string dt = DT(localpart, host); size_t p = m->data.find(dt); if (p == std::string::npos || m->data.substr(p + dt.size()) != message) w.soft_violation(key + ":forward-copy", casename + ": forwarded copy is not Delivered-To line + message"); } }
  }
  w.outcome_hash = fnvs(11, casename); w.description = casename + " -> exit " + std::to_string(x.exitcode) + (want_actions.empty() ? "" : ", " + std::to_string(want_actions.size()) + " actions");
  w.counters[x.exitcode == 0 ? "c13_exit0" : x.exitcode == 100 ? "c13_exit100" : "c13_exit111"]++;
}

int main(int argc, char **argv) { return vk_main(argc, argv, [](const Config &c) -> Scenario * { return new Local(c); }, "local"); }
