// Controller: process table, system-call execution against the kernel model, scheduler with choice points,
// real-process management.  One World per execution.  See DESIGN.md 2.2.
#pragma once
#include "kernel.hpp"
#include "explore.hpp"
extern "C" {
#include "vk_proto.h"
}
#include <functional>
#include <fstream>
#include <sstream>
#include <algorithm>
#include <sys/mman.h>
#include <sys/wait.h>
#include <sys/syscall.h>
#include <sys/prctl.h>
#include <sys/personality.h>
#include <sys/select.h>
#include <linux/futex.h>
#include <time.h>

namespace vk {

struct Req { int op = 0; long a[6] = {0, 0, 0, 0, 0, 0}; std::string data; };

struct DirStream { std::vector<std::string> names; std::vector<int> inos; size_t pos = 0; int dir = 0; bool extended = false; };

enum PState { P_NEW = 0, P_PENDING, P_ZOMBIE, P_REAPED };

struct Proc {
  int vpid = 0, ppid = 0, slot = -1;
  pid_t realpid = 0;
  int st = P_NEW;
  Req req;
  std::map<int, FdEnt> fds;
  int cwd = 0; std::string cwdpath = "/";
  int umask = 022, uid = 0, gid = 0;
  std::vector<int> groups;
  SigDisp sig[65];
  uint64_t blocked = 0, pending = 0;
  long alarm_at = 0;
  bool held = false;              // a scenario may keep a process from running (a delivery program that takes its time)
  int status = 0;                 // wait status once zombie
  std::string name; std::vector<std::string> argv;
  std::map<int, DirStream> dirs; int nextdir = 1;
  long deadline = -1;             // select/sleep deadline once computed (-1: none yet, -2: infinite)
  bool in_handler = false; bool interrupted_blocked = false; Req saved;
  uint64_t hist = 1469598103934665603ULL;
  long nsteps = 0;
  int tag = 0;                    // scenario label
  std::vector<std::string> idlog; // setgroups/setgid/setuid in order (C11)
  bool expecting_start = true;
  std::string standin;            // non-empty: scripted stand-in of this name
};

struct Step {
  int vpid = 0; int op = 0; long a[3] = {0, 0, 0}; std::string path, path2; long ret = 0; int err = 0;
  int ino = 0;        // inode operated on (files) where known
  int kind = 0;       // Ofd kind for fd operations
  int tag = 0;        // Ofd tag
  const std::string *data = nullptr;  // bytes written (WRITE) or read (READ); valid during after_step
  std::string datacopy;
  bool injected = false;              // result was an injected fault
  int sigraised = 0;                  // ALT_SIGNAL: this signal was made pending before the call (the call itself has not run yet)
};

struct World;
static inline std::string opname(int op);

enum AltType { ALT_NONE = 0, ALT_FAIL, ALT_SHORT, ALT_KILL, ALT_MACHINE_CRASH, ALT_READDIR_LATE, ALT_EINTR, ALT_SIGNAL, ALT_EXIT, ALT_TICK, ALT_SIGNAL_PARENT, ALT_HOLD_EXIT };
struct Alt { int kind; int type; int arg; };  // kind: budget kind (explore.hpp); type: AltType; arg: errno / short count

struct Scenario {
  virtual ~Scenario() {}
  virtual void setup(World &) = 0;
  virtual bool on_quiescent(World &) { return false; }
  virtual void after_step(World &, Proc &, const Step &) {}
  virtual void at_end(World &) {}
  virtual void alternatives(World &, Proc &, const Req &, std::vector<Alt> &) {}
  virtual void after_machine_crash(World &) {}
  virtual void on_proc_exit(World &, Proc &) {}
  virtual std::string script(World &, Proc &) { return std::string(); }
  virtual bool local_op(World &, Proc &, const Req &) { return false; }   // extra ops that need no scheduling point
  virtual int connect(World &, Proc &, int fd) { (void) fd; return -ECONNREFUSED; }
  // resolver query: 0 = *answer holds the response packet; otherwise the h_errno value (1 HOST_NOT_FOUND, 2 TRY_AGAIN, 3 NO_RECOVERY, 4 NO_DATA)
  virtual int dns(World &, Proc &, const std::string &name, int type, std::string *answer) { (void) name; (void) type; (void) answer; return 3; }
  // the running process repeats the same block of calls with the same results and nobody else can run: a busy loop
  virtual void on_livelock(World &, Proc &);
};

static inline uint64_t fnv(uint64_t h, const void *p, size_t n) { const unsigned char *s = (const unsigned char *) p; for (size_t i = 0; i < n; i++) { h ^= s[i]; h *= 1099511628211ULL; } return h; }
static inline uint64_t fnvs(uint64_t h, const std::string &s) { return fnv(h, s.data(), s.size()); }

struct HarnessError { std::string msg; bool starved = false; };   // starved: a simulated process got no CPU for minutes (overloaded machine): the execution may be tried again
struct Hang { std::string key, text; };   // a simulated program that stops making progress: reported as a violation (after the usual double replay), not as a harness error
inline void Scenario::on_livelock(World &, Proc &p) { std::string prog = p.name.substr(p.name.rfind('/') == std::string::npos ? 0 : p.name.rfind('/') + 1); throw Hang{"hang:busy-loop:" + prog, p.name + " repeats the same system calls with the same results for ever while no other process can run (busy loop)"}; }

struct World {
  Kernel k;
  std::vector<std::unique_ptr<Proc>> procs;
  Explorer *ex = nullptr;
  Scenario *scn = nullptr;
  vk_shm *shm = nullptr; int shmfd = -1;
  std::map<std::string, std::string> exectab;     // virtual absolute path or bare name -> host path ("@name" = stand-in)
  std::string preload, standin_bin;
  bool aborted = false;
  std::string viol_key, viol_text;
  uint64_t trace_hash = 1469598103934665603ULL;
  std::vector<std::string> tracelog; bool keep_trace = false;
  std::map<std::string, long> counters;   // scenario / monitor counters for this execution
  uint64_t outcome_hash = 0;              // canonical final observation (set by the scenario)
  std::string description;                // human-readable summary of this execution (samples)
  long total_steps = 0, max_steps = 200000;
  int cur = -1;
  int crashes = 0;
  bool slot_used[VK_NSLOTS];
  std::vector<pid_t> realpids;
  long sched_points = 0;
  // fairness (Musuvathi/Qadeer 2008): a process that repeats an identical block of calls ending in select() is spin-waiting;
  // it yields to the next enabled process without cost, and if nobody else is enabled it is a livelock
  std::vector<uint64_t> curlog; std::vector<char> curlog_sel; int curlog_pid = -1; bool force_yield = false; long forced_yields = 0;
  void fair_note(Proc &p, const Step &st) {
    if (p.vpid != curlog_pid) { curlog.clear(); curlog_sel.clear(); curlog_pid = p.vpid; spin_count = 0; }
    if (curlog.size() > 5000) { curlog.erase(curlog.begin(), curlog.begin() + 2500); curlog_sel.erase(curlog_sel.begin(), curlog_sel.begin() + 2500); }
    uint64_t h = 1469598103934665603ULL; h = fnv(h, &st.op, sizeof st.op); h = fnv(h, st.a, sizeof st.a); h = fnv(h, &st.ret, sizeof st.ret); h = fnv(h, &st.err, sizeof st.err); h = fnvs(h, st.path);
    if (st.data) h = fnvs(h, *st.data);
    curlog.push_back(h); curlog_sel.push_back(st.op == VK_SELECT);
    if (st.op != VK_SELECT) return;
    size_t n = curlog.size();
    for (size_t k = 1; 2 * k <= n && k <= 400; k++) {
      if (!curlog_sel[n - 1 - k]) continue;
      bool same = true; for (size_t i = 0; i < k && same; i++) if (curlog[n - 1 - i] != curlog[n - 1 - k - i]) same = false;
      if (same && 3 * k <= n) { for (size_t i = 0; i < k && same; i++) if (curlog[n - 1 - i] != curlog[n - 1 - 2 * k - i]) same = false; } else same = false;
      if (same) { force_yield = true; spin_count++; return; }
    }
    spin_count = 0;
  }
  long spin_count = 0;   // consecutive select() iterations of the running process that repeated an earlier block exactly

  World() { memset(slot_used, 0, sizeof slot_used); }

  // ---------------------------------------------------------------- violations
  static std::string keyfix(std::string k) { for (auto &c : k) if (c == ' ' || c == '\t' || c == '\n') c = '_'; return k; }
  void violation(const std::string &key, const std::string &text) { if (!aborted) { aborted = true; viol_key = keyfix(key); viol_text = text; } }
  // a violation after which the execution can meaningfully continue (used where several independent cases share one
  // execution, so that every failing case is reported, not only the first)
  std::vector<std::pair<std::string, std::string>> softs;
  long hang_ms = 20000;   // real time without a request after which a simulated program counts as hanging in user space
  long livelock_after = 1000;   // identical iterations (nobody else runnable) that count as a busy loop; scenarios feeding long uniform inputs raise it
  bool crash_soft = false; std::string san_log_prefix, crash_context;   // how a crash of a simulated program is reported (ops.hpp VK_FATAL)
  void soft_violation(const std::string &key0, const std::string &text) { std::string key = keyfix(key0); for (auto &s : softs) if (s.first == key) return; if (softs.size() < 64) softs.push_back({key, text}); }

  // ---------------------------------------------------------------- process table
  Proc *P(int vpid) { for (auto &p : procs) if (p && p->vpid == vpid && p->st != P_REAPED) return p.get(); return nullptr; }
  int alloc_vpid() { for (int v = 2;; v++) { bool used = false; for (auto &p : procs) if (p && p->vpid == v && p->st != P_REAPED) used = true; if (!used) return v; } }
  int alloc_slot() { for (int i = 0; i < VK_NSLOTS; i++) if (!slot_used[i]) { slot_used[i] = true; return i; } throw HarnessError{"out of slots"}; }
  int lowest_fd(Proc &p, int from = 0) { for (int f = from;; f++) if (!p.fds.count(f)) return f; }
  int install_fd(Proc &p, int ofd, int at = -1, bool cloexec = false) { int f = at >= 0 ? at : lowest_fd(p); p.fds[f] = FdEnt{ofd, cloexec}; k.ofd_ref(ofd); return f; }
  Ofd *O(Proc &p, int fd) { auto it = p.fds.find(fd); if (it == p.fds.end()) return nullptr; return k.ofds[it->second.ofd].get(); }

  std::string abspath(Proc &p, const std::string &path) {
    std::string full = (!path.empty() && path[0] == '/') ? path : (p.cwdpath == "/" ? "/" + path : p.cwdpath + "/" + path);
    std::vector<std::string> st; size_t i = 0;
    while (i < full.size()) { while (i < full.size() && full[i] == '/') i++; size_t j = i; while (j < full.size() && full[j] != '/') j++; if (j > i) { std::string c = full.substr(i, j - i); if (c == "..") { if (!st.empty()) st.pop_back(); } else if (c != ".") st.push_back(c); } i = j; }
    std::string r; for (auto &c : st) r += "/" + c; return r.empty() ? "/" : r;
  }

  // ---------------------------------------------------------------- real processes
  void futex_wake(volatile int *w) { syscall(SYS_futex, w, FUTEX_WAKE, 64, 0, 0, 0); }
  void reply(Proc &p) {
    vk_slot *s = &shm->slot[p.slot];
    __atomic_store_n(&s->state, VK_S_REPLY, __ATOMIC_SEQ_CST);
    futex_wake(&s->state);
  }
  bool proc_alive(pid_t pid) { return pid > 0 && kill(pid, 0) == 0; }
  // CPU time (user + system, milliseconds) a real process has used so far; -1 if unknown
  static long cpu_ms_of(pid_t pid) {
    if (pid <= 0) return 0;
    char path[64]; snprintf(path, sizeof path, "/proc/%d/stat", (int) pid); FILE *f = fopen(path, "r"); if (!f) return 0;
    char buf[1024]; size_t n = fread(buf, 1, sizeof buf - 1, f); fclose(f); buf[n] = 0;
    char *rp = strrchr(buf, ')'); if (!rp) return 0;
    unsigned long ut = 0, st = 0; // fields 14 and 15; after ")" come state(3) ... utime is the 12th token after the state
    int field = 2; char *t = strtok(rp + 1, " "); while (t) { field++; if (field == 14) ut = strtoul(t, 0, 10); if (field == 15) { st = strtoul(t, 0, 10); break; } t = strtok(0, " "); }
    return (long) ((ut + st) * 1000 / sysconf(_SC_CLK_TCK));
  }
  // wait until the process in slot has posted its next request
  void await_request(Proc &p) {
    vk_slot *s = &shm->slot[p.slot];
    int spins = 0; long waited_ms = 0; long cpu_at_start = -1;
    for (;;) {
      if (__atomic_load_n(&s->state, __ATOMIC_SEQ_CST) == VK_S_REQ) break;
      if (++spins < 2) { continue; }
      int v = __atomic_load_n(&shm->ctl_futex, __ATOMIC_SEQ_CST);
      if (__atomic_load_n(&s->state, __ATOMIC_SEQ_CST) == VK_S_REQ) break;
      struct timespec ts = {0, 5 * 1000 * 1000};
      syscall(SYS_futex, &shm->ctl_futex, FUTEX_WAIT, v, &ts, 0, 0);
      waited_ms += 5;
      if (cpu_at_start < 0 && waited_ms >= 1000) cpu_at_start = cpu_ms_of(p.realpid);   // measured from the first second of waiting on
      if (waited_ms > hang_ms && waited_ms % 1000 == 0 && cpu_ms_of(p.realpid) - cpu_at_start < hang_ms / 2) {
        // not computing: the process is starved by the load on this machine (or stopped); that is the harness's problem, never a verdict
        if (waited_ms > 180000) throw HarnessError{"simulated process " + p.name + " made no request for 180 s without using the CPU (slot " + std::to_string(p.slot) + ")", true};
      } else if (waited_ms > hang_ms && waited_ms % 1000 == 0) {
        // the program computes (or sleeps in a call the model does not know) without ever asking the kernel for anything: every program of the
        // suite is I/O bound, so this is an endless loop in user space
        std::string prog = p.name.substr(p.name.rfind('/') == std::string::npos ? 0 : p.name.rfind('/') + 1);
        throw Hang{"hang:" + prog + ":no-system-call", p.name + " made no system call for " + std::to_string(hang_ms / 1000) + " s of real time after " + std::to_string(p.nsteps) + " calls (endless loop in user space)" + (crash_context.empty() ? "" : "; input: " + crash_context)};
      }
      if (waited_ms % 200 == 0 && p.realpid > 0) {
        int st; pid_t r = waitpid(p.realpid, &st, WNOHANG);
        if (r == p.realpid || (r == -1 && !proc_alive(p.realpid))) {
          if (__atomic_load_n(&s->state, __ATOMIC_SEQ_CST) == VK_S_REQ) break;
          if (!san_log_prefix.empty()) {   // sanitised build: the sanitizer runtime ended the process itself (a report whose printing failed, exit instead of abort): a crash, not a harness problem
            note("pid " + std::to_string(p.vpid) + " (" + p.name + ") was ended by the sanitizer runtime"); crash_report(p, 6); slot_used[p.slot] = false; proc_die(p, 6); return; }
          throw HarnessError{"simulated process " + p.name + " died outside the model (status " + std::to_string(r == p.realpid ? st : -1) + ")"};
        }
      }
    }
    p.req.op = s->op; for (int i = 0; i < 6; i++) p.req.a[i] = s->a[i];
    p.req.data.assign(s->buf, s->len > 0 ? s->len : 0);
    p.st = P_PENDING; p.deadline = -1;
  }
  void set_reply(Proc &p, long ret, int err, const std::string *data = nullptr, const long *a = nullptr) {
    vk_slot *s = &shm->slot[p.slot];
    s->ret = ret; s->err = err; s->runsig = 0; s->redo = 0; s->die = 0;
    if (data) { if (data->size() > VK_BUFSZ) throw HarnessError{"reply too large"}; memcpy(s->buf, data->data(), data->size()); s->len = data->size(); } else s->len = 0;
    if (a) for (int i = 0; i < 6; i++) s->a[i] = a[i];
  }

  std::vector<std::string> base_env;
  int spawn(const std::string &vpath, const std::vector<std::string> &argv, const std::map<int, int> &fdmap,
            int uid, int gid, const std::string &cwd, const std::vector<std::string> &env = {}, int ppid = 1) {
    std::string host = resolve_exec(vpath);
    if (host.empty()) throw HarnessError{"spawn: no exec table entry for " + vpath};
    std::unique_ptr<Proc> np(new Proc());
    Proc &p = *np;
    p.vpid = alloc_vpid(); p.ppid = ppid; p.slot = alloc_slot(); p.uid = uid; p.gid = gid; p.name = vpath; p.argv = argv;
    p.cwd = k.lookup(k.root, cwd); if (p.cwd <= 0) throw HarnessError{"spawn: bad cwd " + cwd}; p.cwdpath = cwd;
    for (auto &m : fdmap) install_fd(p, m.second, m.first);
    if (host[0] == '@') { p.standin = host.substr(1); host = standin_bin; }
    vk_slot *s = &shm->slot[p.slot]; memset((void *) s, 0, offsetof(vk_slot, buf));
    pid_t pid = fork();
    if (pid < 0) throw HarnessError{"fork failed"};
    if (pid == 0) {
      personality(0x0040000 /* ADDR_NO_RANDOMIZE: no ASLR values in traces */);
      std::vector<std::string> e = base_env;
      for (auto &x : env) e.push_back(x);
      e.push_back("VK_SHMFD=" + std::to_string(shmfd)); e.push_back("VK_SLOT=" + std::to_string(p.slot));
      e.push_back("LD_PRELOAD=" + preload);
      std::vector<char *> ev, av;
      for (auto &x : e) ev.push_back((char *) x.c_str()); ev.push_back(nullptr);
      for (auto &x : argv) av.push_back((char *) x.c_str()); av.push_back(nullptr);
      execve(host.c_str(), av.data(), ev.data());
      _exit(127);
    }
    p.realpid = pid; realpids.push_back(pid);
    procs.push_back(std::move(np));
    Proc &q = *procs.back();
    await_request(q);
    if (q.req.op != VK_START) throw HarnessError{"spawn: first request of " + vpath + " is not START"};
    set_reply(q, 0, 0); reply(q); await_request(q);
    return q.vpid;
  }
  std::string resolve_exec(const std::string &abs) { auto it = exectab.find(abs); return it == exectab.end() ? std::string() : it->second; }

  void kill_all_real() {
    for (pid_t pid : realpids) if (pid > 0) kill(pid, SIGKILL);
    for (auto &p : procs) if (p && p->realpid > 0) kill(p->realpid, SIGKILL);
    for (;;) { int st; pid_t r = waitpid(-1, &st, 0); if (r <= 0) break; }
    realpids.clear();
  }

  // ---------------------------------------------------------------- signals
  void raise_sig(Proc &p, int sig) { if (p.st == P_ZOMBIE || p.st == P_REAPED) return; p.pending |= 1ULL << sig; }
  bool deliverable(Proc &p) { return (p.pending & ~p.blocked) != 0 && !p.in_handler; }
  static bool default_ignored(int sig) { return sig == SIGCHLD || sig == SIGURG || sig == SIGWINCH || sig == SIGCONT; }

  void proc_die(Proc &p, int status) {
    // close descriptors, become zombie, notify parent, orphan children
    for (auto &f : p.fds) k.ofd_unref(f.second.ofd);
    p.fds.clear(); p.dirs.clear();
    p.st = P_ZOMBIE; p.status = status; p.pending = 0; p.alarm_at = 0;
    for (auto &c : procs) if (c && c->ppid == p.vpid && c->st != P_REAPED) { c->ppid = 1; if (c->st == P_ZOMBIE) c->st = P_REAPED; }
    Proc *par = P(p.ppid);
    if (par && par->st == P_PENDING) raise_sig(*par, SIGCHLD);
    else if (!par || p.ppid == 1) { /* child of the controller: stays zombie so the scenario can read its status */ }
    scn->on_proc_exit(*this, p);
  }
  void kill_proc(Proc &p, int sig, int status = -1) {   // status >= 0: the process ends as if it had called _exit(status) instead of the pending call
    if (p.st != P_PENDING) return;
    vk_slot *s = &shm->slot[p.slot];
    s->die = 1; s->runsig = 0; s->len = 0;
    if (p.realpid > 0) kill(p.realpid, SIGKILL);
    reply(p);
    slot_used[p.slot] = false;
    proc_die(p, status >= 0 ? (status & 255) << 8 : sig);
  }

  // ---------------------------------------------------------------- enabledness
  bool select_ready(Proc &p, std::string *out, int *count) {
    const Req &r = p.req; int nfds = r.a[0]; int which = r.a[1];
    fd_set in[3], res[3];
    memcpy(in, r.data.data(), sizeof in);
    for (int i = 0; i < 3; i++) FD_ZERO(&res[i]);
    int n = 0;
    for (int fd = 0; fd < nfds && fd < FD_SETSIZE; fd++) {
      for (int w = 0; w < 2; w++) {
        if (!(which & (1 << w)) || !FD_ISSET(fd, &in[w])) continue;
        Ofd *o = O(p, fd);
        if (!o) { n = -1; if (count) *count = -1; return true; }   // EBADF: returns immediately
        bool rdy = w == 0 ? k.readable(o) : k.writable(o);
        if (rdy) { FD_SET(fd, &res[w]); n++; }
      }
    }
    if (count) *count = n;
    if (out) out->assign((const char *) res, sizeof res);
    return n > 0;
  }
  bool has_child(Proc &p, int want, bool zombie_only, Proc **z) {
    for (auto &c : procs) if (c && c->ppid == p.vpid && c->st != P_REAPED && (want == -1 || want == 0 || c->vpid == want)) {
      if (!zombie_only) return true;
      if (c->st == P_ZOMBIE) { if (z) *z = c.get(); return true; }
    }
    return false;
  }
  bool enabled(Proc &p) {
    if (p.st != P_PENDING || p.held) return false;
    if (deliverable(p)) return true;
    const Req &r = p.req;
    switch (r.op) {
      case VK_READ: {
        Ofd *o = O(p, r.a[0]); if (!o) return true;
        if (o->kind == K_SOCK) return !o->pipe || (o->flags & O_NONBLOCK) || k.readable(o);
        if (o->kind != K_PIPE_R) return true;
        if (o->flags & O_NONBLOCK) return true;
        return !o->pipe->buf.empty() || o->pipe->writers <= 0;
      }
      case VK_WRITE: {
        Ofd *o = O(p, r.a[0]); if (!o) return true;
        if (o->kind == K_SOCK) return !o->pipe2 || (o->flags & O_NONBLOCK) || k.writable(o);
        if (o->kind != K_PIPE_W) return true;
        if (o->flags & O_NONBLOCK) return true;
        Pipe *pp = o->pipe.get();
        if (pp->readers <= 0) return true;
        size_t n = r.a[1];
        if (n <= 4096) return pp->cap - pp->buf.size() >= n || pp->buf.size() > pp->cap;
        return pp->buf.size() < pp->cap;
      }
      case VK_OPEN: {
        int flags = r.a[0];
        if (flags & O_NONBLOCK) return true;
        int n = k.lookup(p.cwd, r.data.c_str()); Inode *i = n > 0 ? k.I(n) : nullptr;
        if (!i || i->type != T_FIFO) return true;
        int acc = flags & O_ACCMODE;
        if (acc == O_RDONLY) return i->fifo && i->fifo->writers > 0;
        if (acc == O_WRONLY) return i->fifo && i->fifo->readers > 0;
        return true;
      }
      case VK_FLOCK: {
        Ofd *o = O(p, r.a[0]); if (!o || !Kernel::lock_key(o)) return true;
        int op = r.a[1];
        if (op & LOCK_NB) return true;
        if (op & LOCK_UN) return true;
        auto it = k.lock_holder.find(Kernel::lock_key(o));
        if (it == k.lock_holder.end()) return true;
        return k.ofds[it->second].get() == o;
      }
      case VK_SELECT: {
        if (select_ready(p, nullptr, nullptr)) return true;
        long sec = r.a[2];
        if (sec == 0 && r.a[3] == 0) return true;
        if (sec < 0) return false;
        if (p.deadline == -1) p.deadline = k.clock + sec + (r.a[3] > 0 ? 1 : 0);
        return k.clock >= p.deadline;
      }
      case VK_SLEEP: {
        if (p.deadline == -1) p.deadline = k.clock + r.a[0];
        return k.clock >= p.deadline;
      }
      case VK_WAITPID: {
        if (r.a[1] & WNOHANG) return true;
        if (!has_child(p, r.a[0], false, nullptr)) return true;   // ECHILD
        return has_child(p, r.a[0], true, nullptr);
      }
      default: return true;
    }
  }
  // earliest virtual time at which some blocked process would wake by itself (select/sleep deadline, alarm); -1 none
  long next_deadline() {
    long best = -1;
    for (auto &pp : procs) { Proc *p = pp.get(); if (!p || p->st != P_PENDING) continue;
      if (p->deadline >= 0 && (best < 0 || p->deadline < best)) best = p->deadline;
      if (p->alarm_at > 0 && (best < 0 || p->alarm_at < best)) best = p->alarm_at; }
    return best;
  }
  void advance_clock(long to) {
    if (to > k.clock) k.clock = to;
    for (auto &pp : procs) { Proc *p = pp.get(); if (p && p->st == P_PENDING && p->alarm_at > 0 && p->alarm_at <= k.clock) { p->alarm_at = 0; raise_sig(*p, SIGALRM); } }
  }

  static bool intrinsic_local(int op) {
    switch (op) {
      case VK_TIME: case VK_GETPID: case VK_GETPPID: case VK_GETUID: case VK_GETGID: case VK_UMASK: case VK_SIGACTION: case VK_SIGPROCMASK:
      case VK_GETPWNAM: case VK_GETGRNAM: case VK_GETHOSTNAME: case VK_LSEEK: case VK_FCNTL: case VK_CHDIR: case VK_START:
      case VK_SIGRETURN: case VK_ALARM: case VK_SETUID: case VK_SETGID: case VK_SETGROUPS: case VK_INITGROUPS: case VK_FSTAT:
      case VK_CLOSEDIR: case VK_SOCKET: case VK_IOCTL: case VK_SCRIPT: case VK_DUP2:
        return true;
      default: return false;
    }
  }

  // ---------------------------------------------------------------- main loop
  void run() {
    scn->setup(*this);
    for (;;) {
      if (aborted) break;
      if (total_steps > max_steps) {
        std::string who; for (auto &pp : procs) if (pp && pp->st == P_PENDING && pp->vpid == cur) who = pp->name;
        throw Hang{"hang:step-horizon:" + who.substr(who.rfind('/') == std::string::npos ? 0 : who.rfind('/') + 1), "the execution did not come to an end within " + std::to_string(max_steps) + " system calls; running: " + who + (crash_context.empty() ? "" : "; input: " + crash_context)};
      }
      std::vector<Proc *> en;
      Proc *curp = nullptr;
      for (auto &pp : procs) { Proc *p = pp.get(); if (p && p->st == P_PENDING && enabled(*p)) { if (p->vpid == cur) curp = p; else en.push_back(p); } }
      std::sort(en.begin(), en.end(), [](Proc *a, Proc *b) { return a->vpid < b->vpid; });
      if (curp) en.insert(en.begin(), curp);
      if (en.empty()) { if (!scn->on_quiescent(*this)) break; continue; }
      size_t pick = 0;
      if (force_yield) {
        force_yield = false;
        if (curp && en.size() > 1) { pick = 1; forced_yields++; curlog.clear(); curlog_sel.clear(); spin_count = 0; Proc &q = *en[pick]; cur = q.vpid; step(q); continue; }
        // identical system calls can hide internal progress (e.g. skipping finished records held in a buffer): only a very long
        // run of identical iterations with nobody else able to run is reported as a busy loop
        if (curp && en.size() == 1 && spin_count >= livelock_after) { scn->on_livelock(*this, *curp); if (aborted) break; curlog.clear(); curlog_sel.clear(); spin_count = 0; }
      }
      if (en.size() > 1) {
        bool loc = curp && (intrinsic_local(curp->req.op) || scn->local_op(*this, *curp, curp->req)) && !deliverable(*curp);
        if (!loc) {
          sched_points++;
          pick = ex->choose_n((int) en.size(), curp ? BK_PREEMPT : BK_FREE);
        }
      }
      Proc &p = *en[pick];
      cur = p.vpid;
      step(p);
    }
    if (!aborted) scn->at_end(*this);
  }

  void note(const std::string &s) { if (keep_trace) tracelog.push_back(s); }
  void run_until_blocked(int vpid) { for (;;) { Proc *p = P(vpid); if (!p || p->st != P_PENDING || !enabled(*p) || aborted) return; step(*p); } }

  void step(Proc &p);
  void crash_report(Proc &p, long sig);
  bool exec_op(Proc &p, Step &st, std::string &out, long *aout, long &ret, int &err);
  void machine_crash();
};

}  // namespace vk
#include "ops.hpp"
