/* VK-vs-Linux conformance probe: executes a sequence of file-system operations given as argv (op numbers) in the current
 * directory and prints, after every step, the result, errno, and the select() readiness of every descriptor it holds.  The same
 * binary is run as a simulated process under the virtual kernel and natively on the real kernel (vk/scn_conf.cpp compares). */
#define _GNU_SOURCE
#include <stdio.h>
#include <stdlib.h>
#include <string.h>
#include <unistd.h>
#include <fcntl.h>
#include <errno.h>
#include <dirent.h>
#include <sys/stat.h>
#include <sys/file.h>
#include <sys/select.h>
#include <sys/time.h>
#include <signal.h>

static char out[65536]; static size_t outlen;
static void P(const char *fmt, ...) __attribute__((format(printf, 1, 2)));
#include <stdarg.h>
static void P(const char *fmt, ...) { va_list ap; va_start(ap, fmt); outlen += vsnprintf(out + outlen, sizeof out - outlen, fmt, ap); va_end(ap); }
static int fds[8], nf;
static int cur(void) { return nf ? fds[nf - 1] : -1; }
static int old(void) { return nf ? fds[0] : -1; }
static void keep(int fd) { if (fd >= 0 && nf < 8) fds[nf++] = fd; }
static void drop(int fd) { int i, j = 0; for (i = 0; i < nf; i++) if (fds[i] != fd) fds[j++] = fds[i]; nf = j; }
static void res(const char *what, long r) { if (r < 0) P("%s=-1/%d", what, errno); else P("%s=%ld", what, r); }
static void st(const char *what, int r, struct stat *s) { if (r < 0) P("%s=-1/%d", what, errno); else P("%s=t%o,m%o,n%ld,s%ld", what, (unsigned) (s->st_mode & S_IFMT) >> 12, (unsigned) (s->st_mode & 07777), (long) s->st_nlink, (long) (S_ISREG(s->st_mode) ? s->st_size : 0)); }
/* a read that would block (empty pipe whose write end is open) is reported, not executed */
static int readable(int fd) { fd_set r; struct timeval tv = {0, 0}; if (fd < 0) return 1; FD_ZERO(&r); FD_SET(fd, &r); return select(fd + 1, &r, 0, 0, &tv) != 0; }
static int cmp(const void *a, const void *b) { return strcmp(*(char *const *) a, *(char *const *) b); }

#define NOPS 30
int main(int argc, char **argv)
{
  int i; char buf[16]; struct stat s;
  { struct sigaction sa; memset(&sa, 0, sizeof sa); sa.sa_handler = SIG_IGN; sigaction(SIGPIPE, &sa, 0); }   /* EPIPE instead of death */
  for (i = 1; i < argc; i++) {
    int op = atoi(argv[i]), r; ssize_t n;
    errno = 0;
    switch (op) {
      case 0: r = open("a", O_WRONLY | O_CREAT | O_EXCL, 0644); res("creat-excl(a)", r); keep(r); break;
      case 1: r = open("a", O_RDONLY); res("open-rd(a)", r); keep(r); break;
      case 2: r = open("a", O_WRONLY | O_APPEND); res("open-append(a)", r); keep(r); break;
      case 3: r = open("a", O_WRONLY | O_TRUNC); res("open-trunc(a)", r); keep(r); break;
      case 4: r = open("b", O_RDWR | O_CREAT, 0600); res("open-rdwr-creat(b)", r); keep(r); break;
      case 5: n = write(cur(), "xyz", 3); res("write3(cur)", n); break;
      case 6: memset(buf, 0, sizeof buf); if (!readable(cur())) { P("read2(cur)=would-block"); break; } n = read(cur(), buf, 2); res("read2(cur)", n); if (n > 0) P(":%.*s", (int) n, buf); break;
      case 7: res("lseek1(cur)", lseek(cur(), 1, SEEK_SET)); break;
      case 8: res("ftruncate1(cur)", ftruncate(cur(), 1)); break;
      case 9: res("link(a,b)", link("a", "b")); break;
      case 10: res("unlink(a)", unlink("a")); break;
      case 11: res("unlink(b)", unlink("b")); break;
      case 12: res("rename(a,b)", rename("a", "b")); break;
      case 13: r = stat("a", &s); st("stat(a)", r, &s); P(" "); r = stat("b", &s); st("stat(b)", r, &s); break;
      case 14: r = fstat(cur(), &s); st("fstat(cur)", r, &s); break;
      case 15: { DIR *d = opendir("."); char *names[64]; int k = 0, j; struct dirent *e; if (!d) { res("opendir", -1); break; } while ((e = readdir(d)) && k < 64) names[k++] = strdup(e->d_name); closedir(d); qsort(names, k, sizeof *names, cmp); P("readdir="); for (j = 0; j < k; j++) P("%s,", names[j]); break; }
      case 16: res("mkfifo(f)", mkfifo("f", 0622)); break;
      case 17: r = open("f", O_RDONLY | O_NDELAY); res("open-rd-ndelay(f)", r); keep(r); break;
      case 18: r = open("f", O_WRONLY | O_NDELAY); res("open-wr-ndelay(f)", r); keep(r); break;
      case 19: r = cur(); res("close(cur)", close(r)); drop(r); break;
      case 20: r = old(); res("close(old)", close(r)); drop(r); break;
      case 21: { int p[2]; r = pipe(p); res("pipe", r); if (r == 0) { P(":%d,%d", p[0], p[1]); keep(p[0]); keep(p[1]); } break; }
      case 22: res("flock-ex-nb(cur)", flock(cur(), LOCK_EX | LOCK_NB)); break;
      case 23: res("flock-ex-nb(old)", flock(old(), LOCK_EX | LOCK_NB)); break;
      case 24: res("fsync(cur)", fsync(cur())); break;
      case 25: n = write(old(), "Q", 1); res("write1(old)", n); break;
      case 26: memset(buf, 0, sizeof buf); if (!readable(old())) { P("read8(old)=would-block"); break; } n = read(old(), buf, 8); res("read8(old)", n); if (n > 0) P(":%.*s", (int) n, buf); break;
      case 27: r = open("a", O_WRONLY | O_CREAT | O_TRUNC, 0600); res("creat-trunc(a)", r); keep(r); break;
      case 28: res("mkdir(d)", mkdir("d", 0700)); break;
      case 29: res("rename(b,a)", rename("b", "a")); break;
      default: P("?");
    }
    /* readiness of everything held */
    { int j; P(" |"); for (j = 0; j < nf; j++) { fd_set r, w; struct timeval tv = {0, 0}; int k; FD_ZERO(&r); FD_ZERO(&w); FD_SET(fds[j], &r); FD_SET(fds[j], &w); k = select(fds[j] + 1, &r, &w, 0, &tv); if (k < 0) P(" %d:E%d", fds[j], errno); else P(" %d:%s%s", fds[j], FD_ISSET(fds[j], &r) ? "r" : "-", FD_ISSET(fds[j], &w) ? "w" : "-"); } }
    P("\n");
  }
  { size_t o = 0; while (o < outlen) { ssize_t n = write(1, out + o, outlen - o); if (n <= 0) break; o += n; } }
  _exit(0);
}
