/* Scripted stand-in program: asks the controller (through the shim) what to do. */
#define _GNU_SOURCE
#include <dlfcn.h>
#include <string.h>
#include <unistd.h>
#include <signal.h>
#include "vk_proto.h"
int main(void)
{
  static char b[VK_BUFSZ]; int n, o = 0;
  int (*vk_script)(char *, int) = (int (*)(char *, int)) dlsym(RTLD_DEFAULT, "vk_script");
  if (!vk_script) _exit(125);
  n = vk_script(b, sizeof b);
  while (o + 4 <= n) {
    int act; memcpy(&act, b + o, 4); o += 4;
    if (act == VKA_END) break;
    if (act == VKA_WRITE) { int fd, len, w = 0; memcpy(&fd, b + o, 4); memcpy(&len, b + o + 4, 4); o += 8; while (w < len) { int r = write(fd, b + o + w, len - w); if (r <= 0) break; w += r; } o += len; }
    else if (act == VKA_READALL) { int fd; char t[4096]; memcpy(&fd, b + o, 4); o += 4; while (read(fd, t, sizeof t) > 0) ; }
    else if (act == VKA_EXIT) { int c; memcpy(&c, b + o, 4); _exit(c); }
    else if (act == VKA_KILLSELF) { int s; memcpy(&s, b + o, 4); o += 4; kill(getpid(), s); }
    else if (act == VKA_CLOSE) { int fd; memcpy(&fd, b + o, 4); o += 4; close(fd); }
    else if (act == VKA_ASK) { n = vk_script(b, sizeof b); o = 0; }
    else _exit(124);
  }
  _exit(0);
}
