// C17 (header part): the real qmail-inject with a recording queue stand-in under the virtual kernel.  Address lists are
// derived from the RFC 822 grammar by composing templates whose mailboxes are known by construction; the envelope must be
// exactly those mailboxes after the documented defaulthost/defaultdomain/plusdomain rewriting, Bcc must be gone from the
// header, and the rewritten header, injected again, must yield the same addresses.
#include "qmailenv.hpp"
using namespace vk;

struct Box { std::string local, host; };
struct Tmpl { std::string text; std::vector<Box> boxes; };
static std::vector<Tmpl> templates() {
  return {
    {"a@h.dom", {{"a", "h.dom"}}}, {"b", {{"b", ""}}}, {"c@h", {{"c", "h"}}}, {"d@h+", {{"d", "h+"}}},
    {"Eve Name <e@h.dom>", {{"e", "h.dom"}}}, {"\"Quoted, Name\" <f@h.dom>", {{"f", "h.dom"}}}, {"<@r1.dom,@r2.dom:g@h.dom>", {{"g", "h.dom"}}},
    {"i@h.dom (comment (nested) here)", {{"i", "h.dom"}}}, {"(c1) j (c2) @ (c3) h.dom (c4)", {{"j", "h.dom"}}}, {"\"k l\"@h.dom", {{"k l", "h.dom"}}},
    {"m.\"n\".o@h.dom", {{"m.n.o", "h.dom"}}}, {"p@[1.2.3.4]", {{"p", "[1.2.3.4]"}}}, {"Group: q@h.dom, r@i.dom;", {{"q", "h.dom"}, {"r", "i.dom"}}}, {"Undisclosed: ;", {}},
    {"Folded\n\tName <s@h.dom>", {{"s", "h.dom"}}}, {"t@h.dom u@i.dom", {{"t", "h.dom"}, {"u", "i.dom"}}}, {"\"v\\\"w\"@h.dom", {{"v\"w", "h.dom"}}}, {"John (Johnny) Doe <x@h.dom>", {{"x", "h.dom"}}},
    {"y@sub.h+", {{"y", "sub.h+"}}}, {"Z@H.DOM", {{"Z", "H.DOM"}}}, {"\"a@b\"@h.dom", {{"a@b", "h.dom"}}}, {"dd@h.dom (a \\) b)", {{"dd", "h.dom"}}},
    {"aa@h.dom (Alice) bb@i.dom", {{"aa", "h.dom"}, {"bb", "i.dom"}}},   // the comma is missing and a comment sits in the gap
  };
}
static std::string g_defaulthost = "dhost";   // option dplus=1: "dhost+" (a default host that is itself completed by the plus domain)
static std::string rewrite(const Box &b) {
  std::string h = b.host; const std::string dh = g_defaulthost, dd = "ddom.example", pd = "pdom.example";
  if (h.empty()) h = dh;
  if (!h.empty() && h.back() == '+') h = h.substr(0, h.size() - 1) + "." + pd;
  else if (h.find('.') == std::string::npos && h[0] != '[') h += "." + dd;
  return b.local + "@" + h;
}

struct Case { std::string name; std::vector<std::string> args; std::string message; std::vector<std::string> want_env; std::vector<std::string> want_tocc; std::string want_sender; bool check_sender = false; };

static std::vector<Case> make_cases(const Config &cfg) {
  std::vector<Case> v; auto T = templates(); int n = T.size(); bool th = cfg.geti("thorough"); std::string fam = cfg.get("family", "lists");
  auto body = std::string("Subject: t\n\nbody\n");
  auto addlist = [&](const std::vector<int> &ids, const std::string &sep, const char *field, std::string *hdr, std::vector<std::string> *out) { std::string l; for (size_t i = 0; i < ids.size(); i++) { l += (i ? sep : "") + T[ids[i]].text; for (auto &b : T[ids[i]].boxes) out->push_back(rewrite(b)); } *hdr += std::string(field) + ": " + l + "\n"; };
  if (fam == "lists") {
    std::vector<std::vector<int>> lists; for (int a = 0; a < n; a++) { lists.push_back({a}); for (int b = 0; b < n; b++) { lists.push_back({a, b}); if (th) for (int c = 0; c < n; c++) lists.push_back({a, b, c}); } }
    for (auto &l : lists) for (const char *sep : {", ", ",\n\t"}) { if (l.size() == 1 && sep[1] != ' ') continue; if (!th && l.size() == 2 && sep[1] != ' ' && (l[0] + l[1]) % 3) continue;
      Case c; std::string h; addlist(l, sep, "To", &h, &c.want_env); c.want_tocc = c.want_env; c.message = h + body; c.args = {"-h"}; c.name = "To: list"; for (int i : l) c.name += " [" + T[i].text + "]"; if (sep[1] != ' ') c.name += " (folded)"; v.push_back(c); }
  } else if (fam == "fields") {
    // To / Cc / Bcc / Apparently-To split, and the -a/-h/-H/-A modes with arguments
    for (int a = 0; a < n; a++) for (int b = 0; b < n; b += (th ? 1 : 3)) for (int m = 0; m < 5; m++) {
      Case c; std::string h; std::vector<std::string> hdrrc;
      addlist({a}, ", ", "To", &h, &hdrrc); c.want_tocc = hdrrc; addlist({b}, ", ", "Bcc", &h, &hdrrc); { std::vector<std::string> cc; addlist({(a + b) % n}, ", ", "cc", &h, &cc); for (auto &x : cc) { hdrrc.push_back(x); c.want_tocc.push_back(x); } }
      c.message = h + body; std::vector<std::string> argrc = {rewrite({"arg1", "h.dom"}), rewrite({"arg2", ""})};
      switch (m) { case 0: c.args = {"-h"}; c.want_env = hdrrc; break; case 1: c.args = {"-a", "arg1@h.dom", "arg2"}; c.want_env = argrc; break; case 2: c.args = {"-H", "arg1@h.dom", "arg2"}; c.want_env = hdrrc; for (auto &x : argrc) c.want_env.push_back(x); break;
        case 3: c.args = {}; c.want_env = hdrrc; break; case 4: c.args = {"arg1@h.dom", "arg2"}; c.want_env = argrc; break; }
      c.name = "To [" + T[a].text + "] Bcc [" + T[b].text + "] cc [" + T[(a + b) % n].text + "] mode " + std::to_string(m); v.push_back(c); }
  } else if (fam == "resent") {
    // qmail-inject(8): if the message carries any Resent- field, the recipients come from Resent-To/Resent-Cc/Resent-Bcc instead of To/Cc/Bcc
    // (and Resent-Bcc is removed); every single Resent- field and every pair of them, on top of ordinary To/Cc/Bcc fields
    struct RF { const char *name; const char *value; int rcpt; }; static const RF rf[] = { {"Resent-Sender", "rs@h.dom", 0}, {"Resent-From", "rf@h.dom", 0}, {"Resent-Reply-To", "rr@h.dom", 0}, {"Resent-To", "", 1}, {"Resent-Cc", "rc@h.dom", 2}, {"Resent-Bcc", "rb@h.dom", 3},
                                                                                 {"Resent-Date", "1 Jan 2001 00:00:00 -0000", 0}, {"RESENT-MESSAGE-ID", "<rid@h.dom>", 0} };
    std::vector<std::vector<int>> sets; for (int a = 0; a < 8; a++) { sets.push_back({a}); for (int b = a + 1; b < 8; b++) sets.push_back({a, b}); }
    for (auto &st : sets) for (int a : {0, 4, 12}) for (int b : {1, 15}) for (int pos = 0; pos < 2; pos++) {
      Case c; std::string h, rh; std::vector<std::string> ign; addlist({a}, ", ", "To", &h, &ign); h += "Cc: c@h.dom\nBcc: hidden@h.dom\n";
      for (int f : st) { if (rf[f].rcpt == 1) { addlist({b}, ", ", rf[f].name, &rh, &c.want_env); for (auto &bx : T[b].boxes) c.want_tocc.push_back(rewrite(bx)); }
                         else { rh += std::string(rf[f].name) + ": " + rf[f].value + "\n"; if (rf[f].rcpt) { c.want_env.push_back(rf[f].value); if (rf[f].rcpt == 2) c.want_tocc.push_back(rf[f].value); } } }
      c.message = (pos ? rh + h : h + rh) + body; c.args = {"-h"}; c.name = "resent"; for (int f : st) c.name += std::string(" ") + rf[f].name; c.name += std::string(pos ? " before" : " after") + " To [" + T[a].text + "]" + " Resent-To [" + T[b].text + "]"; v.push_back(c); }
  } else {
    // -f sender forms and QMAILINJECT letters that do not change recipients
    const char *snd[] = {"s@h.dom", "s", "s@h", "s@h+", "q s@h.dom", ""};   /* -f takes the raw address */
    for (int a = 0; a < n; a++) for (int s = 0; s < 6; s++) { Case c; std::string h; addlist({a}, ", ", "To", &h, &c.want_env); c.want_tocc = c.want_env; c.message = h + "Return-Path: <ignored@x.dom>\n" + body; c.args = {"-h", "-f", snd[s]};
      std::string sn = snd[s]; if (!sn.empty()) { size_t at = sn.rfind('@'); std::string l = at == std::string::npos ? sn : sn.substr(0, at), hh = at == std::string::npos ? "" : sn.substr(at + 1); sn = rewrite({l, hh}); }
      c.want_sender = sn; c.check_sender = true; c.name = "To [" + T[a].text + "] -f[" + snd[s] + "]"; v.push_back(c); }
  }
  return v;
}

struct C17 : Scenario {
  const Config &cfg; std::vector<Case> cases; const Case *c = nullptr; int round = 0; std::string qmsg, qenv; int q_runs = 0; int phase = 0; std::string first_msg; std::vector<std::string> env1;
  C17(const Config &cf) : cfg(cf) { if (cf.geti("dplus", 0)) g_defaulthost = "dhost+"; cases = make_cases(cf); }
  void start(World &w, const std::vector<std::string> &args, const std::string &msg) {
    std::map<int, int> fds; fds[0] = QmailEnv::preloaded_pipe(w, msg); fds[1] = QmailEnv::sink(w); fds[2] = QmailEnv::sink(w);
    std::vector<std::string> av = {"qmail-inject"}; for (auto &a : args) av.push_back(a);
    w.spawn("/var/qmail/bin/qmail-inject", av, fds, 1000, 1000, "/", {"USER=injector", "QMAILINJECT=" + cfg.get("qmailinject", "")});
  }
  void setup(World &w) override {
    QmailEnv::build(w, cfg); Kernel &k = w.k;
    k.put_file("/var/qmail/control/defaulthost", g_defaulthost + "\n"); k.put_file("/var/qmail/control/defaultdomain", "ddom.example\n"); k.put_file("/var/qmail/control/plusdomain", "pdom.example\n"); k.put_file("/var/qmail/control/idhost", "id.example\n");
    w.exectab["/var/qmail/bin/qmail-queue"] = "@queue";
    int hi = w.ex->choose_n((int) ((cases.size() + 239) / 240), BK_FREE), lo = w.ex->choose_n(std::min<int>(240, (int) cases.size()), BK_FREE);
    c = &cases[std::min<size_t>((size_t) hi * 240 + lo, cases.size() - 1)];
    start(w, c->args, c->message);
  }
  int ctl_faults = 0; int inject_pid = 0;
  // with a fault budget: one control file of qmail-inject cannot be opened or read; the message must then be refused (temporary error),
  // never injected with a silently different default host/domain
  void alternatives(World &w, Proc &p, const Req &r, std::vector<Alt> &a) override {
    if (w.ex->bound[BK_FAULT] <= 0 || !p.standin.empty() || round != 0) return;
    if (r.op == VK_OPEN && std::string(r.data.c_str()).compare(0, 8, "control/") == 0) { a.push_back({BK_FAULT, ALT_FAIL, ENFILE}); a.push_back({BK_FAULT, ALT_FAIL, EIO}); }
    if (r.op == VK_READ) { Ofd *o = w.O(p, r.a[0]); Inode *i = (o && o->kind == K_FILE) ? w.k.I(o->ino) : nullptr; if (i) for (const char *f : {"me", "defaulthost", "defaultdomain", "plusdomain", "idhost"}) if (w.k.file(std::string("/var/qmail/control/") + f) == i) { a.push_back({BK_FAULT, ALT_FAIL, EIO}); break; } }
  }
  void on_proc_exit(World &w, Proc &p) override {
    if (ctl_faults && p.standin.empty() && round == 0) { int code = (p.status >> 8) & 255; w.counters["control_file_errors"]++;
      if ((p.status & 127) || code != 111 || q_runs != 0) w.soft_violation("C17:control-file-error", c->name + ": a control file of qmail-inject could not be read (injected) but it exited " + std::to_string(code) + (q_runs ? " after injecting the message" : "") + "; documented: 111, nothing injected"); }
  }
  std::string script(World &, Proc &) override {
    std::string a; int v;
    if (phase == 0) { phase = 1; q_runs++; qmsg.clear(); qenv.clear(); v = VKA_READALL; a.append((char *) &v, 4); v = 0; a.append((char *) &v, 4); v = VKA_READALL; a.append((char *) &v, 4); v = 1; a.append((char *) &v, 4); v = VKA_ASK; a.append((char *) &v, 4); return a; }
    phase = 0; v = VKA_EXIT; a.append((char *) &v, 4); v = 0; a.append((char *) &v, 4); return a;
  }
  void after_step(World &, Proc &p, const Step &st) override { if (st.injected && st.err) ctl_faults++; if (!p.standin.empty() && st.op == VK_READ && st.ret > 0 && st.data) { if (st.a[0] == 0) qmsg += *st.data; else if (st.a[0] == 1) qenv += *st.data; } }
  static void parse_env(const std::string &e, std::string *sender, std::vector<std::string> *rc) { size_t i = 0; while (i < e.size()) { size_t j = e.find('\0', i); if (j == std::string::npos) break; if (e[i] == 'F') *sender = e.substr(i + 1, j - i - 1); else if (e[i] == 'T') rc->push_back(e.substr(i + 1, j - i - 1)); i = j + 1; } }
  bool on_quiescent(World &w) override {
    if (round == 0 && ctl_faults) { round = 3; return false; }   // judged in on_proc_exit
    if (round == 0) {
      round = 1;
      // all processes of the first injection are done; judge it, then inject its output again
      std::string key = "C17:" + c->name; std::string snd; std::vector<std::string> rc; parse_env(qenv, &snd, &rc); env1 = rc; first_msg = qmsg;
      w.counters["injections"]++;
      if (c->want_env.empty()) { if (q_runs != 0 && !rc.empty()) w.soft_violation(key, c->name + ": no mailbox is listed, yet the envelope has " + std::to_string(rc.size()) + " recipients"); return false; }
      if (q_runs != 1) { w.soft_violation(key, c->name + ": qmail-queue was run " + std::to_string(q_runs) + " times (valid header refused?)"); return false; }
      std::vector<std::string> a = rc, b = c->want_env; std::sort(a.begin(), a.end()); std::sort(b.begin(), b.end());
      if (a != b) { std::string x, y; for (auto &s : rc) x += "<" + s + "> "; for (auto &s : c->want_env) y += "<" + s + "> "; w.soft_violation(key, c->name + ": envelope recipients " + x + "; the listed mailboxes after default-host/domain/plus rewriting are " + y); return false; }
      if (c->check_sender && snd != c->want_sender) { w.soft_violation(key + ":sender", c->name + ": envelope sender [" + snd + "], documented [" + c->want_sender + "]"); return false; }
      // Bcc removed, Return-Path removed
      size_t he = qmsg.find("\n\n"); std::string hdr = qmsg.substr(0, he == std::string::npos ? qmsg.size() : he + 1); std::string low = hdr; for (auto &ch : low) ch = tolower((unsigned char) ch);
      if (low.compare(0, 4, "bcc:") == 0 || low.find("\nbcc:") != std::string::npos) { w.soft_violation(key + ":bcc", c->name + ": the Bcc field is still in the header handed to the queue"); return false; }
      if (low.find("\nreturn-path:") != std::string::npos || low.compare(0, 12, "return-path:") == 0) { w.soft_violation(key + ":return-path", c->name + ": Return-Path left in the header"); return false; }
      if (c->want_tocc.empty()) return false;
      q_runs = 0; start(w, {"-h"}, qmsg);
      return true;
    }
    if (round == 1) {
      round = 2; std::string key = "C17:" + c->name + ":reparse"; std::string snd; std::vector<std::string> rc; parse_env(qenv, &snd, &rc);
      std::vector<std::string> a = rc, b = c->want_tocc; std::sort(a.begin(), a.end()); std::sort(b.begin(), b.end());
      if (q_runs != 1 || a != b) { std::string x, y; for (auto &s : rc) x += "<" + s + "> "; for (auto &s : c->want_tocc) y += "<" + s + "> "; size_t he = first_msg.find("\n\n"); w.soft_violation(key, c->name + ": the rewritten header [" + esc(first_msg.substr(0, he), 300) + "] parses to " + x + "instead of " + y); }
      w.counters["reparses"]++;
    }
    return false;
  }
  void at_end(World &w) override { w.outcome_hash = fnvs(9, c->name); std::string e; for (auto &s : env1) e += "<" + s + "> "; w.description = c->name + " -> envelope " + e; }
};
int main(int argc, char **argv) { return vk_main(argc, argv, [](const Config &c) -> Scenario * { return new C17(c); }, "c17"); }
