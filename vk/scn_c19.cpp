// C19 POP3: the real qmail-pop3d on virtual maildirs and the real qmail-popup with a recording checker; explicit-state
// exploration of command sequences: a session is extended one command at a time at quiescent points; sessions stop at
// states (deletion marks, vanished files) already visited, so every (state, command) transition is executed once.
#include "qmailenv.hpp"
using namespace vk;

struct MFile { std::string dir, name, data; long mtime; };
struct Population { std::string name; std::vector<MFile> files; std::vector<MFile> extra; };

static std::vector<Population> populations(long now = 1000000000) {
  std::vector<Population> v; long t = now - 10000;
  v.push_back({"empty", {}, {}});
  v.push_back({"one-new", {{"new", "1000.1.h", "Subject: a\n\nbody\n", t + 1}}, {}});
  v.push_back({"two-dots-nonl", {{"new", "1001.1.h", "Subject: dots\n\n.\n..x\n.line\nlast", t + 1}, {"cur", "1000.2.h:2,S", "X: 1\nY: 2\n\nl1\nl2\nl3\n", t + 2}}, {}});
  v.push_back({"three-edge", {{"cur", "1002.3.h:2,", "", t + 1}, {"new", "1003.4.h", "Header-Only: x\n", t + 2}, {"new", "1004.5.h", "A: b\n\n\n\nx\n", t + 3}},
               {{"new", ".hidden", "ignored\n", t}, {"new", "2000.9.future", "from the future\n", now + 50}, {"tmp", "stale.tmp", "old\n", now - 200000}, {"tmp", "fresh.tmp", "new\n", now - 10}}});
  // stored with CR LF line ends (a foreign delivery agent, an import): the stored bytes are what is shown, so every CR is sent, followed by the CR LF of the protocol
  v.push_back({"crlf-stored", {{"new", "1005.6.h", "Subject: crlf\r\nX: y\r\n\r\nline one\r\n.dot\r\n\r\nlast\r\n", t + 1}, {"cur", "1006.7.h:2,S", "A: b\n\nbare cr \r in a line\r\n\r\nend\n", t + 2}}, {}});
  return v;
}

struct Cmd { std::string line; int kind; long k; long j; };   // kind: 0 STAT 1 LIST 2 LISTk 3 UIDL 4 UIDLk 5 DELE 6 RETR 7 TOP 8 RSET 9 LAST 10 NOOP 11 QUIT 12 unknown 13 VANISH 14 EOF
static std::vector<Cmd> commands_for(size_t n, bool thorough) {
  std::vector<Cmd> c;
  c.push_back({"STAT", 0, 0, 0}); c.push_back({"LIST", 1, 0, 0}); c.push_back({"UIDL", 3, 0, 0}); c.push_back({"RSET", 8, 0, 0}); c.push_back({"LAST", 9, 0, 0}); c.push_back({"noop", 10, 0, 0});
  c.push_back({"QUIT", 11, 0, 0}); c.push_back({"XYZZY 1", 12, 0, 0}); c.push_back({"", 12, 0, 0});
  std::vector<std::string> ks = {"0", "1", std::to_string(n), std::to_string(n + 1), "4294967297", "18446744073709551617", "x", ""};
  if (n >= 3) ks.push_back("2");
  std::set<std::string> seen;
  for (auto &k : ks) {
    if (seen.count(k)) continue; seen.insert(k);
    c.push_back({"LIST " + k, k.empty() ? 1 : 2, -1, 0}); c.back().line = k.empty() ? "LIST " : "LIST " + k;
    c.push_back({"UIDL " + k, k.empty() ? 3 : 4, -1, 0});
    c.push_back({"DELE " + k, 5, -1, 0}); c.push_back({"dele " + k, 5, -1, 0});
    c.push_back({"RETR " + k, 6, -1, 0});
    if (!k.empty()) for (long j : {0L, 1L, 99L}) { if (!thorough && j == 99 && k != "1") continue; c.push_back({"TOP " + k + " " + std::to_string(j), 7, -1, j}); }
  }
  c.push_back({"(a message file vanishes)", 13, 1, 0});
  c.push_back({"(client disconnects)", 14, 0, 0});
  return c;
}
// parse the numeric argument as RFC 1939 defines it: a decimal message number
static long parse_k(const std::string &line, size_t n, bool *syntax) {
  size_t sp = line.find(' '); *syntax = false;
  if (sp == std::string::npos) { *syntax = true; return -1; }
  size_t i = sp + 1; while (i < line.size() && line[i] == ' ') i++;
  size_t st = i; unsigned __int128 v = 0; bool huge = false;
  while (i < line.size() && isdigit((unsigned char) line[i])) { v = v * 10 + (line[i] - '0'); if (v > (unsigned __int128) 1 << 70) huge = true; i++; }
  if (i == st) { *syntax = true; return -1; }
  if (huge || v > (unsigned __int128) n) return n + 1;   // any number beyond n is "not that many messages"
  return (long) v;
}

struct C19 : Scenario {
  const Config &cfg; std::string mode; Population pop; std::vector<MFile> msgs; std::vector<Cmd> cmds;
  std::shared_ptr<Pipe> in; std::shared_ptr<Sink> out; int pid = 0; size_t outpos = 0;
  std::vector<bool> deleted, vanished; long last = 0; bool greeted = false; bool quit_sent = false, eof_sent = false; int depth = 0; std::string session;
  const Cmd *cur = nullptr; bool root = false;
  // popup
  std::string creds; std::string user, hostname = "pop.example"; bool seenuser = false; bool auth_started = false; int popup_checker_runs = 0; std::string expect_creds; std::vector<std::string> popup_cmds;
  C19(const Config &c) : cfg(c) { mode = c.get("mode", "pop3d"); }

  void setup(World &w) override {
    QmailEnv::build(w, cfg, false);
    Kernel &k = w.k;
    k.passwd.push_back({"u", 1000, 1000, "/home/u"});
    if (mode == "popup") {
      w.exectab["checker"] = "@checker"; w.exectab["/bin/checker"] = "@checker";
      int r, wr; k.make_pipe(&r, &wr, 1 << 16); k.ofd_ref(wr); in = k.ofds[wr]->pipe;
      std::map<int, int> fds; fds[0] = r; fds[1] = QmailEnv::sink(w, &out); fds[2] = QmailEnv::nullfd(w);
      pid = w.spawn("/var/qmail/bin/qmail-popup", {"qmail-popup", hostname, "checker", "arg1"}, fds, 0, 0, "/");
      popup_cmds = {"USER alice", "USER ", "USER a b", "PASS secret", "PASS ", "PASS two words", "APOP bob 0123456789abcdef", "APOP nospace", "NOOP", "QUIT", "STAT", "LIST", "RETR 1", "DELE 1", "junk", "user carol", "pass x"};
      return;
    }
    if (cfg.geti("epoch", 0)) k.clock = cfg.geti("epoch", 0);   // e.g. a date after 2038-01-19: time stamps that need more than 31 bits
    auto pops = populations(k.clock);
    int pi = w.ex->choose_n((int) pops.size() + 1, BK_FREE);
    root = (pi == (int) pops.size());
    pop = pops[root ? 1 : pi];
    for (auto d : {"new", "cur", "tmp"}) k.mkdir_p(std::string("/home/u/Maildir/") + d, 0700, 1000, 1000);
    auto put = [&](const MFile &f) { int ino = k.put_file("/home/u/Maildir/" + f.dir + "/" + f.name, f.data, 0600, 1000, 1000); k.I(ino)->mtime = f.mtime; k.I(ino)->atime = f.mtime; };
    for (auto &f : pop.files) put(f);
    for (auto &f : pop.extra) put(f);
    msgs = pop.files; std::sort(msgs.begin(), msgs.end(), [](const MFile &a, const MFile &b) { return a.mtime < b.mtime; });
    deleted.assign(msgs.size(), false); vanished.assign(msgs.size(), false);
    cmds = commands_for(msgs.size(), cfg.geti("thorough"));
    int r, wr; k.make_pipe(&r, &wr, 1 << 16); k.ofd_ref(wr); in = k.ofds[wr]->pipe;
    std::map<int, int> fds; fds[0] = r; fds[1] = QmailEnv::sink(w, &out); fds[2] = QmailEnv::sink(w);
    pid = w.spawn("/var/qmail/bin/qmail-pop3d", {"qmail-pop3d", "Maildir"}, fds, root ? 0 : 1000, 1000, "/home/u");
  }

  // ---- reference model ----
  static std::string encode(const std::string &data, long limit /* -1: all, else header + limit body lines */) {
    std::string o; size_t i = 0; bool inhdr = true; long body = 0;
    while (i < data.size()) {
      size_t j = data.find('\n', i); std::string line = data.substr(i, j == std::string::npos ? std::string::npos : j - i);
      if (!inhdr && limit >= 0) { if (body >= limit) break; body++; }
      if (line.empty()) inhdr = false;
      if (!line.empty() && line[0] == '.') o += ".";
      o += line + "\r\n";
      if (j == std::string::npos) break;
      i = j + 1;
    }
    return o + "\r\n.\r\n";   // the documented extra blank line, then the terminator
  }
  std::string uid(const MFile &f) { return f.name.substr(0, f.name.find(':')); }
  std::string expected(const Cmd &c, bool *err_ok) {
    *err_ok = false; size_t n = msgs.size(); bool syn = false; long k = -1;
    if (c.kind == 2 || c.kind == 4 || c.kind == 5 || c.kind == 6 || c.kind == 7) {
      k = parse_k(c.line, n, &syn);
      if (syn || k <= 0 || k > (long) n || deleted[k - 1]) { *err_ok = true; return "-ERR"; }
    }
    std::string o;
    switch (c.kind) {
      case 0: { long tot = 0; for (size_t i = 0; i < n; i++) if (!deleted[i]) tot += msgs[i].data.size(); return "+OK ? " + std::to_string(tot) + "\r\n"; }
      case 1: case 3: o = "+OK \r\n"; for (size_t i = 0; i < n; i++) if (!deleted[i]) o += std::to_string(i + 1) + " " + (c.kind == 1 ? std::to_string(msgs[i].data.size()) : uid(msgs[i])) + "\r\n"; return o + ".\r\n";
      case 2: return "+OK " + std::to_string(k) + " " + std::to_string(msgs[k - 1].data.size()) + "\r\n";
      case 4: return "+OK " + std::to_string(k) + " " + uid(msgs[k - 1]) + "\r\n";
      case 5: deleted[k - 1] = true; return "+OK \r\n";
      case 6: if (vanished[k - 1]) { *err_ok = true; return "-ERR"; } return "+OK \r\n" + encode(msgs[k - 1].data, -1);
      case 7: if (vanished[k - 1]) { *err_ok = true; return "-ERR"; } return "+OK \r\n" + encode(msgs[k - 1].data, c.j);
      case 8: for (size_t i = 0; i < n; i++) deleted[i] = false; return "+OK \r\n";
      case 9: return "+OK #\r\n";
      case 10: return "+OK \r\n";
      case 11: return "+OK \r\n";
      default: *err_ok = true; return "-ERR";
    }
  }
  bool matches(const std::string &got, const std::string &want, bool err_ok) {
    if (cur && cur->kind == 11) {   // QUIT: when a DELE-marked file has vanished the server may add an -ERR line; what matters is the maildir afterwards
      bool anyvan = false; for (size_t i = 0; i < deleted.size(); i++) if (deleted[i] && vanished[i]) anyvan = true;
      if (anyvan && (got == "-ERR unable to unlink all deleted messages\r\n+OK \r\n" || got.compare(0, 5, "-ERR ") == 0)) return true;
    }
    if (err_ok) return got.compare(0, 5, "-ERR ") == 0 && got.size() >= 7 && got.compare(got.size() - 2, 2, "\r\n") == 0 && got.find("\r\n") == got.size() - 2;
    // a bare "+OK" status line may carry any human-readable text (RFC 1939 section 3); only lines whose content the RFC defines are compared
    if (want.compare(0, 6, "+OK \r\n") == 0) { size_t e = got.find("\r\n"); return got.compare(0, 3, "+OK") == 0 && e != std::string::npos && got.substr(e + 2) == want.substr(6); }
    size_t q = want.find('?'), h = want.find('#');
    if (q != std::string::npos && want.compare(0, 4, "+OK ") == 0 && want[4] == '?') { size_t sp = got.find(' ', 4); return got.compare(0, 4, "+OK ") == 0 && sp != std::string::npos && got.substr(sp) == want.substr(5); }
    if (h != std::string::npos && want == "+OK #\r\n") { if (got.compare(0, 4, "+OK ") != 0 || got.size() < 7) return false; for (size_t i = 4; i + 2 < got.size(); i++) if (!isdigit((unsigned char) got[i])) return false; return true; }
    return got == want;
  }
  uint64_t state_hash() { uint64_t h = fnvs(1469598103934665603ULL, pop.name); for (size_t i = 0; i < deleted.size(); i++) { char c = (deleted[i] ? 1 : 0) | (vanished[i] ? 2 : 0); h = fnv(h, &c, 1); } return h ^ 0x5bd1e995; }

  bool io_fault = false;
  void alternatives(World &w, Proc &p, const Req &r, std::vector<Alt> &a) override {
    if (mode == "popup" || w.ex->bound[BK_FAULT] <= 0 || p.vpid != pid || !greeted) return;
    // a message file cannot be opened or read (once): the server must not present a shortened message as complete
    if (r.op == VK_READ) { Ofd *o = w.O(p, r.a[0]); if (o && o->kind == K_FILE) a.push_back({BK_FAULT, ALT_FAIL, EIO}); }
    if (r.op == VK_OPEN) { std::string pth = r.data.c_str(); if (pth.compare(0, 4, "new/") == 0 || pth.compare(0, 4, "cur/") == 0) { a.push_back({BK_FAULT, ALT_FAIL, EIO}); a.push_back({BK_FAULT, ALT_FAIL, ENFILE}); } }
  }
  void verify_last(World &w) {
    if (!cur) return;
    std::string got = out->data.substr(outpos); outpos = out->data.size();
    if (io_fault) {
      io_fault = false; desync = true; w.counters["replies_after_io_error"]++;
      bool complete = got.size() >= 5 && got.compare(got.size() - 5, 5, "\r\n.\r\n") == 0 && got.compare(0, 3, "+OK") == 0;
      if (complete && !matches(got, pending_want, pending_err)) w.soft_violation("C19:shortened-message-after-read-error:" + std::string(cur->line.substr(0, 4)), "maildir " + pop.name + ", session [" + session + "]: a read of the message file failed (injected) and the reply to [" + cur->line + "] is a complete, properly terminated response with different content: [" + esc(got, 200) + "]");
      return;
    }
    if (cur->kind == 13 || cur->kind == 14) { if (!got.empty()) w.violation("C19:unsolicited-output", "server wrote [" + esc(got) + "] without a command"); return; }
    // the model was already advanced when the command was sent; expected text was computed then
    if (!matches(got, pending_want, pending_err)) {
      std::string key = "C19:" + pop.name + ":" + (cur->line.size() > 30 ? cur->line.substr(0, 30) : cur->line);
      if (cur->line.find("18446744073709551617") != std::string::npos) key = "C19:number>=2^64:" + pop.name + ":" + cur->line;
      w.soft_violation(key, "maildir " + pop.name + ", session [" + session + "]: reply to [" + cur->line + "] is [" + esc(got, 200) + "], RFC 1939 / qmail-pop3d(8) reference [" + esc(pending_want, 200) + "]");
      // re-synchronise the model with what the server evidently did, so later commands of this session are judged fairly
      if (cur->kind == 5 && got.compare(0, 3, "+OK") == 0) { desync = true; }
    }
    w.counters["replies_checked"]++;
  }
  std::string pending_want; bool pending_err = false; bool desync = false; bool awaiting_reply = false;

  bool on_quiescent(World &w) override {
    if (mode == "popup") return popup_quiescent(w);
    if (root) return false;
    if (!greeted) { if (out->data.compare(0, 3, "+OK") != 0 || out->data.find("\r\n") != out->data.size() - 2) { w.violation("C19:greeting", "greeting is [" + esc(out->data) + "]"); return false; } greeted = true; outpos = out->data.size(); }
    else verify_last(w);
    if (w.aborted || quit_sent || eof_sent || desync) return false;
    // stop at states that another session already extended (not while replaying the prefix that leads here); the first
    // `fulldepth` commands are never merged, so that state the model does not know of (buffers, cursors) left by one command is seen by the next
    if (!w.ex->in_prefix() && depth >= cfg.geti("fulldepth", 1) && !w.ex->outcome(state_hash())) { w.counters["sessions_merged_into_visited_state"]++;
      // the session is not extended further, but it is *closed with QUIT*: what QUIT removes is the one observation that depends on everything the server
      // remembers about this particular path (marks taken back by RSET, refused DELEs), not only on the model state the path was merged on
      cur = &quitcmd; depth++; session += (session.empty() ? "" : " | ") + cur->line; pending_want = expected(*cur, &pending_err); quit_sent = true; in->buf += cur->line + "\r\n"; return true; }
    if (depth >= cfg.geti("maxdepth", 12)) { in->writers = 0; eof_sent = true; cur = &eofcmd; return true; }
    int ci = w.ex->choose_n((int) cmds.size(), BK_FREE);
    cur = &cmds[ci]; depth++; session += (session.empty() ? "" : " | ") + cur->line; w.counters["transitions_cmd"]++;
    if (cur->kind == 13) { // a file disappears behind the server's back
      size_t which = 0; if (msgs.empty() || vanished[which]) { return true; }
      Kernel &k = w.k; std::string path = "/home/u/Maildir/" + msgs[which].dir + "/" + msgs[which].name; int par = 0; std::string leaf; k.walk(k.root, path, true, &par, &leaf); Inode *d = k.I(par); auto it = d->ent.find(leaf); if (it != d->ent.end()) { int n = it->second; d->ent.erase(it); k.I(n)->nlink--; k.maybe_free(n); }
      vanished[which] = true; w.counters["files_vanished"]++; return true; }
    if (cur->kind == 14) { in->writers = 0; eof_sent = true; return true; }
    pending_want = expected(*cur, &pending_err);
    if (cur->kind == 11) quit_sent = true;
    in->buf += cur->line + "\r\n";
    return true;
  }
  Cmd eofcmd{"(client disconnects)", 14, 0, 0};
  Cmd quitcmd{"QUIT", 11, 0, 0};

  void at_end(World &w) override {
    if (mode == "popup") { popup_end(w); return; }
    Kernel &k = w.k;
    Proc *p = nullptr; for (auto &pp : w.procs) if (pp && pp->vpid == pid) p = pp.get();
    if (root) {
      if (!p || p->st != P_ZOMBIE || p->status != (1 << 8) || !out->data.empty()) w.violation("C19:runs-as-root", "invoked as uid 0: exit status " + std::to_string(p ? p->status : -1) + ", output [" + esc(out->data) + "]; documented: refuses to run");
      w.counters["root_refusals"]++; w.outcome_hash = 42; w.description = "uid 0: refused"; return;
    }
    if (desync) { w.description = "session [" + session + "] (stopped after a deviation)"; return; }
    if (!p || p->st != P_ZOMBIE) { w.violation("C19:no-exit", "server still running after " + std::string(quit_sent ? "QUIT" : "disconnect")); return; }
    // maildir afterwards: exactly the DELE-marked files are gone, and only if QUIT was reached
    for (size_t i = 0; i < msgs.size(); i++) {
      bool in_new = k.exists("/home/u/Maildir/new/" + msgs[i].name), in_cur = k.exists("/home/u/Maildir/cur/" + msgs[i].name), moved = k.exists("/home/u/Maildir/cur/" + msgs[i].name + ":2,");
      bool present = in_new || in_cur || moved;
      bool want_present = !vanished[i] && !(quit_sent && deleted[i]);
      if (present != want_present) { w.soft_violation("C19:maildir-after-session:" + pop.name, "session [" + session + "]: message " + std::to_string(i + 1) + " (" + msgs[i].name + ") is " + (present ? "still present" : "gone") + " after the session; documented: " + (want_present ? "kept (only DELE-marked messages are removed, only at QUIT)" : "removed")); }
      if (present && quit_sent && !deleted[i] && msgs[i].dir == "new" && !moved) w.soft_violation("C19:new-not-moved-to-cur", "session [" + session + "]: undeleted message of new/ was not moved to cur/ at QUIT");
      if (present) { std::string pth = in_new ? "/home/u/Maildir/new/" + msgs[i].name : in_cur ? "/home/u/Maildir/cur/" + msgs[i].name : "/home/u/Maildir/cur/" + msgs[i].name + ":2,"; if (k.file(pth)->data != msgs[i].data) w.soft_violation("C19:content-changed", "message content changed during the session"); }
    }
    for (auto &f : pop.extra) if (f.name != "stale.tmp" && !k.exists("/home/u/Maildir/" + f.dir + "/" + f.name)) w.soft_violation("C19:unlisted-file-removed", "file " + f.dir + "/" + f.name + " (not a listed message) was removed");
    w.counters[quit_sent ? "sessions_quit" : "sessions_disconnected"]++;
    w.description = "maildir " + pop.name + " session [" + session + "]";
  }

  // ---- qmail-popup ----
  bool popup_quiescent(World &w) {
    if (!greeted) {
      // +OK <pid.time@hostname>
      // "+OK", optional text, then the APOP timestamp <pid.time@hostname> (RFC 1939 section 7), one line
      std::string ts = "<" + std::to_string(pid) + ".1000000000@" + hostname + ">"; const std::string &g = out->data;
      if (g.compare(0, 3, "+OK") != 0 || g.find(ts) == std::string::npos || g.size() < 2 || g.find("\r\n") != g.size() - 2) { w.violation("C19:popup-greeting", "greeting [" + esc(g) + "] is not one +OK line carrying the timestamp " + ts); return false; }
      greeted = true; outpos = out->data.size();
    } else if (awaiting_reply) {
      awaiting_reply = false;
      std::string got = out->data.substr(outpos); outpos = out->data.size();
      if (!pending_err && !auth_started) { if (!(got.compare(0, 3, "+OK") == 0 && got.size() >= 5 && got.find("\r\n") == got.size() - 2)) w.soft_violation("C19:popup:" + session, "session [" + session + "]: reply [" + esc(got) + "], expected [" + esc(pending_want) + "]"); }
      else if (pending_err) { if (got.compare(0, 5, "-ERR ") != 0) w.soft_violation("C19:popup:" + session, "session [" + session + "]: reply [" + esc(got) + "], expected an -ERR refusal"); }
      w.counters["replies_checked"]++;
    }
    if (auth_started || quit_sent || eof_sent) return false;
    if (depth >= cfg.geti("maxdepth", 4)) { in->writers = 0; eof_sent = true; return true; }
    int ci = w.ex->choose_n((int) popup_cmds.size(), BK_FREE);
    std::string line = popup_cmds[ci]; depth++; session += (session.empty() ? "" : " | ") + line; w.counters["transitions_cmd"]++;
    // reference: before authentication only USER, PASS, APOP, NOOP, QUIT are honoured
    std::string verb = line.substr(0, line.find(' ')), arg = line.find(' ') == std::string::npos ? "" : line.substr(line.find(' ') + 1); while (!arg.empty() && arg[0] == ' ') arg.erase(0, 1);
    for (auto &ch : verb) ch = toupper(ch);
    pending_err = false; pending_want = "+OK \r\n";
    if (verb == "USER") { if (arg.empty()) pending_err = true; else { user = arg; seenuser = true; } }
    else if (verb == "PASS") { if (!seenuser || arg.empty()) pending_err = true; else { auth_started = true; expect_creds = user + '\0' + arg + '\0'; } }
    else if (verb == "APOP") { size_t sp = arg.find(' '); if (sp == std::string::npos) pending_err = true; else { auth_started = true; expect_creds = arg.substr(0, sp) + '\0' + arg.substr(sp + 1) + '\0'; } }
    else if (verb == "NOOP") { }
    else if (verb == "QUIT") { quit_sent = true; }
    else pending_err = true;
    if (auth_started) expect_creds += "<" + std::to_string(pid) + ".1000000000@" + hostname + ">" + '\0';
    awaiting_reply = true;
    in->buf += line + "\r\n";
    return true;
  }
  std::string script(World &, Proc &p) override {
    // the checker stand-in: read everything on descriptor 3, exit 0
    (void) p; popup_checker_runs++;
    std::string a; int v;
    v = VKA_READALL; a.append((char *) &v, 4); v = 3; a.append((char *) &v, 4);
    v = VKA_EXIT; a.append((char *) &v, 4); v = 0; a.append((char *) &v, 4);
    return a;
  }
  void after_step(World &w, Proc &p, const Step &st) override {
    (void) w;
    if (st.injected && st.err && p.vpid == pid) io_fault = true;
    if (mode == "popup" && p.vpid == pid && st.op == VK_WRITE && st.a[0] != 1 && st.kind == K_PIPE_W && st.data) creds += *st.data;
  }
  void popup_end(World &w) {
    if (auth_started) {
      if (popup_checker_runs != 1) w.soft_violation("C19:popup-checker-runs:" + session, "session [" + session + "]: checker was run " + std::to_string(popup_checker_runs) + " times");
      if (creds != expect_creds) w.soft_violation("C19:popup-credentials:" + session, "session [" + session + "]: checker received [" + esc(creds) + "] on descriptor 3, expected user NUL password NUL challenge NUL = [" + esc(expect_creds) + "]");
      w.counters["authentications"]++;
    } else if (popup_checker_runs) w.soft_violation("C19:popup-checker-unauthenticated:" + session, "session [" + session + "]: the checker was started without a complete USER/PASS or APOP");
    w.outcome_hash = fnvs(7, session); w.description = "popup session [" + session + "]" + (auth_started ? " -> checker got [" + esc(creds) + "]" : "");
  }
};
int main(int argc, char **argv) { return vk_main(argc, argv, [](const Config &c) -> Scenario * { return new C19(c); }, "c19"); }
