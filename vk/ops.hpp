// System-call semantics of the virtual kernel (what each request does to the model).  DESIGN.md appendix A.
#pragma once
namespace vk {

inline void World::machine_crash() {
  // every process dies at a call boundary; directory structure is durable; for each regular file with data
  // written since its last fsync the explorer chooses keep / lose
  crashes++;
  for (auto &pp : procs) { Proc *p = pp.get(); if (!p) continue;
    if (p->st == P_PENDING) { vk_slot *s = &shm->slot[p->slot]; s->die = 1; s->runsig = 0; s->len = 0; if (p->realpid > 0) kill(p->realpid, SIGKILL); reply(*p); slot_used[p->slot] = false; }
    p->st = P_REAPED; p->fds.clear(); p->dirs.clear(); }
  std::vector<int> dirty = k.dirty_files();
  std::set<int> lose;
  for (int ino : dirty) { if (ex->choose_n(2, BK_FREE) == 1) lose.insert(ino); }
  note("MACHINE CRASH: " + std::to_string(dirty.size()) + " files with unsynced data, " + std::to_string(lose.size()) + " reverted");
  k.crash_reset(lose);
  cur = -1;
  scn->after_machine_crash(*this);
}

static inline std::string esc_(const std::string &s) { std::string o; for (size_t i = 0; i < s.size() && o.size() < 120; i++) { unsigned char c = s[i]; if (c >= 32 && c < 127) o += c; else { char b[8]; snprintf(b, sizeof b, "\\x%02x", c); o += b; } } return o; }
inline void World::crash_report(Proc &p, long sig) {
      { std::string prog = p.name.substr(p.name.rfind('/') == std::string::npos ? 0 : p.name.rfind('/') + 1), kind = "signal" + std::to_string(sig), where, excerpt;
        if (!san_log_prefix.empty()) {   // the sanitizer's own report, if any, names the kind of error and the function
          std::ifstream f(san_log_prefix + "." + std::to_string(p.realpid)); std::stringstream ss; ss << f.rdbuf(); std::string rep = ss.str();
          size_t e = rep.find("ERROR: AddressSanitizer: "); if (e != std::string::npos) { size_t b = e + 25, q = rep.find_first_of(" \n", b); kind = rep.substr(b, q - b); }
          else if ((e = rep.find("runtime error: ")) != std::string::npos) { kind = "undefined-behaviour"; }
          // frames are printed as "(binary+0xoffset)" (no symbolizer is reachable from inside the model): resolve those of the
          // program itself with addr2line here, in the controller
          { size_t pos = 0; int nres = 0; std::string sym; while (nres < 6 && (pos = rep.find("  (", pos)) != std::string::npos) { size_t b = pos + 3, plus = rep.find("+0x", b), close = rep.find(')', b); pos = b; if (plus == std::string::npos || close == std::string::npos || plus > close) continue;
              std::string bin = rep.substr(b, plus - b), off = rep.substr(plus + 1, close - plus - 1); if (bin.find("/lib") == 0 || bin.find("libasan") != std::string::npos || bin.find("libubsan") != std::string::npos || bin.find("libvk") != std::string::npos) continue;
              std::string cmd = "addr2line -f -e '" + bin + "' " + off + " 2>/dev/null"; FILE *fp = popen(cmd.c_str(), "r"); if (!fp) continue; char l1[300] = "", l2[300] = ""; if (fgets(l1, sizeof l1, fp) && fgets(l2, sizeof l2, fp)) { std::string fn = l1, fl = l2; while (!fn.empty() && fn.back() == '\n') fn.pop_back(); while (!fl.empty() && fl.back() == '\n') fl.pop_back(); size_t sl = fl.rfind('/'); if (sl != std::string::npos) fl = fl.substr(sl + 1); if (where.empty() && fn != "??") where = fn; sym += " <- " + fn + " (" + fl + ")"; nres++; } pclose(fp); }
            if (!sym.empty()) rep = "frames:" + sym + " || " + rep; }
          if (where.empty()) { size_t pos = 0; while ((pos = rep.find(" in ", pos)) != std::string::npos) { size_t b = pos + 4, q = rep.find_first_of(" \n", b); std::string fn = rep.substr(b, q - b); pos = q == std::string::npos ? rep.size() : q; if (fn.compare(0, 2, "__") == 0 || fn == "memcpy" || fn == "memmove" || fn == "strlen" || fn == "free" || fn == "malloc" || fn == "realloc" || fn.find("sanitizer") != std::string::npos || fn.find("asan") != std::string::npos) continue; where = fn; break; } }
          excerpt = rep.substr(0, 1500); for (auto &ch : excerpt) if (ch == '\n') ch = '|';
        }
        std::string key = "crash:" + prog + ":" + kind + (where.empty() ? "" : ":" + where);
        std::string text = p.name + " died from signal " + std::to_string(sig) + (sig == 6 ? " (abort: sanitizer report or failed assertion)" : " (memory fault)") + " after " + std::to_string(p.nsteps) + " calls; argv: " + [&]() { std::string a; for (auto &x : p.argv) a += "[" + esc_(x).substr(0, 200) + "]"; return a; }() + (crash_context.empty() ? "" : "; input: " + crash_context) + (excerpt.empty() ? "" : "; report: " + excerpt);
        if (crash_soft) soft_violation(key, text); else violation(key, text); }
}

inline void World::step(Proc &p) {
  total_steps++; p.nsteps++;
  vk_slot *s = &shm->slot[p.slot];
  // 1. signal delivery at this yield point
  if (deliverable(p)) {
    uint64_t m = p.pending & ~p.blocked; int sig = 0; for (int i = 1; i < 64; i++) if (m & (1ULL << i)) { sig = i; break; }
    p.pending &= ~(1ULL << sig);
    SigDisp &d = p.sig[sig];
    if (d.kind == 1 || (d.kind == 0 && default_ignored(sig))) return;   // ignored: nothing observable
    if (d.kind == 0) { note("pid " + std::to_string(p.vpid) + " killed by signal " + std::to_string(sig)); kill_proc(p, sig); return; }
    // handler: run it in the process, then either EINTR (blocking call that had not completed) or redo
    bool blocked_call = false;
    { uint64_t savep = p.pending; p.pending = 0; bool en = enabled(p); p.pending = savep;
      int op = p.req.op; bool blocking_kind = (op == VK_SELECT || op == VK_READ || op == VK_WRITE || op == VK_WAITPID || op == VK_FLOCK || op == VK_SLEEP || op == VK_OPEN);
      blocked_call = blocking_kind && !en; }
    p.saved = p.req; p.interrupted_blocked = blocked_call; p.in_handler = true;
    note("pid " + std::to_string(p.vpid) + " runs handler for signal " + std::to_string(sig) + (blocked_call ? " (interrupting blocked call)" : ""));
    s->ret = 0; s->err = 0; s->len = 0; s->die = 0; s->redo = 0; s->runsig = sig; s->handler = d.handler;
    reply(p); await_request(p);
    return;
  }
  const Req &r = p.req;
  if (r.op == VK_SIGRETURN) {
    p.in_handler = false;
    if (p.interrupted_blocked) { set_reply(p, -1, EINTR); s->redo = 0; }
    else { set_reply(p, 0, 0); s->redo = 1; }
    reply(p); await_request(p);
    return;
  }
  // 2. alternatives (faults, crashes, environment deviations) offered by the scenario for this call
  std::vector<Alt> alts;
  scn->alternatives(*this, p, r, alts);
  Alt chosen{0, ALT_NONE, 0};
  if (!alts.empty()) {
    uint8_t kinds[VK_MAXALT]; int n = 1; kinds[0] = 0;
    for (auto &a : alts) { if (n >= VK_MAXALT) throw HarnessError{"too many alternatives at one call"}; kinds[n++] = a.kind; }
    int c = ex->choose(kinds, n);
    if (c > 0) chosen = alts[c - 1];
  }
  Step st; st.vpid = p.vpid; st.op = r.op; st.a[0] = r.a[0]; st.a[1] = r.a[1]; st.a[2] = r.a[2];
  if (chosen.type == ALT_KILL) { note("pid " + std::to_string(p.vpid) + " (" + p.name + ") KILLED before " + opname(r.op)); kill_proc(p, SIGKILL); st.op = VK_KILL; st.injected = true; scn->after_step(*this, p, st); return; }
  if (chosen.type == ALT_SIGNAL) { note("signal " + std::to_string(chosen.arg) + " reaches pid " + std::to_string(p.vpid) + " (" + p.name + ") before " + opname(r.op)); raise_sig(p, chosen.arg); st.sigraised = chosen.arg; st.injected = true; scn->after_step(*this, p, st); return; }
  if (chosen.type == ALT_SIGNAL_PARENT) { Proc *pp = P(p.ppid); note("signal " + std::to_string(chosen.arg) + " reaches the parent of pid " + std::to_string(p.vpid) + " before " + opname(r.op)); if (pp) { raise_sig(*pp, chosen.arg); cur = pp->vpid; } st.sigraised = chosen.arg; st.injected = true; scn->after_step(*this, p, st); return; }   // the parent runs next: its blocked call is interrupted
  if (chosen.type == ALT_HOLD_EXIT) { note("pid " + std::to_string(p.vpid) + " (" + p.name + ") has closed its descriptors and takes a moment to finish"); for (auto &f : p.fds) k.ofd_unref(f.second.ofd); p.fds.clear(); p.held = true; st.sigraised = -1; st.injected = true; scn->after_step(*this, p, st); return; }   // a program that closes its output before it exits (the scenario releases it later)
  if (chosen.type == ALT_EXIT) { note("pid " + std::to_string(p.vpid) + " (" + p.name + ") exits " + std::to_string(chosen.arg) + " instead of " + opname(r.op)); kill_proc(p, 0, chosen.arg); st.op = VK_EXIT; st.ret = chosen.arg; st.injected = true; scn->after_step(*this, p, st); return; }
  if (chosen.type == ALT_TICK) { note("the clock advances by " + std::to_string(chosen.arg) + " s before " + opname(r.op)); advance_clock(k.clock + chosen.arg); st.injected = true; chosen.type = ALT_NONE; }   // then the call itself runs normally
  if (chosen.type == ALT_MACHINE_CRASH) { note("machine crash before " + opname(r.op) + " of pid " + std::to_string(p.vpid)); machine_crash(); return; }
  std::string out; long aout[6] = {0, 0, 0, 0, 0, 0}; long ret = 0; int err = 0;
  bool exited = false;
  if (chosen.type == ALT_FAIL || chosen.type == ALT_EINTR) {
    ret = -1; err = chosen.arg; st.injected = true;
    if (r.op == VK_OPEN || r.op == VK_STAT || r.op == VK_UNLINK || r.op == VK_CHDIR || r.op == VK_OPENDIR || r.op == VK_UTIMES) st.path = r.data.c_str();
    if (r.op == VK_LINK || r.op == VK_RENAME) { st.path = r.data.c_str(); st.path2 = r.data.c_str() + r.a[0]; }
    if (r.op == VK_FORK) ret = -1;
  } else {
    Req saved_req;
    if (chosen.type == ALT_SHORT && chosen.arg > p.req.a[1]) throw HarnessError{"scenario offered a 'short' count larger than the call asked for"};
    if (chosen.type == ALT_SHORT) { saved_req = p.req; p.req.a[1] = chosen.arg; if (p.req.op == VK_WRITE) p.req.data.resize(chosen.arg); st.injected = true; }
    if (chosen.type == ALT_READDIR_LATE) { auto it = p.dirs.find(r.a[0]); if (it != p.dirs.end()) { DirStream &ds = it->second; Inode *d = k.I(ds.dir); if (d) for (auto &e : d->ent) if (std::find(ds.names.begin(), ds.names.end(), e.first) == ds.names.end()) { ds.names.push_back(e.first); ds.inos.push_back(e.second); } ds.extended = true; } st.injected = true; }
    exited = exec_op(p, st, out, aout, ret, err);
  }
  st.ret = ret; st.err = err;
  if (st.data) { st.datacopy = *st.data; st.data = &st.datacopy; }   // p.req / out are overwritten before observers run
  trace_hash = fnv(trace_hash, &st.vpid, sizeof st.vpid); trace_hash = fnv(trace_hash, &st.op, sizeof st.op);
  trace_hash = fnv(trace_hash, &ret, sizeof ret); trace_hash = fnv(trace_hash, &err, sizeof err); trace_hash = fnvs(trace_hash, st.path);
  p.hist = fnv(p.hist, &st.op, sizeof st.op); p.hist = fnv(p.hist, &ret, sizeof ret); p.hist = fnvs(p.hist, out);
  if (keep_trace) {
    char b[512]; snprintf(b, sizeof b, "[%ld] pid %d %-14s %s(%ld,%ld,%ld%s%s%s%s) = %ld%s%s%s", total_steps, p.vpid, p.name.substr(p.name.rfind('/') == std::string::npos ? 0 : p.name.rfind('/') + 1).c_str(),
        opname(r.op).c_str(), r.a[0], r.a[1], r.a[2], st.path.empty() ? "" : ",\"", st.path.c_str(), st.path.empty() ? "" : "\"", st.path2.empty() ? "" : (",\"" + st.path2 + "\"").c_str(),
        ret, err ? " errno=" : "", err ? std::to_string(err).c_str() : "", st.injected ? " [INJECTED]" : "");
    tracelog.push_back(b);
  }
  if (!exited) fair_note(p, st);
  if (exited) { scn->after_step(*this, p, st); return; }
  if (r.op == VK_FORK && ret >= 0) {
    // ret = child slot; hand it to the parent, then collect FORKED (child) and FORKDONE (parent)
    Proc *child = nullptr; for (auto &c : procs) if (c && c->slot == (int) ret && c->st == P_NEW) child = c.get();
    set_reply(p, ret, 0); reply(p);
    await_request(p);
    if (p.req.op != VK_FORKDONE) throw HarnessError{"expected FORKDONE"};
    child->realpid = p.req.a[0];
    await_request(*child);
    if (child->req.op != VK_FORKED) throw HarnessError{"expected FORKED"};
    set_reply(*child, 0, 0); reply(*child); await_request(*child);
    set_reply(p, child->vpid, 0); reply(p); await_request(p);
    scn->after_step(*this, p, st);
    return;
  }
  if (r.op == VK_EXEC && ret == 0) {
    set_reply(p, 0, 0, &out); reply(p);
    p.expecting_start = true;
    await_request(p);
    if (p.req.op != VK_START) throw HarnessError{"expected START after exec of " + p.name};
    set_reply(p, 0, 0); reply(p); await_request(p);
    scn->after_step(*this, p, st);
    return;
  }
  set_reply(p, ret, err, out.empty() ? nullptr : &out, aout);
  reply(p);
  await_request(p);
  scn->after_step(*this, p, st);
}

static inline std::string opname(int op) {
  static const char *n[] = { "none", "start", "open", "close", "read", "write", "lseek", "fsync", "ftruncate", "fstat", "stat", "link", "unlink", "rename", "chdir", "umask", "pipe", "fcntl", "flock", "select",
    "sleep", "alarm", "time", "getpid", "getuid", "setuid", "setgid", "setgroups", "initgroups", "getpwnam", "getgrnam", "gethostname", "fork", "forked", "forkdone", "exec", "exit",
    "waitpid", "sigaction", "sigprocmask", "opendir", "readdir", "closedir", "utimes", "socket", "connect", "getpeername", "ioctl", "script", "fatal", "sigreturn", "resquery", "mkdir",
    "mkfifo", "dup2", "kill", "getppid", "getgid" };
  if (op >= 0 && op < (int) (sizeof n / sizeof n[0])) return n[op];
  return "op" + std::to_string(op);
}

static inline void fill_vkstat(Kernel &k, Inode *i, std::string &out) {
  (void) k;
  vk_stat v; memset(&v, 0, sizeof v);
  v.ino = i->ino; v.nlink = i->nlink; v.uid = i->uid; v.gid = i->gid; v.size = i->type == T_REG ? (long) i->data.size() : 0;
  v.atime = i->atime; v.mtime = i->mtime; v.ctime = i->ctime; v.dev = 1;
  v.mode = (i->mode & 07777) | (i->type == T_REG ? S_IFREG : i->type == T_DIR ? S_IFDIR : S_IFIFO);
  out.assign((const char *) &v, sizeof v);
}

// returns true if the process is gone after the call (exit / fatal)
inline bool World::exec_op(Proc &p, Step &st, std::string &out, long *aout, long &ret, int &err) {
  const Req &r = p.req;
  ret = 0; err = 0;
  auto FAIL = [&](int e) { ret = -1; err = e; return false; };
  switch (r.op) {
    case VK_START: { return false; }
    case VK_OPEN: {
      std::string path = r.data.c_str(); st.path = path;
      int flags = r.a[0], mode = r.a[1], acc = flags & O_ACCMODE;
      int n = k.lookup(p.cwd, path);
      if (n == -ENOENT && (flags & O_CREAT)) {
        int parent = 0; std::string leaf;
        int e = k.walk(p.cwd, path, true, &parent, &leaf);
        if (e < 0) return FAIL(-e);
        Inode *d = k.I(parent); if (!d || d->type != T_DIR) return FAIL(ENOTDIR);
        n = k.mknode(T_REG, mode & ~p.umask & 07777, p.uid, p.gid);
        k.I(n)->nlink = 1; k.I(parent)->ent[leaf] = n; k.I(parent)->mtime = k.clock;
      } else if (n < 0) return FAIL(-n);
      else if ((flags & O_CREAT) && (flags & O_EXCL)) return FAIL(EEXIST);
      Inode *i = k.I(n);
      st.ino = n;
      int o;
      if (i->type == T_DIR) {
        if (acc != O_RDONLY) return FAIL(EISDIR);
        o = k.new_ofd(); k.ofds[o]->kind = K_DIRFD; k.ofds[o]->ino = n;
      } else if (i->type == T_FIFO) {
        if (!i->fifo) i->fifo = std::make_shared<Pipe>();
        if (acc == O_WRONLY && (flags & O_NONBLOCK) && i->fifo->readers <= 0) { if (i->fifo->writers <= 0) i->fifo.reset(); return FAIL(ENXIO); }
        o = k.new_ofd(); Ofd *f = k.ofds[o].get(); f->ino = n; f->pipe = i->fifo;
        if (acc == O_WRONLY) { f->kind = K_PIPE_W; i->fifo->writers++; i->fifo->wcounter++; }
        else if (acc == O_RDONLY) { f->kind = K_PIPE_R; i->fifo->readers++; f->wcounter_at_open = i->fifo->writers > 0 ? 0 : i->fifo->wcounter; }   // Linux fifo_open: the hang-up is suppressed "until we have seen a writer" only if there was none at open time (found by vk/scn_conf depth 6)
        else { f->kind = K_PIPE_R; i->fifo->readers++; i->fifo->writers++; i->fifo->wcounter++; f->wcounter_at_open = i->fifo->wcounter; }   // O_RDWR: not used by the programs
      } else {
        if (flags & O_TRUNC) { i->data.clear(); i->mtime = k.clock; }
        o = k.new_ofd(); Ofd *f = k.ofds[o].get(); f->kind = K_FILE; f->ino = n;
      }
      k.ofds[o]->flags = flags & (O_ACCMODE | O_APPEND | O_NONBLOCK);
      i->openrefs++;
      ret = install_fd(p, o);
      st.kind = k.ofds[o]->kind;
      return false;
    }
    case VK_CLOSE: {
      auto it = p.fds.find(r.a[0]); if (it == p.fds.end()) return FAIL(EBADF);
      Ofd *o = k.ofds[it->second.ofd].get(); st.kind = o->kind; st.ino = o->ino; st.tag = o->tag;
      k.ofd_unref(it->second.ofd); p.fds.erase(it); return false;
    }
    case VK_READ: {
      Ofd *o = O(p, r.a[0]); if (!o) return FAIL(EBADF);
      size_t n = r.a[1]; st.kind = o->kind; st.ino = o->ino; st.tag = o->tag;
      if ((o->flags & O_ACCMODE) == O_WRONLY) return FAIL(EBADF);
      if (o->kind == K_FILE) {
        Inode *i = k.I(o->ino);
        if ((size_t) o->off < i->data.size()) { out = i->data.substr(o->off, n); o->off += out.size(); }
        i->atime = k.clock; ret = out.size(); st.data = &out; return false;
      }
      if (o->kind == K_SOCK && !o->pipe) return FAIL(ENOTCONN);
      if (o->kind == K_PIPE_R || o->kind == K_SOCK) {
        Pipe *pp = o->pipe.get();
        if (pp->buf.empty()) { if (pp->writers <= 0) { ret = 0; return false; } return FAIL(EAGAIN); }
        out = pp->buf.substr(0, n); pp->buf.erase(0, out.size()); ret = out.size(); st.data = &out; return false;
      }
      if (o->kind == K_NULL) { ret = 0; return false; }
      if (o->kind == K_DIRFD) return FAIL(EISDIR);
      return FAIL(EBADF);
    }
    case VK_WRITE: {
      Ofd *o = O(p, r.a[0]); if (!o) return FAIL(EBADF);
      st.kind = o->kind; st.ino = o->ino; st.tag = o->tag; st.data = &r.data;
      if ((o->flags & O_ACCMODE) == O_RDONLY && o->kind != K_SINK) return FAIL(EBADF);
      size_t n = r.data.size();
      if (o->kind == K_FILE) {
        Inode *i = k.I(o->ino);
        if (o->flags & O_APPEND) o->off = i->data.size();
        if (i->data.size() < (size_t) o->off + n) i->data.resize(o->off + n, '\0');
        memcpy(&i->data[o->off], r.data.data(), n); o->off += n; i->mtime = k.clock; ret = n; return false;
      }
      if (o->kind == K_SOCK && !o->pipe2) return FAIL(ENOTCONN);
      if (o->kind == K_PIPE_W || o->kind == K_SOCK) {
        Pipe *pp = o->kind == K_SOCK ? o->pipe2.get() : o->pipe.get();
        if (pp->readers <= 0) {
          SigDisp &d = p.sig[SIGPIPE];
          if (d.kind == 1 || (p.blocked & (1ULL << SIGPIPE))) return FAIL(EPIPE);
          if (d.kind == 0) { note("pid " + std::to_string(p.vpid) + " killed by SIGPIPE"); kill_proc(p, SIGPIPE); ret = -1; err = EPIPE; return true; }
          raise_sig(p, SIGPIPE); return FAIL(EPIPE);
        }
        size_t space = pp->cap > pp->buf.size() ? pp->cap - pp->buf.size() : 0;
        if (n <= 4096 ? space < n : space == 0) return FAIL(EAGAIN);
        size_t w = n < space ? n : space; pp->buf.append(r.data.data(), w); ret = w; return false;
      }
      if (o->kind == K_SINK) { o->sink->data.append(r.data); ret = n; return false; }
      if (o->kind == K_NULL) { ret = n; return false; }
      return FAIL(EBADF);
    }
    case VK_LSEEK: {
      Ofd *o = O(p, r.a[0]); if (!o) return FAIL(EBADF);
      if (o->kind != K_FILE) return FAIL(ESPIPE);
      Inode *i = k.I(o->ino); long off = r.a[1];
      long base = r.a[2] == SEEK_SET ? 0 : r.a[2] == SEEK_CUR ? o->off : (long) i->data.size();
      if (base + off < 0) return FAIL(EINVAL);
      o->off = base + off; ret = o->off; return false;
    }
    case VK_FSYNC: {
      Ofd *o = O(p, r.a[0]); if (!o) return FAIL(EBADF);
      st.kind = o->kind; st.ino = o->ino;
      if (o->kind != K_FILE && o->kind != K_DIRFD) return FAIL(EINVAL);
      if (o->kind == K_FILE) { Inode *i = k.I(o->ino); i->synced = i->data; i->ever_synced = true; }
      return false;
    }
    case VK_FTRUNCATE: {
      Ofd *o = O(p, r.a[0]); if (!o) return FAIL(EBADF);
      st.kind = o->kind; st.ino = o->ino;
      if (o->kind != K_FILE) return FAIL(EINVAL);
      if (r.a[1] < 0 || (o->flags & O_ACCMODE) == O_RDONLY) return FAIL(EINVAL);
      Inode *i = k.I(o->ino); i->data.resize(r.a[1], '\0'); i->mtime = k.clock; return false;
    }
    case VK_FSTAT: {
      Ofd *o = O(p, r.a[0]); if (!o) return FAIL(EBADF);
      st.kind = o->kind; st.ino = o->ino;
      if (o->ino) { fill_vkstat(k, k.I(o->ino), out); return false; }
      vk_stat v; memset(&v, 0, sizeof v); v.mode = S_IFIFO | 0600; v.ino = 999999; v.nlink = 1; out.assign((const char *) &v, sizeof v); return false;
    }
    case VK_STAT: {
      st.path = r.data.c_str();
      int n = k.lookup(p.cwd, st.path); if (n < 0) return FAIL(-n);
      st.ino = n; fill_vkstat(k, k.I(n), out); return false;
    }
    case VK_LINK: {
      st.path = r.data.c_str(); st.path2 = r.data.c_str() + r.a[0];
      int n = k.lookup(p.cwd, st.path); if (n < 0) return FAIL(-n);
      Inode *i = k.I(n); if (i->type == T_DIR) return FAIL(EPERM);
      int parent = 0; std::string leaf; int e = k.walk(p.cwd, st.path2, true, &parent, &leaf); if (e < 0) return FAIL(-e);
      Inode *d = k.I(parent); if (!d || d->type != T_DIR) return FAIL(ENOTDIR);
      if (d->ent.count(leaf)) return FAIL(EEXIST);
      d->ent[leaf] = n; i->nlink++; i->ctime = k.clock; d->mtime = k.clock; st.ino = n; return false;
    }
    case VK_UNLINK: {
      st.path = r.data.c_str();
      int parent = 0; std::string leaf; int e = k.walk(p.cwd, st.path, true, &parent, &leaf); if (e < 0) return FAIL(e == -EEXIST ? EISDIR : -e);
      Inode *d = k.I(parent); if (!d || d->type != T_DIR) return FAIL(ENOTDIR);
      auto it = d->ent.find(leaf); if (it == d->ent.end()) return FAIL(ENOENT);
      Inode *i = k.I(it->second); if (i->type == T_DIR) return FAIL(EISDIR);
      st.ino = it->second; int n = it->second; d->ent.erase(it); d->mtime = k.clock; i->nlink--; i->ctime = k.clock; k.maybe_free(n); return false;
    }
    case VK_RENAME: {
      st.path = r.data.c_str(); st.path2 = r.data.c_str() + r.a[0];
      int p1 = 0, p2 = 0; std::string l1, l2;
      int e = k.walk(p.cwd, st.path, true, &p1, &l1); if (e < 0) return FAIL(-e);
      e = k.walk(p.cwd, st.path2, true, &p2, &l2); if (e < 0) return FAIL(-e);
      Inode *d1 = k.I(p1), *d2 = k.I(p2); if (!d1 || !d2 || d1->type != T_DIR || d2->type != T_DIR) return FAIL(ENOTDIR);
      auto it = d1->ent.find(l1); if (it == d1->ent.end()) return FAIL(ENOENT);
      int n = it->second; st.ino = n;
      auto it2 = d2->ent.find(l2);
      if (it2 != d2->ent.end()) {
        if (it2->second == n) return false;
        Inode *t = k.I(it2->second); if (t->type == T_DIR) return FAIL(EISDIR);
        int tn = it2->second; t->nlink--; d2->ent.erase(it2); k.maybe_free(tn);
      }
      d1 = k.I(p1); d1->ent.erase(l1); k.I(p2)->ent[l2] = n;
      if (k.I(n)->type == T_DIR) k.I(n)->parent = p2;
      return false;
    }
    case VK_MKDIR: {
      st.path = r.data.c_str();
      int parent = 0; std::string leaf; int e = k.walk(p.cwd, st.path, true, &parent, &leaf); if (e < 0) return FAIL(-e);
      Inode *d = k.I(parent); if (!d || d->type != T_DIR) return FAIL(ENOTDIR);
      if (d->ent.count(leaf)) return FAIL(EEXIST);
      int n = k.mknode(T_DIR, r.a[0] & ~p.umask & 07777, p.uid, p.gid); k.I(n)->parent = parent; k.I(n)->nlink = 2; k.I(parent)->ent[leaf] = n; k.I(parent)->nlink++; return false;
    }
    case VK_MKFIFO: {
      st.path = r.data.c_str();
      int parent = 0; std::string leaf; int e = k.walk(p.cwd, st.path, true, &parent, &leaf); if (e < 0) return FAIL(-e);
      Inode *d = k.I(parent); if (!d || d->type != T_DIR) return FAIL(ENOTDIR);
      if (d->ent.count(leaf)) return FAIL(EEXIST);
      int n = k.mknode(T_FIFO, r.a[0] & ~p.umask & 07777, p.uid, p.gid); k.I(n)->nlink = 1; k.I(parent)->ent[leaf] = n; return false;
    }
    case VK_CHDIR: {
      st.path = r.data.c_str();
      int n = k.lookup(p.cwd, st.path); if (n < 0) return FAIL(-n);
      if (k.I(n)->type != T_DIR) return FAIL(ENOTDIR);
      p.cwdpath = abspath(p, st.path); p.cwd = n; return false;
    }
    case VK_UMASK: { ret = p.umask; p.umask = r.a[0] & 0777; return false; }
    case VK_PIPE: {
      int ro, wo; k.make_pipe(&ro, &wo);
      aout[0] = install_fd(p, ro); aout[1] = install_fd(p, wo); return false;
    }
    case VK_DUP2: {
      auto it = p.fds.find(r.a[0]); if (it == p.fds.end()) return FAIL(EBADF);
      int to = r.a[1]; if (to == r.a[0]) { ret = to; return false; }
      int o = it->second.ofd;
      auto it2 = p.fds.find(to); if (it2 != p.fds.end()) { k.ofd_unref(it2->second.ofd); p.fds.erase(it2); }
      install_fd(p, o, to); ret = to; return false;
    }
    case VK_FCNTL: {
      auto it = p.fds.find(r.a[0]); if (it == p.fds.end()) return FAIL(EBADF);
      Ofd *o = k.ofds[it->second.ofd].get(); int cmd = r.a[1]; long arg = r.a[2];
      switch (cmd) {
        case F_GETFL: ret = o->flags; return false;
        case F_SETFL: o->flags = (o->flags & O_ACCMODE) | (arg & (O_APPEND | O_NONBLOCK)); return false;
        case F_GETFD: ret = it->second.cloexec ? FD_CLOEXEC : 0; return false;
        case F_SETFD: it->second.cloexec = (arg & FD_CLOEXEC) != 0; return false;
        case F_DUPFD: { int nf = lowest_fd(p, arg); install_fd(p, it->second.ofd, nf); ret = nf; return false; }
        default: return FAIL(EINVAL);
      }
    }
    case VK_FLOCK: {
      auto it = p.fds.find(r.a[0]); if (it == p.fds.end()) return FAIL(EBADF);
      Ofd *o = k.ofds[it->second.ofd].get(); int op = r.a[1]; st.ino = o->ino;
      int key = Kernel::lock_key(o); if (!key) return false;   // nothing else can name the object
      if (op & LOCK_UN) { auto h = k.lock_holder.find(key); if (h != k.lock_holder.end() && h->second == it->second.ofd) k.lock_holder.erase(h); o->locked = false; return false; }
      auto h = k.lock_holder.find(key);
      if (h != k.lock_holder.end() && h->second != it->second.ofd) return FAIL(EWOULDBLOCK);
      k.lock_holder[key] = it->second.ofd; o->locked = true; return false;
    }
    case VK_SELECT: {
      int cnt = 0; std::string res;
      select_ready(p, &res, &cnt);
      if (cnt < 0) return FAIL(EBADF);
      out = res; ret = cnt; st.a[1] = r.a[2]; return false;
    }
    case VK_SLEEP: { ret = 0; return false; }
    case VK_ALARM: { ret = p.alarm_at > k.clock ? p.alarm_at - k.clock : 0; p.alarm_at = r.a[0] ? k.clock + r.a[0] : 0; return false; }
    case VK_TIME: { ret = k.clock; return false; }
    case VK_GETPID: { ret = p.vpid; return false; }
    case VK_GETPPID: { ret = p.ppid; return false; }
    case VK_GETUID: { ret = p.uid; return false; }
    case VK_GETGID: { ret = p.gid; return false; }
    case VK_SETUID: { p.idlog.push_back("setuid(" + std::to_string(r.a[0]) + ")"); if (p.uid != 0 && p.uid != r.a[0]) return FAIL(EPERM); p.uid = r.a[0]; return false; }
    case VK_SETGID: { p.idlog.push_back("setgid(" + std::to_string(r.a[0]) + ")"); if (p.uid != 0 && p.gid != r.a[0]) return FAIL(EPERM); p.gid = r.a[0]; return false; }
    case VK_SETGROUPS: {
      std::string l = "setgroups("; const long *g = (const long *) r.data.data(); std::vector<int> ng;
      for (long i = 0; i < r.a[0]; i++) { ng.push_back(g[i]); l += (i ? "," : "") + std::to_string(g[i]); }
      p.idlog.push_back(l + ")"); if (p.uid != 0) return FAIL(EPERM); p.groups = ng; return false;
    }
    case VK_INITGROUPS: { p.idlog.push_back(std::string("initgroups(") + r.data.c_str() + "," + std::to_string(r.a[0]) + ")"); if (p.uid != 0) return FAIL(EPERM); p.groups = {(int) r.a[0]}; return false; }
    case VK_GETPWNAM: {
      st.path = r.data.c_str();
      const Passwd *pw = k.pw(st.path); if (!pw) { ret = -1; err = 0; return false; }
      out = pw->name; out.push_back('\0'); out += pw->dir; out.push_back('\0'); aout[0] = pw->uid; aout[1] = pw->gid; return false;
    }
    case VK_GETGRNAM: {
      st.path = r.data.c_str(); auto it = k.groups.find(st.path); if (it == k.groups.end()) { ret = -1; err = 0; return false; }
      out = it->first; aout[0] = it->second; return false;
    }
    case VK_GETHOSTNAME: { out = k.hostname; return false; }
    case VK_FORK: {
      std::unique_ptr<Proc> c(new Proc());
      c->vpid = alloc_vpid(); c->ppid = p.vpid; c->slot = alloc_slot(); c->st = P_NEW;
      c->fds = p.fds; for (auto &f : c->fds) k.ofd_ref(f.second.ofd);
      c->cwd = p.cwd; c->cwdpath = p.cwdpath; c->umask = p.umask; c->uid = p.uid; c->gid = p.gid; c->groups = p.groups;
      for (int i = 0; i < 65; i++) c->sig[i] = p.sig[i];
      c->blocked = p.blocked; c->name = p.name; c->argv = p.argv; c->tag = p.tag; c->standin = p.standin;
      vk_slot *cs = &shm->slot[c->slot]; memset((void *) cs, 0, offsetof(vk_slot, buf));
      ret = c->slot; st.a[0] = c->vpid;
      procs.push_back(std::move(c));
      return false;
    }
    case VK_EXEC: {
      std::string path = r.data.c_str(); st.path = path;
      std::string key = (r.a[0] && path.find('/') == std::string::npos) ? path : abspath(p, path);
      std::string host = resolve_exec(key);
      // argv for observers
      p.argv.clear(); { size_t off = path.size() + 1; while (off < r.data.size()) { std::string a = r.data.c_str() + off; p.argv.push_back(a); off += a.size() + 1; } }
      if (host.empty()) return FAIL(ENOENT);
      for (auto it = p.fds.begin(); it != p.fds.end();) { if (it->second.cloexec) { k.ofd_unref(it->second.ofd); it = p.fds.erase(it); } else ++it; }
      for (int i = 0; i < 65; i++) if (p.sig[i].kind == 2) p.sig[i] = SigDisp();
      p.dirs.clear(); p.alarm_at = p.alarm_at; p.name = key; p.standin.clear();
      if (host[0] == '@') { p.standin = host.substr(1); host = standin_bin; }
      out = host; out.push_back('\0'); out += preload; out.push_back('\0');
      return false;
    }
    case VK_EXIT: { note("pid " + std::to_string(p.vpid) + " (" + p.name + ") exit " + std::to_string(r.a[0])); set_reply(p, 0, 0); reply(p); slot_used[p.slot] = false; ret = r.a[0]; proc_die(p, (int) ((r.a[0] & 255) << 8)); return true; }
    case VK_FATAL: { note("pid " + std::to_string(p.vpid) + " (" + p.name + ") FATAL SIGNAL " + std::to_string(r.a[0]));
      // a simulated program really crashed (SIGSEGV/SIGBUS/SIGFPE/SIGILL) or aborted (sanitizer report, abort()): never acceptable
      crash_report(p, r.a[0]);
      set_reply(p, 0, 0); reply(p); slot_used[p.slot] = false; ret = r.a[0]; proc_die(p, (int) (r.a[0] & 127)); return true; }
    case VK_WAITPID: {
      Proc *z = nullptr;
      if (has_child(p, r.a[0], true, &z)) { ret = z->vpid; aout[2] = z->status; z->st = P_REAPED; return false; }
      if (!has_child(p, r.a[0], false, nullptr)) return FAIL(ECHILD);
      ret = 0; return false;   // WNOHANG
    }
    case VK_SIGACTION: {
      int sg = r.a[0]; if (sg < 1 || sg > 64) return FAIL(EINVAL);
      SigDisp old = p.sig[sg]; aout[4] = old.kind == 0 ? 0 : old.kind == 1 ? 1 : (long) old.handler;
      if (r.a[1]) { unsigned long h = r.a[2]; if (h == 0) p.sig[sg] = SigDisp{0, 0}; else if (h == 1) p.sig[sg] = SigDisp{1, 0}; else p.sig[sg] = SigDisp{2, h}; }
      return false;
    }
    case VK_SIGPROCMASK: {
      aout[4] = p.blocked;
      if (r.a[1]) { uint64_t m = r.a[2]; if (r.a[0] == SIG_BLOCK) p.blocked |= m; else if (r.a[0] == SIG_UNBLOCK) p.blocked &= ~m; else p.blocked = m; }
      return false;
    }
    case VK_OPENDIR: {
      st.path = r.data.c_str();
      int n = k.lookup(p.cwd, st.path); if (n < 0) return FAIL(-n);
      Inode *d = k.I(n); if (d->type != T_DIR) return FAIL(ENOTDIR);
      DirStream ds; ds.dir = n; ds.names.push_back("."); ds.inos.push_back(n); ds.names.push_back(".."); ds.inos.push_back(d->parent);
      for (auto &e : d->ent) { ds.names.push_back(e.first); ds.inos.push_back(e.second); }
      int id = 1; while (p.dirs.count(id)) id++; p.dirs[id] = ds; d->atime = k.clock; ret = id; st.ino = n; return false;
    }
    case VK_READDIR: {
      auto it = p.dirs.find(r.a[0]); if (it == p.dirs.end()) return FAIL(EBADF);
      DirStream &ds = it->second; st.ino = ds.dir;
      if (ds.pos >= ds.names.size()) { ret = 0; return false; }
      out = ds.names[ds.pos]; aout[0] = ds.inos[ds.pos]; ds.pos++; ret = 1; st.path = out; return false;
    }
    case VK_CLOSEDIR: { p.dirs.erase(r.a[0]); return false; }
    case VK_UTIMES: {
      st.path = r.data.c_str();
      int n = k.lookup(p.cwd, st.path); if (n < 0) return FAIL(-n);
      Inode *i = k.I(n); st.ino = n;
      if (r.a[0]) { i->atime = r.a[1]; i->mtime = r.a[2]; } else { i->atime = i->mtime = k.clock; }
      return false;
    }
    case VK_SOCKET: { int o = k.new_ofd(); k.ofds[o]->kind = K_SOCK; k.ofds[o]->flags = O_RDWR; ret = install_fd(p, o); return false; }
    case VK_CONNECT: { int e = scn->connect(*this, p, r.a[0]); if (e < 0) return FAIL(-e); return false; }
    case VK_RESQUERY: {
      st.path = r.data.c_str(); std::string ans; int he = scn->dns(*this, p, st.path, (int) r.a[1], &ans);
      if (he) { aout[0] = he; ret = -1; err = he == 2 ? EAGAIN : ENOENT; return false; }
      out = ans.substr(0, std::min<size_t>(ans.size(), (size_t) r.a[2])); ret = ans.size(); return false;
    }
    case VK_GETPEERNAME: { Ofd *o = O(p, r.a[0]); if (!o) return FAIL(EBADF); if (o->kind == K_SOCK && !o->pipe) return FAIL(ENOTCONN); return false; }
    case VK_IOCTL: { Ofd *o = O(p, r.a[0]); if (!o) return FAIL(EBADF); return false; }
    case VK_KILL: {
      Proc *t = P(r.a[0]); if (!t || t->st != P_PENDING) return FAIL(ESRCH);
      if (r.a[1]) raise_sig(*t, r.a[1]); return false;
    }
    case VK_SCRIPT: { out = scn->script(*this, p); return false; }
    default: throw HarnessError{"unmodelled request " + opname(r.op) + " from " + p.name};
  }
}

}  // namespace vk
