// Generic daemon histories (see daemon.hpp): used by C03, C04, C10, C15 and others via options.
#include "daemon.hpp"
using namespace vk;
int main(int argc, char **argv) { return vk_main(argc, argv, [](const Config &c) -> Scenario * { return new DaemonScenario(c); }, "daemon"); }
