// VK-vs-Linux conformance: every sequence of <depth> operations over the 30-operation alphabet of confprog.c (create/open variants,
// write, read, lseek, ftruncate, link, unlink, rename, stat, fstat, readdir, mkfifo, FIFO opens with O_NDELAY, close, pipe, flock,
// fsync, mkdir) is executed twice by the same binary: as a simulated process under the virtual kernel and natively on the real
// kernel in an empty scratch directory.  Results, errno values, descriptor numbers and the select() readiness of every held
// descriptor after every step must agree.  This is what binds the one hand-written model (vk/kernel.hpp, vk/ops.hpp) to Linux.
#include "qmailenv.hpp"
#include <sys/wait.h>
using namespace vk;

struct Conf : Scenario {
  const Config &cfg; int depth; std::vector<int> seq, alpha; std::shared_ptr<Sink> out; int pid = 0; std::string prog;
  Conf(const Config &c) : cfg(c) { depth = c.geti("depth", 3); prog = c.standin.substr(0, c.standin.rfind('/')) + "/confprog"; { char rp[4096]; if (realpath(prog.c_str(), rp)) prog = rp; }
    std::string ops = c.get("ops", ""); if (ops.empty()) for (int i = 0; i < NOPS; i++) alpha.push_back(i); else { std::istringstream in(ops); std::string t; while (std::getline(in, t, ',')) alpha.push_back(atoi(t.c_str())); } }
  static const int NOPS = 30;
  void setup(World &w) override {
    Kernel &k = w.k; k.mkdir_p("/work", 0755, 0, 0);
    w.exectab["/confprog"] = prog; w.base_env = {"PATH=/bin"};
    seq.clear(); for (int i = 0; i < depth; i++) seq.push_back(alpha[w.ex->choose_n((int) alpha.size(), BK_FREE)]);
    std::vector<std::string> av = {"confprog"}; for (int o : seq) av.push_back(std::to_string(o));
    std::map<int, int> fds; fds[0] = QmailEnv::nullfd(w); fds[1] = QmailEnv::sink(w, &out); fds[2] = QmailEnv::nullfd(w);
    pid = w.spawn("/confprog", av, fds, 0, 0, "/work");
  }
  std::string native() {
    std::string dir = cfg.outdir + "/native-XXXXXX"; { char rp[4096]; if (realpath(cfg.outdir.c_str(), rp)) dir = std::string(rp) + "/native-XXXXXX"; } std::vector<char> d(dir.begin(), dir.end()); d.push_back(0);
    if (!mkdtemp(d.data())) throw HarnessError{"mkdtemp failed"};
    int p[2]; if (pipe(p)) throw HarnessError{"pipe failed"};
    pid_t c = fork();
    if (c == 0) {
      if (chdir(d.data())) _exit(97); umask(022); dup2(p[1], 1); close(p[0]); close(p[1]); { int n = open("/dev/null", O_RDWR); dup2(n, 0); dup2(n, 2); if (n > 2) close(n); }
      for (int f = 3; f < 64; f++) close(f);
      std::vector<std::string> a = {"confprog"}; for (int o : seq) a.push_back(std::to_string(o)); std::vector<char *> av; for (auto &x : a) av.push_back((char *) x.c_str()); av.push_back(nullptr);
      char *envp[] = {(char *) "PATH=/bin", nullptr}; execve(prog.c_str(), av.data(), envp); _exit(98);
    }
    close(p[1]); std::string o; char b[4096]; ssize_t n; while ((n = read(p[0], b, sizeof b)) > 0) o.append(b, n); close(p[0]);
    int st; waitpid(c, &st, 0);
    std::string rm = "rm -rf '" + std::string(d.data()) + "'"; if (system(rm.c_str())) {}
    if (!WIFEXITED(st) || WEXITSTATUS(st) != 0) throw HarnessError{"native run of confprog failed"};
    return o;
  }
  void at_end(World &w) override {
    std::string name; for (int o : seq) name += (name.empty() ? "" : ",") + std::to_string(o);
    std::string nat = native(); const std::string &vkout = out->data;
    w.counters["sequences"]++;
    if (nat != vkout) {
      // first differing line
      size_t i = 0, line = 1; while (i < nat.size() && i < vkout.size() && nat[i] == vkout[i]) { if (nat[i] == '\n') line++; i++; }
      auto L = [&](const std::string &s) { size_t b = s.rfind('\n', i ? i - 1 : 0); b = b == std::string::npos ? 0 : b + 1; size_t e = s.find('\n', i); return s.substr(b, e == std::string::npos ? std::string::npos : e - b); };
      std::string ln = L(nat); std::string opname = ln.substr(0, ln.find_first_of("=("));
      w.soft_violation("conformance:" + opname + ":step" + std::to_string(line), "operation sequence " + name + ", step " + std::to_string(line) + ": Linux [" + esc(L(nat), 200) + "], virtual kernel [" + esc(L(vkout), 200) + "]");
      w.counters["sequences_disagreeing"]++;
    }
    w.outcome_hash = fnvs(3, nat); w.description = "ops " + name + " -> " + esc(nat, 160);
  }
};
int main(int argc, char **argv) { return vk_main(argc, argv, [](const Config &c) -> Scenario * { return new Conf(c); }, "conf"); }
