// The virtual /var/qmail used by every VK scenario: users, directory tree (conf-split 23), control files,
// exec table pointing at the scratch build of /repo.
#pragma once
#include "driver.hpp"

namespace vk {

enum { UID_ALIAS = 7790, UID_QMAILD = 7791, UID_QMAILL = 7792, UID_QMAILP = 7793, UID_QMAILQ = 7794, UID_QMAILR = 7795, UID_QMAILS = 7796, GID_QMAIL = 2107, GID_NOFILES = 2108 };
static const int SPLIT = 23;
static const char *const QDATE = "9 Sep 2001 01:46:40 -0000\n";   // date822fmt of the initial virtual clock 1000000000

struct QmailEnv {
  static void build(World &w, const Config &cfg, bool queue = true) {
    Kernel &k = w.k;
    k.passwd = { {"alias", UID_ALIAS, GID_NOFILES, "/var/qmail/alias"}, {"qmaild", UID_QMAILD, GID_NOFILES, "/var/qmail"}, {"qmaill", UID_QMAILL, GID_NOFILES, "/var/qmail"},
                 {"root", 0, 0, "/root"}, {"qmailp", UID_QMAILP, GID_NOFILES, "/var/qmail"}, {"qmailq", UID_QMAILQ, GID_QMAIL, "/var/qmail"},
                 {"qmailr", UID_QMAILR, GID_QMAIL, "/var/qmail"}, {"qmails", UID_QMAILS, GID_QMAIL, "/var/qmail"} };
    k.groups = { {"qmail", GID_QMAIL}, {"nofiles", GID_NOFILES} };
    k.mkdir_p("/var/qmail/bin"); k.mkdir_p("/var/qmail/control"); k.mkdir_p("/var/qmail/users"); k.mkdir_p("/var/qmail/alias", 0755, UID_ALIAS, GID_QMAIL);
    k.mkdir_p("/bin"); k.mkdir_p("/tmp");
    k.put_file("/var/qmail/control/me", "me.example\n");
    if (queue) {
      const char *split[] = { "mess", "info", "local", "remote" };
      for (auto d : split) for (int i = 0; i < SPLIT; i++) k.mkdir_p(std::string("/var/qmail/queue/") + d + "/" + std::to_string(i), 0700, UID_QMAILQ, GID_QMAIL);
      for (auto d : { "intd", "todo", "bounce", "pid", "lock" }) k.mkdir_p(std::string("/var/qmail/queue/") + d, 0700, UID_QMAILQ, GID_QMAIL);
      k.put_file("/var/qmail/queue/lock/sendmutex", "", 0600, UID_QMAILS, GID_QMAIL);
      k.put_file("/var/qmail/queue/lock/tcpto", std::string(1024, '\0'), 0644, UID_QMAILR, GID_QMAIL);
      k.put_fifo("/var/qmail/queue/lock/trigger", 0622, UID_QMAILS, GID_QMAIL);
    }
    static const char *progs[] = { "qmail-queue", "qmail-send", "qmail-clean", "qmail-local", "qmail-lspawn", "qmail-rspawn", "qmail-remote", "qmail-getpw", "qmail-smtpd", "qmail-qmtpd",
                                   "qmail-qmqpd", "qmail-pop3d", "qmail-popup", "qmail-inject", "qmail-newu", "qmail-newmrh", "qmail-start", "splogger", "forward", "condredirect", "bouncesaying", "preline", "except", "qreceipt", "qmail-pw2u", "qbiff", "qmail-showctl", "qmail-qread", "qmail-qstat", "qmail-tcpto", "qmail-tcpok", "maildir2mbox", "predate", "datemail", "mailsubj", "sendmail", "tcp-env" };
    for (auto p : progs) { w.exectab[std::string("/var/qmail/bin/") + p] = cfg.srcdir + "/" + p; w.exectab[p] = cfg.srcdir + "/" + p; }
    w.san_log_prefix = cfg.outdir + "/san";
    w.base_env = { "PATH=/var/qmail/bin:/bin", "ASAN_OPTIONS=detect_leaks=0:abort_on_error=1:verify_asan_link_order=0:log_path=" + w.san_log_prefix, "UBSAN_OPTIONS=print_stacktrace=1:log_path=" + w.san_log_prefix };
    // everything created from now on (message files) takes the lowest free inode number
  }
  static std::string messpath(long n) { return "/var/qmail/queue/mess/" + std::to_string(n % SPLIT) + "/" + std::to_string(n); }
  static std::string qpath(const char *dir, long n, bool split) { return std::string("/var/qmail/queue/") + dir + "/" + (split ? std::to_string(n % SPLIT) + "/" : std::string()) + std::to_string(n); }
  static std::string date822(long t) { static const char *mon[] = {"Jan","Feb","Mar","Apr","May","Jun","Jul","Aug","Sep","Oct","Nov","Dec"}; time_t tt = t; struct tm tm; gmtime_r(&tt, &tm); char b[64]; snprintf(b, sizeof b, "%d %s %d %02d:%02d:%02d -0000\n", tm.tm_mday, mon[tm.tm_mon], tm.tm_year + 1900, tm.tm_hour, tm.tm_min, tm.tm_sec); return b; }
  static std::string received_line_at(int pid, int uid, long t) { std::string l = received_line(pid, uid); return l.substr(0, l.size() - strlen(QDATE)) + date822(t); }
  static std::string received_line(int pid, int uid) {
    std::string who = uid == UID_ALIAS ? "by alias" : uid == UID_QMAILD ? "from network" : uid == UID_QMAILS ? "for bounce" : "by uid " + std::to_string(uid);
    return "Received: (qmail " + std::to_string(pid) + " invoked " + who + "); " + QDATE;
  }
  // a pipe already filled with data whose writer is gone (EOF after the data); returns the read-end description
  static int preloaded_pipe(World &w, const std::string &data) {
    int r, wr; w.k.make_pipe(&r, &wr, data.size() + 4096);
    w.k.ofds[r]->pipe->buf = data; w.k.ofds[r]->pipe->writers = 0;
    w.k.ofds[wr].reset();
    return r;
  }
  static int sink(World &w, std::shared_ptr<Sink> *out = nullptr) { int o = w.k.new_ofd(); w.k.ofds[o]->kind = K_SINK; w.k.ofds[o]->sink = std::make_shared<Sink>(); w.k.ofds[o]->flags = O_WRONLY; if (out) *out = w.k.ofds[o]->sink; return o; }
  static int nullfd(World &w) { int o = w.k.new_ofd(); w.k.ofds[o]->kind = K_NULL; w.k.ofds[o]->flags = O_RDWR; return o; }
};

static inline std::string esc(const std::string &s, size_t max = 120) {
  std::string o; for (size_t i = 0; i < s.size() && o.size() < max; i++) { unsigned char c = s[i]; if (c >= 32 && c < 127 && c != '\\') o += c; else { char b[8]; snprintf(b, sizeof b, "\\x%02x", c); o += b; } }
  if (o.size() >= max) o += "...";
  return o;
}

}  // namespace vk
