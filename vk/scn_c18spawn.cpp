// C18 (spawners) / C09 (relay of the child's fate): the real qmail-lspawn and qmail-rspawn (spawn.c) under the virtual kernel, fed
// delivery-command streams; qmail-local / qmail-remote are scripted stand-ins.
//   family=ids    one command: every message id of a catalogue (valid, wrong owner, directory, FIFO, missing, absolute, dot-dot,
//                 letters, high bytes, over-long, empty ...) x delivery numbers {0,1,119,120,127,128,255} x recipient/sender forms
//   family=cut    a two-command stream cut after every byte
//   family=multi  every sequence of 1..3 commands over a small set (same delivery number twice, invalid between valid ...)
//   family=fate   one valid command; the child prints one of several reports, closes its output and then exits 0/100/111 or is
//                 killed -- explored under every interleaving within the preemption bound (the spawner may see end-of-file on the
//                 report pipe before the child is dead)
//   family=reuse  2 (3) deliveries one after the other through the same delivery number, every ordered tuple of child fates: each
//                 command is sent when the report for the previous one has arrived, so the spawner's slot is really used again
//   family=split  a first delivery is started and its program takes its time; a second command arrives in two pieces (cut after every
//                 byte) and the first delivery finishes between the pieces: both reports must carry their own delivery numbers
// Oracle: (1) the spawner itself opens nothing but numerically named paths below queue/mess (and lock/tcpto); (2) a child is started
// iff the id is numeric, the file is regular and owned by the queue user and the recipient has a host part, and its standard input
// is that message; (3) every complete command is answered by exactly one report carrying its delivery number, nothing else is
// written; (4) the relayed verdict matches the child's fate (crash/111 -> Z, other failures -> D, exit 0 -> what the child said).
#include "qmailenv.hpp"
using namespace vk;

struct Cmd { int delnum; std::string id, sender, rcpt; };
struct Fate { std::string name, output; int exitcode; int sig; char want_r, want_l; };   // want for rspawn / lspawn
static std::string Z(const char *s, size_t n) { return std::string(s, n); }
static const std::string MSG123 = "Subject: m123\n\nbody of 123\n";

static std::string enc(const Cmd &c) { std::string s; s.push_back((char) c.delnum); s += c.id; s.push_back('\0'); s += c.sender; s.push_back('\0'); s += c.rcpt; s.push_back('\0'); return s; }
static bool numeric_id(const std::string &id) { if (id.empty() || id.size() + 1 > 100) return false; for (size_t i = 0; i < id.size(); i++) { char c = id[i]; if (c == '/' && i > 0) continue; if (c < '0' || c > '9') return false; } return true; }

struct C18S : Scenario {
  const Config &cfg; std::string fam, prog; bool local; std::vector<std::vector<Cmd>> cases; std::vector<Fate> fates; const std::vector<Cmd> *cs = nullptr; std::string stream; size_t complete = 0; const Fate *fate = nullptr;
  int mainpid = 0; std::shared_ptr<Sink> out; int children = 0; std::vector<std::string> child_stdin; std::map<int, int> child_stage; std::map<int, std::string> child_in; std::string casename; bool cut = false;
  std::vector<int> child_delnum_order; int spawnlimit = 120;
  std::shared_ptr<Pipe> inpipe; std::vector<const Fate *> fateseq; std::map<int, const Fate *> child_fate; size_t sent = 0;   // family=reuse
  size_t split_at = 0; int split_stage = 0; int heldpid = 0;   // family=split
  C18S(const Config &c) : cfg(c) {
    { std::ifstream f(c.srcdir + "/conf-spawn"); int v = 0; if (f >> v && v > 0 && v < 256) spawnlimit = v; }   // the compiled-in concurrency limit of the tree under test
    fam = c.get("family", "ids"); prog = c.get("prog", "rspawn"); local = prog == "lspawn";
    std::string okr = local ? "joe@local.example" : "r@remote.example";
    fates = { {"prints success, exits 0", local ? "delivered\n" : Z("r250 ok\n\0Kaccepted\n\0", 20), 0, 0, 'K', 'K'}, {"prints nothing, exits 0", "", 0, 0, 'Z', 'K'}, {"prints failure, exits 0 (remote) / 100 (local)", local ? "no such user\n" : Z("hbad\n\0DGiving up\n\0", 18), local ? 100 : 0, 0, 'D', 'D'},
              {"prints success, then crashes", local ? "delivered\n" : Z("r250 ok\n\0Kaccepted\n\0", 20), 0, SIGSEGV, 'Z', 'Z'}, {"prints success, exits 111", local ? "delivered\n" : Z("r250 ok\n\0Kaccepted\n\0", 20), 111, 0, 'Z', 'Z'},
              {"prints success, exits 100", local ? "delivered\n" : Z("r250 ok\n\0Kaccepted\n\0", 20), 100, 0, 'D', 'D'}, {"prints deferral, exits 0 (remote) / 111 (local)", local ? "try later\n" : Z("s\0Zdeferred\n\0", 13), local ? 111 : 0, 0, 'Z', 'Z'},
              {"prints success, is killed (SIGKILL)", local ? "delivered\n" : Z("r250 ok\n\0Kaccepted\n\0", 20), 0, SIGKILL, 'Z', 'Z'}, {"prints success, exits 1", local ? "x\n" : Z("r\0K\0", 4), 1, 0, 'D', 'D'} };
    if (fam == "ids") {
      std::vector<std::string> ids = {"8/123", "8/124", "8/125", "8/126", "8/999", "/123456", "/8/123", "/var/qmail/queue/mess/8/123", "../mess/8/123", "8/../8/123", "8//123", "8/", "8", "", "8/123x", "x", ".", "..", "8/12.3", "8/123/", std::string(99, '1'), std::string(100, '1'), "8/" + std::string(96, '1'), "8/" + std::string(97, '1'), "8/123\xff", "\xff", "8\\123", " 8/123", "8/123 ", "-8/123", "+8/123", "08/0123", "123456"};
      for (auto &id : ids) for (int dn : {0, 1, 119, 120, 127, 128, 255}) { if (dn != 1 && !(id == "8/123" || id == "/123456" || id == "x" || id == "")) continue; for (auto &rc : std::vector<std::string>{okr, "nohost", "", "a@b@remote.example", "@local.example"}) for (auto &sn : std::vector<std::string>{"s@src.example", ""}) { if ((rc != okr || !sn.size()) && dn != 1) continue; cases.push_back({Cmd{dn, id, sn, rc}}); } }
    } else if (fam == "cut" || fam == "fate") {
      cases.push_back({Cmd{3, "8/123", "s@src.example", okr}, Cmd{4, "8/123", "", okr}});
      if (fam == "fate") cases[0].pop_back();
    } else if (fam == "split") {
      cases.push_back({Cmd{0, "8/123", "s@src.example", okr}, Cmd{1, "8/123", "r1@src.example", okr}});
      cases.push_back({Cmd{5, "8/123", "s@src.example", okr}, Cmd{2, "8/123", "", okr}});
    } else if (fam == "reuse") {
      cases.push_back({Cmd{3, "8/123", "s@src.example", okr}});
    } else if (fam == "multi") {
      std::vector<Cmd> pool = { Cmd{5, "8/123", "s@src.example", okr}, Cmd{5, "8/123", "", okr}, Cmd{6, "8/123", "s@src.example", okr}, Cmd{6, "/123456", "s@src.example", okr}, Cmd{200, "8/123", "s@src.example", okr}, Cmd{7, "8/124", "s@src.example", okr}, Cmd{0, "8/123", "s@src.example", "nohost"} };
      int maxn = c.geti("thorough") ? 4 : 3;
      for (int n = 1; n <= maxn; n++) { std::vector<int> idx(n, 0); for (;;) { std::vector<Cmd> v; for (int i = 0; i < n; i++) v.push_back(pool[idx[i]]); cases.push_back(v); int i = n - 1; while (i >= 0 && ++idx[i] == (int) pool.size()) { idx[i] = 0; i--; } if (i < 0) break; } }
    } else throw HarnessError{"unknown family " + fam};
  }
  static size_t choose_big(World &w, size_t n) { size_t lo = 0, size = n; while (size > 1) { size_t span = 1; while (span * 240 < size) span *= 240; size_t cnt = (size + span - 1) / span; size_t d = (size_t) w.ex->choose_n((int) cnt, BK_FREE); lo += d * span; size = std::min(span, size - d * span); } return lo; }
  void setup(World &w) override {
    QmailEnv::build(w, cfg, true); Kernel &k = w.k;
    k.passwd.push_back({"joe", 507, 100, "/home/joe"}); k.mkdir_p("/home/joe", 0755, 507, 100);
    k.put_file(QmailEnv::messpath(123), MSG123, 0644, UID_QMAILQ, GID_QMAIL); k.put_file("/var/qmail/queue/mess/8/124", "owned by somebody else\n", 0644, 1000, 1000);
    k.mkdir_p("/var/qmail/queue/mess/8/125", 0755, UID_QMAILQ, GID_QMAIL); k.put_fifo("/var/qmail/queue/mess/8/126", 0644, UID_QMAILQ, GID_QMAIL);
    k.put_file("/123456", "a file of the queue user outside the queue\n", 0644, UID_QMAILQ, GID_QMAIL); k.put_file("/var/qmail/queue/mess/123456", "numeric name directly in mess\n", 0644, UID_QMAILQ, GID_QMAIL);
    k.put_file("/var/qmail/queue/mess/8/" + std::string(96, '1'), "long numeric name\n", 0644, UID_QMAILQ, GID_QMAIL);
    w.exectab["/var/qmail/bin/qmail-local"] = "@child"; w.exectab["qmail-local"] = "@child"; w.exectab["/var/qmail/bin/qmail-remote"] = "@child"; w.exectab["qmail-remote"] = "@child";
    size_t ci = choose_big(w, cases.size()); cs = &cases[ci];
    stream.clear(); for (auto &c : *cs) stream += enc(c); complete = cs->size();
    casename = prog + " " + fam + ":"; for (auto &c : *cs) casename += " {" + std::to_string(c.delnum) + " [" + esc(c.id, 40) + "] [" + esc(c.sender, 20) + "] [" + esc(c.rcpt, 30) + "]}";
    if (fam == "cut") { size_t at = choose_big(w, stream.size() + 1); cut = at < stream.size(); size_t pos = 0; complete = 0; for (auto &c : *cs) { pos += enc(c).size(); if (pos <= at) complete++; } stream.resize(at); casename += " cut after byte " + std::to_string(at); }
    fate = &fates[0];
    if (fam == "fate") { fate = &fates[w.ex->choose_n((int) fates.size(), BK_FREE)]; casename += " child " + fate->name; }
    if (fam == "reuse") { int n = cfg.geti("seqlen", 2); for (int i = 0; i < n; i++) fateseq.push_back(&fates[w.ex->choose_n((int) fates.size(), BK_FREE)]); casename += " children in turn:"; for (auto f : fateseq) casename += " <" + f->name + ">"; }
    std::map<int, int> fds;
    if (fam == "split") { std::string b = enc((*cs)[1]); split_at = 1 + choose_big(w, b.size() - 1); casename += " second command cut after byte " + std::to_string(split_at); }
    if (fam == "reuse" || fam == "split") { int r, wr; k.make_pipe(&r, &wr, 1 << 16); k.ofd_ref(wr); inpipe = k.ofds[wr]->pipe; inpipe->buf += fam == "split" ? enc((*cs)[0]) : stream; sent = 1; fds[0] = r; }
    else fds[0] = QmailEnv::preloaded_pipe(w, stream); fds[1] = QmailEnv::sink(w, &out); fds[2] = QmailEnv::nullfd(w);
    std::vector<std::string> av = {"qmail-" + prog}; if (local) av.push_back("./Mailbox");
    mainpid = w.spawn("/var/qmail/bin/qmail-" + prog, av, fds, local ? 0 : UID_QMAILR, local ? 0 : GID_QMAIL, "/");
  }
  bool starts_child(const Cmd &c) { if (c.delnum >= spawnlimit) return false; if (local && !c.rcpt.empty() && c.rcpt[0] == '@') return false;   /* the trash address: accepted and thrown away without a delivery program */ if (!numeric_id(c.id)) return false; if (c.rcpt.find('@') == std::string::npos) return false; std::string n; for (char ch : c.id) if (!(ch == '/' && !n.empty() && n.back() == '/')) n += ch;   /* the kernel ignores repeated slashes */
    return n == "8/123" || n == "123456" || n == "8/" + std::string(96, '1'); }
  bool valid_msg(const Cmd &c) { std::string n; for (char ch : c.id) if (!(ch == '/' && !n.empty() && n.back() == '/')) n += ch; return n == "8/123" || n == "123456" || n == "8/" + std::string(96, '1'); }
  std::string script(World &, Proc &p) override {
    std::string a; int v; auto I = [&](int x) { v = x; a.append((char *) &v, 4); };
    int &st = child_stage[p.vpid];
    if (st == 0) { st = 1; children++; if (fam == "reuse") child_fate[p.vpid] = fateseq[std::min<size_t>(children - 1, fateseq.size() - 1)]; I(VKA_READALL); I(0); I(VKA_ASK); return a; }
    child_stdin.push_back(child_in[p.vpid]);
    if (fam == "split" && children == 1 && !heldpid) { heldpid = p.vpid; p.held = true; }   // the first delivery program takes its time (its next call waits)
    const Fate *fate = this->fate; if (fam == "reuse") fate = child_fate[p.vpid];
    if (!fate->output.empty()) { I(VKA_WRITE); I(1); I((int) fate->output.size()); a += fate->output; }
    I(VKA_CLOSE); I(1); I(VKA_CLOSE); I(2);
    if (fate->sig) { I(VKA_KILLSELF); I(fate->sig); } else { I(VKA_EXIT); I(fate->exitcode); }
    return a;
  }
  size_t reports_in(const std::string &o) { size_t n = 0, i = 1; while (i < o.size()) { size_t z = o.find('\0', i + 1); if (z == std::string::npos) break; n++; i = z + 1; } return n; }
  bool on_quiescent(World &w) override {
    if (fam == "split" && inpipe) {
      std::string b = enc((*cs)[1]);
      switch (split_stage++) {
        case 0: inpipe->buf += b.substr(0, split_at); return true;
        case 1: for (auto &pp : w.procs) if (pp && pp->vpid == heldpid) pp->held = false; return true;
        case 2: inpipe->buf += b.substr(split_at); return true;
        default: inpipe->writers = 0; inpipe.reset(); return true; }
    }
    (void) w; if (fam != "reuse" || !inpipe) return false;
    if (reports_in(out->data) < sent) { inpipe->writers = 0; inpipe.reset(); return true; }   // no report for the last command: end the input, at_end reports it
    if (sent < fateseq.size()) { inpipe->buf += stream; sent++; return true; }
    inpipe->writers = 0; inpipe.reset(); return true;
  }
  void on_proc_exit(World &, Proc &p) override { child_stage.erase(p.vpid); child_in.erase(p.vpid); child_fate.erase(p.vpid); }   // process ids are used again
  int faults_hit = 0;
  void alternatives(World &w, Proc &p, const Req &r, std::vector<Alt> &a) override {
    if (w.ex->bound[BK_FAULT] <= 0 || p.vpid != mainpid) return;
    // the spawner itself runs out of processes, pipes or descriptors for one command: that command is deferred, the following ones are served
    if (r.op == VK_FORK) a.push_back({BK_FAULT, ALT_FAIL, EAGAIN});
    if (r.op == VK_PIPE) a.push_back({BK_FAULT, ALT_FAIL, EMFILE});
    if (r.op == VK_OPEN && std::string(r.data.c_str()).find_first_not_of("0123456789/") == std::string::npos) { a.push_back({BK_FAULT, ALT_FAIL, ENFILE}); a.push_back({BK_FAULT, ALT_FAIL, EIO}); }
  }
  void after_step(World &w, Proc &p, const Step &st) override {
    if (st.injected && st.err) faults_hit++;
    if (!p.standin.empty() && st.op == VK_READ && st.ret > 0 && st.data && st.a[0] == 0) child_in[p.vpid] += *st.data;
    if (p.vpid == mainpid && st.op == VK_OPEN) {
      const std::string &path = st.path; bool ok = path == "../lock/tcpto" || path == "/var/qmail/queue/lock/tcpto";
      if (!ok) { ok = !path.empty() && path[0] != '/'; for (char c : path) if (!(c == '/' || (c >= '0' && c <= '9'))) ok = false; }
      if (!ok) w.soft_violation("C18:spawner-opened:" + esc(path, 60), casename + ": the spawner opened [" + esc(path, 100) + "], which is not a numerically named file below queue/mess");
      w.counters["spawner_opens_checked"]++;
    }
  }
  void at_end(World &w) override {
    Proc *p = nullptr; for (auto &pp : w.procs) if (pp && pp->vpid == mainpid) p = pp.get();
    w.counters["streams"]++;
    std::string key = "C18:" + casename;
    if (!p || (p->st != P_ZOMBIE && p->st != P_REAPED) || p->status != 0) { w.soft_violation("C18:spawner-exit:" + casename, casename + ": the spawner did not exit 0 after end of input (status " + std::to_string(p ? p->status : -1) + ")"); return; }
    const std::string &o = out->data;
    if (o.empty() || (unsigned char) o[0] != spawnlimit) { w.soft_violation(key, casename + ": first byte written is not the concurrency announcement: [" + esc(o, 60) + "]"); return; }
    // reports: delnum, text without NUL, NUL
    std::vector<std::pair<int, std::string>> reps; size_t i = 1;
    while (i < o.size()) { int dn = (unsigned char) o[i++]; size_t z = o.find('\0', i); if (z == std::string::npos) { w.soft_violation(key, casename + ": unterminated report at the end of the output: [" + esc(o.substr(i - 1), 80) + "]"); return; } reps.push_back({dn, o.substr(i, z - i)}); i = z + 1; }
    if (fam == "reuse") {
      if (reps.size() != fateseq.size()) { w.soft_violation(key, casename + ": " + std::to_string(reps.size()) + " reports for " + std::to_string(fateseq.size()) + " deliveries: [" + esc(o.substr(1), 200) + "]"); return; }
      if (children != (int) fateseq.size()) { w.soft_violation(key, casename + ": " + std::to_string(children) + " delivery programs were started for " + std::to_string(fateseq.size()) + " commands"); return; }
      for (size_t i = 0; i < reps.size(); i++) { char want = local ? fateseq[i]->want_l : fateseq[i]->want_r;
        if (reps[i].first != (*cs)[0].delnum || reps[i].second.empty() || reps[i].second[0] != want) { w.soft_violation("C09:relay-after-reuse:" + prog + ":" + std::to_string(i + 1) + ":" + fateseq[i]->name, casename + ": delivery " + std::to_string(i + 1) + " through number " + std::to_string((*cs)[0].delnum) + " is reported as " + std::to_string(reps[i].first) + " [" + esc(reps[i].second, 80) + "], expected status " + std::string(1, want) + " (the verdict of this child alone)"); return; }
        // the text after the status letter is what this child said, not what an earlier user of the slot said
        if (i > 0 && fateseq[i]->output != fateseq[i - 1]->output && reps[i].second.size() > 1 && reps[i].second == reps[i - 1].second && want != (local ? fateseq[i - 1]->want_l : fateseq[i - 1]->want_r)) { w.soft_violation("C09:stale-report-text:" + prog, casename + ": the report of delivery " + std::to_string(i + 1) + " repeats the previous one"); return; }
        w.counters[std::string("verdict_") + want]++; }
      w.counters["slot_reuses"] += fateseq.size() - 1; w.counters["reports_checked"] += reps.size(); w.counters["children_started"] += children;
      w.outcome_hash = fnvs(fnvs(11, casename), o); w.description = casename + " -> [" + esc(o.substr(1), 80) + "]"; return;
    }
    if (fam == "split") {
      if (!heldpid) { w.soft_violation(key, casename + ": the first delivery program was never started"); return; }
      if (reps.size() != 2 || reps[0].first != (*cs)[0].delnum || reps[1].first != (*cs)[1].delnum || reps[0].second.empty() || reps[1].second.empty() || reps[0].second[0] != 'K' || reps[1].second[0] != 'K') {
        std::string r; for (auto &x : reps) r += std::to_string(x.first) + ":[" + esc(x.second, 40) + "] "; w.soft_violation("C18:report-number-after-split-command:" + prog, casename + ": the first delivery finished while the second command was half read; reports are " + r + "; expected one success report for delivery " + std::to_string((*cs)[0].delnum) + " and then one for delivery " + std::to_string((*cs)[1].delnum)); return; }
      if (children != 2) { w.soft_violation(key, casename + ": " + std::to_string(children) + " delivery programs were started for 2 commands"); return; }
      w.counters["split_commands"]++; w.counters["reports_checked"] += 2; w.counters["children_started"] += children; w.counters["verdict_K"] += 2;
      w.outcome_hash = fnvs(fnvs(11, casename), o); w.description = casename + " -> [" + esc(o.substr(1), 80) + "]"; return;
    }
    if (reps.size() != complete) { w.soft_violation(key, casename + ": " + std::to_string(reps.size()) + " reports for " + std::to_string(complete) + " complete commands: [" + esc(o.substr(1), 200) + "]"); return; }
    // each command's delivery number is answered (as a multiset)
    { std::multiset<int> want, got; for (size_t c = 0; c < complete; c++) want.insert((*cs)[c].delnum); for (auto &r : reps) got.insert(r.first); if (want != got) { w.soft_violation(key, casename + ": the reports do not carry the delivery numbers of the commands: [" + esc(o.substr(1), 200) + "]"); return; } }
    for (auto &r : reps) if (r.second.empty() || !(r.second[0] == 'K' || r.second[0] == 'Z' || r.second[0] == 'D')) { w.soft_violation(key, casename + ": report for delivery " + std::to_string(r.first) + " has no status letter: [" + esc(r.second, 60) + "]"); return; }
    // children: started exactly for the acceptable commands, in order, each reading the named message
    { int want_children = 0; std::set<int> inuse; std::map<int, int> startedfor;
      for (size_t c = 0; c < complete; c++) { const Cmd &cm = (*cs)[c]; bool st = starts_child(cm) && !inuse.count(cm.delnum); if (st) { want_children++; inuse.insert(cm.delnum); } }
      // commands arriving in one read are processed back to back, so a repeated delivery number is "in use" (the oracle above assumes this; fate/ids/cut have no repeats)
      if (faults_hit) { if (children > want_children) { w.soft_violation(key, casename + ": more delivery programs were started than there are acceptable commands"); return; } }
      else if (children != want_children && fam != "multi") { w.soft_violation(key, casename + ": " + std::to_string(children) + " delivery programs were started, expected " + std::to_string(want_children)); return; }
      if (fam == "multi" && children > want_children) { w.soft_violation(key, casename + ": " + std::to_string(children) + " delivery programs were started, at most " + std::to_string(want_children) + " commands are acceptable"); return; }
      for (auto &in : child_stdin) { bool known = in == MSG123 || in == "numeric name directly in mess\n" || in == "long numeric name\n"; if (!known) { w.soft_violation(key + ":stdin", casename + ": a delivery program was given [" + esc(in, 60) + "] as its message"); return; } }
      w.counters["children_started"] += children; }
    // verdicts
    for (size_t c = 0; c < complete; c++) {
      const Cmd &cm = (*cs)[c]; if (fam == "multi") break;
      if (faults_hit) { const std::string *t2 = nullptr; for (auto &r : reps) if (r.first == cm.delnum) t2 = &r.second; if (t2 && starts_child(cm) && (*t2)[0] == 'D') { w.soft_violation(key + ":permanent-on-resource-trouble", casename + ": the spawner ran out of a resource (injected) and reported a permanent failure [" + esc(*t2, 80) + "]"); return; } continue; }
      const std::string *txt = nullptr; for (auto &r : reps) if (r.first == cm.delnum) txt = &r.second;
      if (!txt) continue;
      char got = (*txt)[0], want;
      if (cm.delnum >= spawnlimit) want = 'Z'; else if (!numeric_id(cm.id)) want = 'D'; else if (cm.rcpt.find('@') == std::string::npos) want = 'D'; else if (!starts_child(cm)) want = 'Z'; else want = local ? fate->want_l : fate->want_r;
      if (cm.id.empty() && cm.delnum < spawnlimit) want = 'D';
      if (local && !cm.rcpt.empty() && cm.rcpt[0] == '@' && cm.delnum < spawnlimit && numeric_id(cm.id) && valid_msg(cm)) want = 'K';
      if (got != want) { w.soft_violation(fam == "fate" ? "C09:relay:" + prog + ":" + fate->name : key, casename + ": delivery " + std::to_string(cm.delnum) + " is reported as [" + esc(*txt, 80) + "], expected status " + std::string(1, want)); return; }
      w.counters[std::string("verdict_") + got]++;
    }
    w.counters["reports_checked"] += reps.size();
    w.outcome_hash = fnvs(fnvs(11, casename), o); w.description = casename + " -> [" + esc(o.substr(1), 80) + "]";
  }
};
int main(int argc, char **argv) { return vk_main(argc, argv, [](const Config &c) -> Scenario * { return new C18S(c); }, "c18spawn"); }
