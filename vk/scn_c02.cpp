// C02 Every queue entry is always in a documented state under any interleaving: injectors, qmail-send, qmail-clean (and
// the bounce injector) interleaved at system-call granularity within a preemption bound, crash points of every
// process, stale leftovers, a second daemon instance.  Monitors: daemon.hpp check_qstate after every namespace change.
#include "daemon.hpp"
using namespace vk;

struct C02 : DaemonScenario {
  std::string fam; int second_pid = 0; bool second_started = false; int blocked_pid = 0; std::shared_ptr<Pipe> held; bool blocked_started = false; int trunc_started = 0;
  C02(const Config &c) : DaemonScenario(c) { fam = c.get("family", "interleave"); mon.insert("C02"); mon.insert("C01"); }
  void setup(World &w) override {
    if (fam == "backlog") {
      // mail that sat in todo/ for 40 hours while the daemon was down
      int n = cfg.geti("backlog", 12); tosend.clear();
      for (int i = 0; i < n; i++) tosend.push_back({"g" + std::to_string(i), "sg@src.example", {"g" + std::to_string(i) + "@a.com"}, "Subject: g\n\nold mail\n", 1000});
      inject_mode = "pre";
    }
    expect_leftovers = (fam == "failing" || fam == "stale");
    DaemonScenario::setup(w);
    if (fam == "backlog") {
      Kernel &k = w.k; long old = k.clock - 144000;
      for (int d = 0; d < SPLIT; d++) for (auto &nm : k.listdir("/var/qmail/queue/mess/" + std::to_string(d))) { Inode *f = k.file("/var/qmail/queue/mess/" + std::to_string(d) + "/" + nm); f->atime = f->mtime = f->ctime = old; }
      for (auto &nm : k.listdir("/var/qmail/queue/todo")) { Inode *f = k.file("/var/qmail/queue/todo/" + nm); f->atime = f->mtime = old; }
    }
  }
  bool local_op(World &w, Proc &p, const Req &r) override {
    // descriptors that no other process can reach: preloaded input pipes of an injector, the daemon's log
    if (r.op == VK_READ || r.op == VK_WRITE) { Ofd *o = w.O(p, r.a[0]); if (o && (o->kind == K_SINK || o->kind == K_NULL || (o->kind == K_PIPE_R && o->pipe->writers <= 0 && !o->ino))) return true; }
    return false;
  }
  bool crash_points_enabled(World &, Proc &) override { return true; }
  void alternatives(World &w, Proc &p, const Req &r, std::vector<Alt> &a) override {
    DaemonScenario::alternatives(w, p, r, a);
    if (fam == "second") { std::vector<Alt> keep; for (auto &x : a) if (x.kind != BK_FAULT) keep.push_back(x); a = keep; }   // this family fails only the second instance's lock attempt
    // the second instance's attempt to take the lock fails with an error other than "somebody holds it": it still must not go on
    if (p.vpid == second_pid && second_pid && r.op == VK_FLOCK && w.ex->bound[BK_FAULT] > 0) { a.push_back({BK_FAULT, ALT_FAIL, ENOLCK}); a.push_back({BK_FAULT, ALT_FAIL, EIO}); }
  }
  bool extra_events(World &w) override {
    if (fam == "second" && !second_started && restarts >= 1) {
      // a second qmail-send is started against the same queue: it must refuse and touch nothing
      second_started = true;
      Kernel &k = w.k; int a, b, c, d; k.make_pipe(&a, &b); k.make_pipe(&c, &d);
      k.ofds[a]->pipe->buf.push_back((char) 5); k.ofds[c]->pipe->buf.push_back((char) 5);
      std::map<int, int> sf; sf[0] = QmailEnv::sink(w); sf[1] = QmailEnv::nullfd(w); sf[2] = a; sf[3] = QmailEnv::nullfd(w); sf[4] = c; sf[5] = QmailEnv::nullfd(w); sf[6] = QmailEnv::nullfd(w);
      second_pid = w.spawn("/var/qmail/bin/qmail-send", {"qmail-send"}, sf, UID_QMAILS, GID_QMAIL, "/");
      history += " SECOND-INSTANCE"; w.counters["second_instances"]++;
      return true;
    }
    if (fam == "stale" && !blocked_started) {
      // an injector that hangs: its input never ends.  It dies from its own 24 h alarm; its leftovers are collected after 36 h
      blocked_started = true;
      Kernel &k = w.k; int r, wr; k.make_pipe(&r, &wr); k.ofd_ref(wr); held = k.ofds[wr]->pipe; held->buf = "Subject: partial\n";
      std::map<int, int> fds; fds[0] = r; fds[1] = QmailEnv::preloaded_pipe(w, std::string("Fs@x") + '\0' + "Tr@a.com" + '\0' + '\0'); fds[2] = QmailEnv::nullfd(w);
      blocked_pid = w.spawn("/var/qmail/bin/qmail-queue", {"qmail-queue"}, fds, 1000, GID_QMAIL, "/");
      injectors.push_back(blocked_pid); own_injectors.push_back(blocked_pid); history += " HUNG-INJECTOR"; w.counters["hung_injectors"]++;
      return true;
    }
    if (fam == "failing" && trunc_started < 3) {
      // injections that fail after creating files: truncated envelope (exit 54 via cleanup()), over-long address (exit 11, S3 left behind), wrong letter
      static const char *envs[] = {"Fs@x\0Tr@a.com", "Fs@x\0T", "Xs@x\0"}; static const size_t lens[] = {13, 6, 5};
      std::string env(envs[trunc_started], lens[trunc_started]); if (trunc_started == 1) env += std::string(1100, 'r');
      std::map<int, int> fds; fds[0] = QmailEnv::preloaded_pipe(w, "Subject: f\n\nx\n"); fds[1] = QmailEnv::preloaded_pipe(w, env); fds[2] = QmailEnv::nullfd(w);
      int pid = w.spawn("/var/qmail/bin/qmail-queue", {"qmail-queue"}, fds, 1000, GID_QMAIL, "/");
      injectors.push_back(pid); own_injectors.push_back(pid); trunc_started++; history += " FAILING-INJECTION"; w.counters["failing_injections"]++;
      return true;
    }
    return false;
  }
  void after_step(World &w, Proc &p, const Step &st) override {
    if (p.vpid == second_pid && second_pid) {
      bool mut = (st.op == VK_UNLINK || st.op == VK_LINK || st.op == VK_RENAME || st.op == VK_UTIMES || st.op == VK_FTRUNCATE || (st.op == VK_WRITE && st.kind == K_FILE) || (st.op == VK_OPEN && (st.a[0] & (O_CREAT | O_TRUNC))));
      if (mut) w.violation("C02:second-instance-touches-queue", "a second qmail-send, started while one is running, performed " + opname(st.op) + " " + st.path + " on the queue");
    }
    DaemonScenario::after_step(w, p, st);
  }
  void on_proc_exit(World &w, Proc &p) override {
    if (p.vpid == second_pid && second_pid) { if (p.status != (111 << 8)) w.violation("C02:second-instance-exit", "second qmail-send exited with status " + std::to_string(p.status) + ", documented 111"); else w.counters["second_instance_refused"]++; second_pid = 0; return; }
    if (p.vpid == blocked_pid && blocked_pid) { int code = (p.status >> 8) & 255; if (!(p.status & 127)) { w.counters["hung_injector_exit_" + std::to_string(code)]++; history += " INJECTOR-ALARM-EXIT(" + std::to_string(code) + ")"; } held.reset(); }
    DaemonScenario::on_proc_exit(w, p);
  }
};
int main(int argc, char **argv) { return vk_main(argc, argv, [](const Config &c) -> Scenario * { return new C02(c); }, "c02"); }
