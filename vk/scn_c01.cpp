// C01 Queue acceptance is all-or-nothing and durable: the real qmail-queue on the virtual queue; every input of
// the grid x every crash point (process kill / machine crash with every keep-or-lose pattern of unsynced data)
// x every single injected I/O failure at every call site.  DESIGN.md 4/C01.
#include "qmailenv.hpp"
using namespace vk;

struct Input { std::string name, msg, env; int uid; };

static std::vector<Input> make_inputs(const Config &cfg) {
  std::vector<Input> v;
  std::vector<size_t> sizes = cfg.geti("thorough") ? std::vector<size_t>{0, 1, 255, 256, 257, 2047, 2048, 2049, 8191, 8192, 8193, 20000}
                                                   : std::vector<size_t>{0, 1, 256, 257, 2049, 8193};
  auto body = [](size_t n) { std::string s; for (size_t i = 0; i < n; i++) s += (i % 61 == 60) ? '\n' : char('a' + i % 26); return s; };
  std::string canon = std::string("Fs@x") + '\0' + "Tr1@y" + '\0' + "Tr2@z" + '\0' + '\0';
  int uids[] = {1000, UID_ALIAS, UID_QMAILD, UID_QMAILS};
  for (size_t s : sizes) v.push_back({"msg" + std::to_string(s) + ",canonical-envelope", body(s), canon, 1000});
  for (int u : uids) v.push_back({"uid" + std::to_string(u), body(40), canon, u});
  auto E = [&](const std::string &n, const std::string &e) { v.push_back({n, body(300), e, 1000}); };
  E("no-recipients", std::string("Fs@x") + '\0' + '\0');
  E("empty-sender", std::string("F") + '\0' + "Tr@y" + '\0' + '\0');
  for (size_t l : {1002u, 1003u, 1004u}) {
    E("sender-len" + std::to_string(l), "F" + std::string(l, 's') + '\0' + "Tr@y" + '\0' + '\0');
    E("rcpt-len" + std::to_string(l), std::string("Fs@x") + '\0' + "T" + std::string(l, 'r') + '\0' + '\0');
    E("second-rcpt-len" + std::to_string(l), std::string("Fs@x") + '\0' + "Tq@y" + '\0' + "T" + std::string(l, 'r') + '\0' + '\0');
  }
  E("wrong-first-letter", std::string("Xs@x") + '\0' + "Tr@y" + '\0' + '\0');
  E("wrong-rcpt-letter", std::string("Fs@x") + '\0' + "Xr@y" + '\0' + '\0');
  E("wrong-second-rcpt-letter", std::string("Fs@x") + '\0' + "Tr@y" + '\0' + "Fq@z" + '\0' + '\0');
  E("bytes-after-terminator", canon + "Textra@z" + '\0');
  for (size_t cut = 0; cut < canon.size(); cut++) E("truncated-at-" + std::to_string(cut), canon.substr(0, cut));
  return v;
}

// reference: documented exit code for an envelope (qmail-queue(8)), and the committed envelope bytes
static int ref_envelope(const std::string &e, std::string &records) {
  size_t i = 0; records.clear();
  if (i >= e.size()) return 54;
  if (e[i] != 'F') return 91;
  auto addr = [&](char letter) -> int {
    size_t start = ++i, len = 0;
    for (;; len++) { if (len >= 1003) return 11; if (i >= e.size()) return 54; char ch = e[i++]; if (!ch) break; }
    records += letter; records += e.substr(start, i - start);
    return 0;
  };
  int r = addr('F'); if (r) return r;
  for (;;) {
    if (i >= e.size()) return 54;
    if (!e[i]) return 0;
    if (e[i] != 'T') return 91;
    r = addr('T'); if (r) return r;
  }
}

struct C01 : Scenario {
  const Config &cfg; std::vector<Input> inputs; const Input *in = nullptr; int qpid = 0;
  std::string exp_mess_tick; bool ticked = false;   // option clock=..: the second may change while the program runs (ALT_TICK at its time() calls)
  std::string exp_mess, exp_env; int exp_exit = 0; bool finished = false; int exitcode = -1; bool killed = false, crashed = false, signalled = false;
  bool committed_before_end = false;
  C01(const Config &c) : cfg(c) { inputs = make_inputs(c); }

  void setup(World &w) override {
    QmailEnv::build(w, cfg);
    if (cfg.geti("clock", 0)) w.k.clock = cfg.geti("clock", 0);   // e.g. the last second of a day whose number has one digit
    int which = w.ex->choose_n((int) inputs.size(), BK_FREE);
    in = &inputs[which];
    std::map<int, int> fds; fds[0] = QmailEnv::preloaded_pipe(w, in->msg); fds[1] = QmailEnv::preloaded_pipe(w, in->env); fds[2] = QmailEnv::nullfd(w);
    qpid = w.spawn("/var/qmail/bin/qmail-queue", {"qmail-queue"}, fds, in->uid, GID_QMAIL, "/");
    std::string recs; exp_exit = ref_envelope(in->env, recs);
    if (!cfg.get("extra", "").empty() && exp_exit == 0) { size_t z = recs.find('\0'); if (z != std::string::npos) recs.insert(z + 1, "T" + cfg.get("extra", "") + std::string(1, '\0')); }   // a tree compiled with QUEUE_EXTRA (FAQ 8.2): one more recipient record after the sender
    exp_mess = QmailEnv::received_line_at(qpid, in->uid, w.k.clock) + in->msg; exp_mess_tick = QmailEnv::received_line_at(qpid, in->uid, w.k.clock + 1) + in->msg;
    exp_env = "u" + std::to_string(in->uid) + '\0' + "p" + std::to_string(qpid) + '\0' + recs;
    w.counters["inputs_started"]++;
  }

  void alternatives(World &w, Proc &p, const Req &r, std::vector<Alt> &a) override {
    if (r.op == VK_TIME && cfg.geti("clock", 0) && !ticked && w.ex->bound[BK_ENV] > 0) { a.push_back({BK_ENV, ALT_TICK, 1}); return; }
    if (World::intrinsic_local(r.op) && r.op != VK_FSTAT) return;
    if (r.op == VK_EXIT) { a.push_back({BK_CRASH, ALT_MACHINE_CRASH, 0}); return; }
    a.push_back({BK_CRASH, ALT_KILL, 0});
    if (!signalled) a.push_back({BK_ENV, ALT_SIGNAL, SIGALRM});   // the program's own 24-hour timer (or anyone's SIGALRM) may fire before any call
    // any other signal the program has chosen to *catch* may arrive before any call as well (one it does not catch ends it: that is ALT_KILL above)
    if (!signalled) for (int sg : {SIGTERM, SIGHUP, SIGINT, SIGQUIT, SIGUSR1}) if (p.sig[sg].kind == 2) a.push_back({BK_ENV, ALT_SIGNAL, sg});
    a.push_back({BK_CRASH, ALT_MACHINE_CRASH, 0});
    Ofd *o = (r.op == VK_READ || r.op == VK_WRITE || r.op == VK_FSYNC || r.op == VK_FTRUNCATE || r.op == VK_FSTAT) ? w.O(p, r.a[0]) : nullptr;
    switch (r.op) {
      case VK_WRITE:
        if (o && o->kind == K_FILE) { a.push_back({BK_FAULT, ALT_FAIL, ENOSPC}); a.push_back({BK_FAULT, ALT_FAIL, EIO}); if (r.a[1] > 1) a.push_back({BK_FAULT, ALT_SHORT, (int) (r.a[1] / 2)}); }
        break;
      case VK_READ:
        a.push_back({BK_FAULT, ALT_FAIL, EIO}); a.push_back({BK_ENV, ALT_EINTR, EINTR});
        if (o && o->kind == K_PIPE_R && o->pipe->buf.size() > 1 && r.a[1] > 1) { a.push_back({BK_ENV, ALT_SHORT, 1}); size_t h = std::min<size_t>(o->pipe->buf.size(), r.a[1]) / 2; if (h > 1) a.push_back({BK_ENV, ALT_SHORT, (int) h}); }
        break;
      case VK_FSYNC: a.push_back({BK_FAULT, ALT_FAIL, EIO}); break;
      case VK_OPEN: a.push_back({BK_FAULT, ALT_FAIL, ENOSPC}); a.push_back({BK_FAULT, ALT_FAIL, EIO}); a.push_back({BK_FAULT, ALT_FAIL, EEXIST}); break;
      case VK_LINK: a.push_back({BK_FAULT, ALT_FAIL, ENOSPC}); a.push_back({BK_FAULT, ALT_FAIL, EIO}); a.push_back({BK_FAULT, ALT_FAIL, EEXIST}); break;
      case VK_UNLINK: a.push_back({BK_FAULT, ALT_FAIL, EIO}); break;
      case VK_FSTAT: a.push_back({BK_FAULT, ALT_FAIL, EIO}); break;
      case VK_FTRUNCATE: a.push_back({BK_FAULT, ALT_FAIL, EIO}); break;
      default: break;
    }
  }

  // the all-or-nothing invariant on the current (or post-crash) file tree
  void check_tree(World &w, const char *when, bool at_rest) {
    Kernel &k = w.k;
    std::set<std::string> nums;
    for (auto &n : k.listdir("/var/qmail/queue/todo")) nums.insert(n);
    for (auto &n : k.listdir("/var/qmail/queue/intd")) nums.insert(n);
    for (int d = 0; d < SPLIT; d++) for (auto &n : k.listdir("/var/qmail/queue/mess/" + std::to_string(d))) nums.insert(n);
    for (auto &n : nums) {
      long num = atol(n.c_str());
      Inode *m = k.file(QmailEnv::messpath(num)), *i = k.file(QmailEnv::qpath("intd", num, false)), *t = k.file(QmailEnv::qpath("todo", num, false));
      std::string key = "queue-state:" + in->name;
      if (t) {
        w.counters["states_committed"]++;
        if (!m || !i) { w.violation(key, std::string(when) + ": todo/" + n + " is visible to the daemon but " + (!m ? "mess" : "intd") + " file is missing"); return; }
        if (m->ino != num) { w.violation(key, std::string(when) + ": mess file " + n + " has inode " + std::to_string(m->ino)); return; }
        if (m->data != exp_mess && !(ticked && m->data == exp_mess_tick)) { w.violation(key, std::string(when) + ": message scheduled for delivery is not the complete message: " + std::to_string(m->data.size()) + " bytes, expected " + std::to_string(exp_mess.size()) + " [" + esc(m->data, 60) + "]"); return; }
        if (t->data != exp_env) { w.violation(key, std::string(when) + ": envelope scheduled for delivery is [" + esc(t->data) + "], expected [" + esc(exp_env) + "]"); return; }
        if (m->synced != m->data || t->synced != t->data) { w.violation(key, std::string(when) + ": message is visible to the daemon (todo/" + n + ") but " + (m->synced != m->data ? "mess" : "envelope") + " data is not yet on disk (no fsync before publication)"); return; }
        if (exp_exit != 0) { w.violation(key, std::string(when) + ": malformed/incomplete envelope (documented exit " + std::to_string(exp_exit) + ") was committed to todo/"); return; }
      } else {
        if (i && !m) { w.violation(key, std::string(when) + ": intd/" + n + " exists without its mess file: a state the daemon never collects (cleanup scans mess/ only)"); return; }
        if (m && m->ino != num && at_rest) { w.violation(key, std::string(when) + ": mess/" + n + " has inode " + std::to_string(m->ino)); return; }
        if (m || i) w.counters[i ? "states_S3_leftover" : "states_S2_leftover"]++;
      }
    }
  }

  void after_step(World &w, Proc &p, const Step &st) override {
    (void) p;
    if (st.injected && st.op == VK_TIME) { ticked = true; w.counters["clock_ticks_during_run"]++; }
    if (st.sigraised) { signalled = true; w.counters["signals_delivered"]++; return; }
    if (st.op == VK_KILL) { killed = true; w.counters["process_kills"]++; check_tree(w, "after the process was killed", true); return; }
    check_tree(w, ("after " + opname(st.op) + " #" + std::to_string(w.total_steps)).c_str(), false);
    if (st.injected && st.err) w.counters["faults_injected"]++;
    if (st.injected && !st.err) w.counters["short_io_injected"]++;
  }
  void after_machine_crash(World &w) override {
    crashed = true; w.counters["machine_crashes"]++;
    check_tree(w, "after a machine crash", true);
  }
  void on_proc_exit(World &w, Proc &p) override {
    if (p.vpid != qpid || killed) return;
    if ((p.status & 127) == SIGKILL) { killed = true; return; }
    finished = true; exitcode = (p.status >> 8) & 255; if (p.status & 127) exitcode = 1000 + (p.status & 127);
    (void) w;
  }
  void at_end(World &w) override {
    Kernel &k = w.k;
    bool committed = !k.listdir("/var/qmail/queue/todo").empty();
    std::string key = "exit-status:" + in->name;
    if (finished) {
      w.counters[exitcode == 0 ? "exits_success" : "exits_failure"]++;
      if (exitcode == 0 && !committed) { w.violation(key, "qmail-queue reported success but nothing is in todo/"); return; }
      // after a signal a failure report for a fully queued message is within the statement ("either fully queued ... or not visible")
      if (exitcode != 0 && committed && !signalled) { w.violation(key, "qmail-queue exited " + std::to_string(exitcode) + " but the message was committed"); return; }
      if (exitcode >= 1000) { w.violation(key, "qmail-queue died from signal " + std::to_string(exitcode - 1000)); return; }
      if (w.counters["faults_injected"] == 0 && !signalled && exitcode != exp_exit) { w.violation(key, "exit code " + std::to_string(exitcode) + ", documented " + std::to_string(exp_exit) + " for this envelope"); return; }
      if (w.counters["faults_injected"] == 0 && exitcode == 0) {   // (also after a signal: success still promises durability)
        // success: durable means nothing of the message may still be unsynced
        for (auto &n : k.listdir("/var/qmail/queue/todo")) { Inode *t = k.file("/var/qmail/queue/todo/" + n); if (t->synced != t->data) { w.violation(key, "success reported with unsynced envelope"); return; } }
        // and the daemon was signalled: one byte in the trigger, or no reader (ENXIO) -- here no daemon runs, so nothing to check
      }
    }
    check_tree(w, "at the end", true);
    uint64_t h = fnvs(1469598103934665603ULL, in->name); h = fnv(h, &exitcode, sizeof exitcode); int c = committed; h = fnv(h, &c, sizeof c);
    std::string tree; k.dump_tree(k.lookup(k.root, "/var/qmail/queue"), "", tree, false); h = fnvs(h, tree);
    w.outcome_hash = h;
    w.description = "input " + in->name + " uid " + std::to_string(in->uid) + ": " + (crashed ? "machine crash" : killed ? "killed" : "exit " + std::to_string(exitcode)) + (committed ? ", committed" : ", not committed") + ", " + std::to_string(w.total_steps) + " calls";
  }
};

int main(int argc, char **argv) { return vk_main(argc, argv, [](const Config &c) -> Scenario * { return new C01(c); }, "c01"); }
