// C11 Local deliveries run as exactly the user the address belongs to: real qmail-newu compiles each generated
// users/assign, real qmail-lspawn (spawn.c) with the real qmail-getpw receives delivery commands one at a time;
// bin/qmail-local is a stand-in; identity, argument vector and the order of the credential calls are observed at its exec.
#include "qmailenv.hpp"
using namespace vk;

struct AssignLine { std::string text; bool wild; std::string key, user; int uid, gid; std::string home, dash, pre; bool malformed; };
static std::vector<AssignLine> line_pool() {
  auto L = [](const std::string &t, bool wild, const std::string &key, const std::string &user, int uid, int gid, const std::string &home, const std::string &dash, const std::string &pre) { return AssignLine{t, wild, key, user, uid, gid, home, dash, pre, false}; };
  std::vector<AssignLine> v;
  v.push_back(L("=joe.shmoe:joe:507:100:/home/joe:::", false, "joe.shmoe", "joe", 507, 100, "/home/joe", "", ""));
  v.push_back(L("+joe-:joe:507:100:/home/joe:-::", true, "joe-", "joe", 507, 100, "/home/joe", "-", ""));
  v.push_back(L("+joe-list-:lists:600:601:/home/lists:-:l-:", true, "joe-list-", "lists", 600, 601, "/home/lists", "-", "l-"));
  v.push_back(L("+:alias:7790:2108:/var/qmail/alias:-::", true, "", "alias", 7790, 2108, "/var/qmail/alias", "-", ""));
  v.push_back(L("=joe.shmoe:second:888:889:/home/second:::", false, "joe.shmoe", "second", 888, 889, "/home/second", "", ""));   // duplicate key: first wins
  v.push_back(L("=InfoZ:Mixed:510:511:/home/mixed:::", false, "InfoZ", "Mixed", 510, 511, "/home/mixed", "", ""));   // mixed case with the boundary letter Z
  v.push_back(L("=rooty:root:0:0:/root:::", false, "rooty", "root", 0, 0, "/root", "", ""));
  v.push_back(L("+joe=:eq:520:521:/home/eq:=:e:", true, "joe=", "eq", 520, 521, "/home/eq", "=", "e"));                            // a second break character
  v.push_back(L("+JO:big:530:531:/home/big:-:J:", true, "JO", "big", 530, 531, "/home/big", "-", "J"));                             // mixed-case wildcard
  v.push_back(L("+joe-:dup:540:541:/home/dup:-:d:", true, "joe-", "dup", 540, 541, "/home/dup", "-", "d"));                          // duplicate wildcard key
  v.push_back(L("=wrap:wrapu:4294967296:100:/home/wrap:::", false, "wrap", "wrapu", 0, 100, "/home/wrap", "", ""));   // a uid that is 0 modulo 2^32: whatever it is taken for, the delivery must not run as root
  AssignLine bad{"=broken:nocolons", false, "", "", 0, 0, "", "", "", true}; v.push_back(bad);
  return v;
}
static std::string lower(std::string s) { for (auto &c : s) c = tolower((unsigned char) c); return s; }

struct Expect { bool exec = false; std::string user, home, dash, ext; int uid = 0, gid = 0; char report = 'K'; };

struct C11 : Scenario {
  const Config &cfg; std::vector<AssignLine> table; bool malformed = false; bool have_cdb = false; std::string tabname;
  std::shared_ptr<Pipe> in; std::shared_ptr<Sink> out; int lpid = 0, newupid = 0; size_t outpos = 0; bool lspawn_started = false; bool greeted = false;
  std::vector<std::string> locals; size_t next = 0; std::string cur; bool have_cur = false; bool eof_sent = false;
  struct Seen { std::vector<std::string> argv; int uid, gid; std::vector<int> groups; std::vector<std::string> idlog; }; std::vector<Seen> execs;
  int faults = 0; std::string fam; long cdb_cut = -1; const char *pw_opt = ""; int pw_missing = 0;
  C11(const Config &c) : cfg(c) { fam = c.get("family", "tables"); }

  void setup(World &w) override {
    QmailEnv::build(w, cfg);
    Kernel &k = w.k;
    auto U = [&](const std::string &n, int uid, int gid, const std::string &home, int homeowner) { k.passwd.push_back({n, uid, gid, home}); if (homeowner >= 0) k.mkdir_p(home, 0755, homeowner, gid); };
    U("joe", 507, 100, "/home/joe", 507); U("bob", 508, 100, "/home/bob", 0 /* home not owned by bob */); U("nohome", 509, 100, "/home/nohome", -1);
    U("toor", 0, 0, "/toor", 0); U("mixed", 510, 511, "/home/mixed", 510); U("n" + std::string(30, 'a'), 600, 601, "/home/t31", 600); U("m" + std::string(31, 'b'), 602, 603, "/home/t32", 602); U("k" + std::string(29, 'c'), 604, 605, "/home/t30", 604);
    U("joe-sub", 610, 611, "/home/joesub", 610); U("zaz", 620, 621, "/home/zaz", 620);
    k.put_file(QmailEnv::messpath(123), "Subject: x\n\nbody\n", 0644, UID_QMAILQ, GID_QMAIL);
    w.exectab["/var/qmail/bin/qmail-local"] = "@qmail-local";
    if (fam == "pw2u") {
      // the table generator: the real qmail-pw2u with each option on a password file; an account may only get a table entry if it is not root and
      // (unless -H) its home directory exists and is its own -- whatever else the options change
      static const char *optv[] = {"", "-o", "-h", "-H", "-u", "-C", "-/", "-hu", "-c+"}; pw_opt = optv[w.ex->choose_n(9, BK_FREE)]; pw_missing = w.ex->choose_n(2, BK_FREE);
      struct A { const char *n; int uid, gid; const char *home; }; static const A acc[] = {{"alias", UID_ALIAS, GID_NOFILES, "/var/qmail/alias"}, {"joe", 507, 100, "/home/joe"}, {"bob", 508, 100, "/home/bob"}, {"nohome", 509, 100, "/home/nohome"}, {"toor", 0, 0, "/toor"}, {"Mixed", 510, 511, "/home/mixed"}, {"zaz", 620, 621, "/home/zaz"}, {"wrap", 0, 100, "/home/wrapx"}};
      std::string input; for (auto &a : acc) { if (std::string(a.n) == "nohome" && !pw_missing) continue; std::string uidtxt = std::string(a.n) == "wrap" ? "4294967296" : std::to_string(a.uid); input += std::string(a.n) + ":x:" + uidtxt + ":" + std::to_string(a.gid) + ":gecos:" + a.home + ":/bin/sh\n"; }
      k.mkdir_p("/home/wrapx", 0755, 0, 100);
      tabname = std::string("qmail-pw2u ") + pw_opt + (pw_missing ? " (one home directory is missing)" : "");
      std::map<int, int> fds; fds[0] = QmailEnv::preloaded_pipe(w, input); fds[1] = QmailEnv::sink(w, &out); fds[2] = QmailEnv::nullfd(w);
      std::vector<std::string> av = {"qmail-pw2u"}; if (*pw_opt) av.push_back(pw_opt);
      newupid = w.spawn("/var/qmail/bin/qmail-pw2u", av, fds, 0, 0, "/"); return;
    }
    auto pool = line_pool();
    if (fam == "tables") {
      // every subset of size <= 3 of the pool (and "no users/assign at all")
      std::vector<std::vector<int>> subs; subs.push_back({}); int n = pool.size();
      for (int a = 0; a < n; a++) { subs.push_back({a}); for (int b = a + 1; b < n; b++) { subs.push_back({a, b}); subs.push_back({b, a}); for (int c = b + 1; c < n; c++) subs.push_back({a, b, c}); } }
      int hi = w.ex->choose_n((int) ((subs.size() + 199) / 200), BK_FREE), lo = w.ex->choose_n(200, BK_FREE);
      size_t si = std::min<size_t>((size_t) hi * 200 + lo, subs.size() - 1);
      int none = (si == 0) ? w.ex->choose_n(2, BK_FREE) : 0;
      for (int i : subs[si]) { table.push_back(pool[i]); tabname += (tabname.empty() ? "" : " ; ") + pool[i].text; if (pool[i].malformed) malformed = true; }
      if (none) { tabname = "(no users/assign, no users/cdb)"; start_lspawn(w); }
      else { if (tabname.empty()) tabname = "(empty table)"; write_assign(w); run_newu(w); }
    } else {
      // failure family: a fixed table, then the compiled file is damaged / calls fail
      for (int i : {0, 1, 3}) { table.push_back(pool[i]); tabname += (tabname.empty() ? "" : " ; ") + pool[i].text; }
      write_assign(w); run_newu(w);
    }
    locals = {"joe.shmoe", "JOE.Shmoe", "joe.shmoex", "joe", "Joe", "joe-direct", "joe-list-foo", "JOE-LIST-Bar", "joe-list", "joe=x", "joex", "jo", "Johan", "bill", "", "infoz", "INFOZ", "InfoZ", "info", "rooty", "root", "toor", "toor-x",
              "bob", "bob-ext", "nohome", "mixed", "Mixed-Case", "n" + std::string(30, 'a'), "n" + std::string(30, 'a') + "-x", "N" + std::string(30, 'A'), "m" + std::string(31, 'b'), "m" + std::string(31, 'b') + "-y", "k" + std::string(29, 'c'), "k" + std::string(29, 'c') + "-z", "joe-sub", "joe-sub-x", "joe-", "-joe", "alias", "a.b-c", "zaz", "ZAZ", "Zaz-Ext", "zaZ-", "wrap", "Wrap"};
  }
  void write_assign(World &w) { std::string a; for (auto &l : table) a += l.text + "\n"; a += ".\n"; w.k.put_file("/var/qmail/users/assign", a); }
  void run_newu(World &w) { std::map<int, int> fds; fds[0] = QmailEnv::nullfd(w); fds[1] = QmailEnv::sink(w); fds[2] = QmailEnv::sink(w); newupid = w.spawn("/var/qmail/bin/qmail-newu", {"qmail-newu"}, fds, 0, 0, "/"); }
  void start_lspawn(World &w) {
    Kernel &k = w.k; lspawn_started = true; have_cdb = k.exists("/var/qmail/users/cdb");
    if (fam == "cdbcut" && have_cdb) { Inode *f = k.file("/var/qmail/users/cdb"); int n = w.ex->choose_n(std::min<int>((int) f->data.size() + 1, 240), BK_FREE); size_t len = f->data.size() > 239 ? (size_t) n * f->data.size() / 239 : (size_t) n; if (len < f->data.size()) { f->data.resize(len); cdb_cut = len; faults++; } }
    int r, wr; k.make_pipe(&r, &wr, 1 << 16); k.ofd_ref(wr); in = k.ofds[wr]->pipe;
    std::map<int, int> fds; fds[0] = r; fds[1] = QmailEnv::sink(w, &out); fds[2] = QmailEnv::nullfd(w);
    lpid = w.spawn("/var/qmail/bin/qmail-lspawn", {"qmail-lspawn", "./Mailbox"}, fds, 0, 0, "/");
  }

  // ---- reference: qmail-users(5), then qmail-getpw(8) ----
  Expect expect(World &w, const std::string &local) {
    Expect e; Kernel &k = w.k;
    if (local.empty()) { e.exec = false; e.report = 'K'; return e; }   // "<>": nothing to deliver (spawn exits 0)
    std::string lo = lower(local);
    if (have_cdb) {
      for (auto &l : table) if (!l.wild && lower(l.key) == lo) { e.exec = true; e.user = l.user; e.uid = l.uid; e.gid = l.gid; e.home = l.home; e.dash = l.dash; e.ext = l.pre; goto got; }
      { const AssignLine *best = nullptr; for (auto &l : table) if (l.wild && lo.compare(0, l.key.size(), lower(l.key)) == 0 && (!best || l.key.size() > best->key.size())) best = &l;
        if (best) { e.exec = true; e.user = best->user; e.uid = best->uid; e.gid = best->gid; e.home = best->home; e.dash = best->dash; e.ext = best->pre + local.substr(best->key.size()); goto got; } }
    }
    { // password file: longest user-break-extension match; account must be non-root and own its existing home
      for (long kx = (long) local.size(); kx >= 0; kx--) {
        if (!(kx == (long) local.size() || local[kx] == '-')) continue;
        if (kx >= 32) continue;
        const Passwd *pw = k.pw(lower(local.substr(0, kx))); if (!pw || pw->uid == 0) continue;
        Inode *h = k.file(pw->dir); if (!h || h->uid != pw->uid) continue;
        e.exec = true; e.user = pw->name; e.uid = pw->uid; e.gid = pw->gid; e.home = pw->dir; e.dash = kx < (long) local.size() ? "-" : ""; e.ext = kx < (long) local.size() ? local.substr(kx + 1) : ""; goto got;
      }
      const Passwd *al = k.pw("alias"); e.exec = true; e.user = "alias"; e.uid = al->uid; e.gid = al->gid; e.home = al->dir; e.dash = "-"; e.ext = local;
    }
   got:
    if (e.exec && e.uid == 0) { e.exec = false; e.report = 'Z'; }   // never as root
    return e;
  }

  bool verify(World &w) {
    if (!have_cur) return true;
    std::string got = out->data.substr(outpos); outpos = out->data.size();
    Expect e = expect(w, cur);
    std::string key = "C11:" + cur + ":table=" + tabname;
    w.counters["lookups_checked"]++;
    // exactly one report: delnum, letter, text, NUL
    if (got.size() < 3 || (unsigned char) got[0] != 7 || got.back() != '\0' || got.find('\0') != got.size() - 1) { w.soft_violation(key, "local part [" + cur + "], table {" + tabname + "}: report is [" + esc(got) + "], expected exactly one report for delivery 7"); execs.clear(); return true; }
    char letter = got[1];
    if (faults) {   // damaged database / failing call: the delivery must be deferred, or proceed with exactly the right identity; never bounce, never another identity
      if (letter == 'D') w.soft_violation(key + ":fault", "local part [" + cur + "] with a database/lookup error: delivery bounced (" + esc(got.substr(1)) + "); documented: deferred");
      if (!execs.empty() && !(e.exec && match_exec(e, execs[0], cur))) w.soft_violation(key + ":fault", "local part [" + cur + "] with a database/lookup error: qmail-local was started with a wrong identity " + describe(execs[0]));
      w.counters[letter == 'Z' ? "deferred_on_error" : "delivered_despite_error"]++; execs.clear(); return true;
    }
    if (e.exec) {
      if (execs.size() != 1) { w.soft_violation(key, "local part [" + cur + "], table {" + tabname + "}: qmail-local was started " + std::to_string(execs.size()) + " times (report " + esc(got.substr(1)) + "); documented: once as " + e.user); execs.clear(); return true; }
      if (!match_exec(e, execs[0], cur)) { w.soft_violation(key, "local part [" + cur + "], table {" + tabname + "}: qmail-local started as " + describe(execs[0]) + "; the assignment rules give user=" + e.user + " uid=" + std::to_string(e.uid) + " gid=" + std::to_string(e.gid) + " home=" + e.home + " dash=[" + e.dash + "] ext=[" + e.ext + "]"); execs.clear(); return true; }
      if (letter != 'K') w.soft_violation(key, "stand-in qmail-local exited 0 but the report is " + esc(got.substr(1)));
      w.counters["deliveries_as_user"]++;
    } else {
      if (!execs.empty()) { w.soft_violation(key, "local part [" + cur + "], table {" + tabname + "}: qmail-local must not be started (" + (cur.empty() ? "empty address" : "uid 0") + ") but was: " + describe(execs[0])); execs.clear(); return true; }
      if (letter != e.report) w.soft_violation(key, "local part [" + cur + "]: report letter " + std::string(1, letter) + " (" + esc(got.substr(2)) + "), expected " + std::string(1, e.report));
      w.counters["deliveries_refused"]++;
    }
    execs.clear();
    return true;
  }
  static std::string describe(const Seen &s) { std::string a; for (auto &x : s.argv) a += "[" + x + "]"; std::string g; for (int x : s.groups) g += std::to_string(x) + ","; std::string l; for (auto &x : s.idlog) l += x + " "; return "uid=" + std::to_string(s.uid) + " gid=" + std::to_string(s.gid) + " groups={" + g + "} calls: " + l + "argv=" + a; }
  bool match_exec(const Expect &e, const Seen &s, const std::string &local) {
    std::vector<std::string> want = {"bin/qmail-local", "--", e.user, e.home, local, e.dash, e.ext, "host.example", "sender@src.example", "./Mailbox"};
    if (s.argv != want || s.uid != e.uid || s.gid != e.gid) return false;
    if (s.groups.size() != 1 || s.groups[0] != e.gid) return false;
    // supplementary groups, then gid, then uid -- in that order, all before the exec
    std::vector<std::string> wl = {"setgroups(" + std::to_string(e.gid) + ")", "setgid(" + std::to_string(e.gid) + ")", "setuid(" + std::to_string(e.uid) + ")"};
    return s.idlog == wl;
  }

  bool on_quiescent(World &w) override {
    if (fam == "pw2u") return false;
    if (!lspawn_started) {
      Proc *np = nullptr; for (auto &pp : w.procs) if (pp && pp->vpid == newupid) np = pp.get();
      int code = np ? np->status : -1;
      if (malformed) { if (code == 0 || w.k.exists("/var/qmail/users/cdb")) { w.violation("C11:newu-accepts-malformed", "qmail-newu accepted a malformed users/assign (exit " + std::to_string(code) + ") {" + tabname + "}"); return false; } w.counters["malformed_tables_refused"]++; }
      else if (code != 0 && !faults) { w.violation("C11:newu-failed", "qmail-newu failed (status " + std::to_string(code) + ") on a well-formed table {" + tabname + "}"); return false; }
      start_lspawn(w); return true;
    }
    if (!greeted) { if (out->data.size() != 1) { w.violation("C11:lspawn-greeting", "qmail-lspawn did not announce its concurrency byte: [" + esc(out->data) + "]"); return false; } greeted = true; outpos = 1; }
    else verify(w);
    have_cur = false;
    if (eof_sent) return false;
    if (next >= locals.size() || (fam != "tables" && next >= 8) || (fam == "update" && next >= 2)) { in->writers = 0; eof_sent = true; return true; }
    if (fam == "update") { run_newu(w); w.counters["table_rebuilt_during_lookup"]++; }   // the administrator runs qmail-newu again (same table) while this delivery is looked up: old or new file, never none
    cur = locals[next++]; have_cur = true;
    std::string c; c.push_back((char) 7); c += "8/123"; c.push_back('\0'); c += "sender@src.example"; c.push_back('\0'); c += cur + "@host.example"; c.push_back('\0');
    in->buf += c;
    return true;
  }
  void alternatives(World &w, Proc &p, const Req &r, std::vector<Alt> &a) override {
    if (fam != "faults" || w.ex->bound[BK_FAULT] <= 0 || !lspawn_started) return;
    if (p.name.find("qmail-lspawn") == std::string::npos && p.name.find("qmail-getpw") == std::string::npos) return;
    switch (r.op) {
      case VK_READ: { Ofd *o = w.O(p, r.a[0]); if (o && o->kind == K_FILE) a.push_back({BK_FAULT, ALT_FAIL, EIO}); break; }
      case VK_LSEEK: a.push_back({BK_FAULT, ALT_FAIL, EIO}); break;
      case VK_OPEN: if (std::string(r.data.c_str()) == "users/cdb") a.push_back({BK_FAULT, ALT_FAIL, EIO}); break;
      case VK_FORK: a.push_back({BK_FAULT, ALT_FAIL, EAGAIN}); break;
      case VK_PIPE: a.push_back({BK_FAULT, ALT_FAIL, EMFILE}); break;
      case VK_SETGROUPS: a.push_back({BK_FAULT, ALT_FAIL, EPERM}); a.push_back({BK_FAULT, ALT_FAIL, EINVAL}); break;
      case VK_SETGID: case VK_SETUID: a.push_back({BK_FAULT, ALT_FAIL, EPERM}); break;
      case VK_STAT: a.push_back({BK_FAULT, ALT_FAIL, EIO}); break;
      default: break;
    }
  }
  void after_step(World &w, Proc &p, const Step &st) override {
    (void) w;
    if (st.injected && st.err) faults++;
    if (st.op == VK_EXEC && st.ret == 0 && st.path == "bin/qmail-local") { Seen s; s.argv = p.argv; s.uid = p.uid; s.gid = p.gid; s.groups = p.groups; s.idlog = p.idlog; execs.push_back(s); }
    if (st.op == VK_FORK && st.ret >= 0) { for (auto &c : w.procs) if (c && c->vpid == (int) st.a[0]) c->idlog.clear(); }
  }
  std::string script(World &, Proc &) override { std::string a; int v = VKA_EXIT; a.append((char *) &v, 4); v = 0; a.append((char *) &v, 4); return a; }
  void end_pw2u(World &w) {
    Proc *p = nullptr; for (auto &pp : w.procs) if (pp && pp->vpid == newupid) p = pp.get();
    std::string o = pw_opt; bool H = o.find('H') != std::string::npos, h = o.find('h') != std::string::npos, u = o.find('u') != std::string::npos; std::string key = "C11:" + tabname;
    int code = p ? p->status : -1; w.counters["pw2u_runs"]++;
    if (h && !H && pw_missing) { if (code != (111 << 8)) w.soft_violation(key, tabname + ": a home directory does not exist and -h was given; documented: stop with an error, got status " + std::to_string(code)); w.outcome_hash = fnvs(5, tabname); w.description = tabname; return; }
    if (code != 0) { w.soft_violation(key, tabname + ": exit status " + std::to_string(code)); return; }
    std::set<std::string> got, want; size_t i = 0; const std::string &d = out->data;
    while (i < d.size()) { size_t e = d.find('\n', i); if (e == std::string::npos) e = d.size(); std::string l = d.substr(i, e - i); i = e + 1; if (l.size() > 1 && l[0] == '=') { size_t c = l.find(':'); std::string name = l.substr(1, c - 1); got.insert(name);
        // the entry's identity fields must be the account's own
        std::vector<std::string> f; size_t a = c + 1; while (f.size() < 4) { size_t b = l.find(':', a); if (b == std::string::npos) break; f.push_back(l.substr(a, b - a)); a = b + 1; }
        if (f.size() == 4 && f[0] != name) w.soft_violation(key + ":" + name, tabname + ": entry for " + name + " names user " + f[0]); } }
    struct A { const char *n; unsigned long uid; const char *home; bool exists; unsigned long owner; }; A acc[] = {{"alias", UID_ALIAS, "/var/qmail/alias", true, UID_ALIAS}, {"joe", 507, "/home/joe", true, 507}, {"bob", 508, "/home/bob", true, 0}, {"nohome", 509, "/home/nohome", false, 0}, {"toor", 0, "/toor", true, 0}, {"Mixed", 510, "/home/mixed", true, 510}, {"zaz", 620, "/home/zaz", true, 620}, {"wrap", 4294967296UL, "/home/wrapx", true, 0}};
    for (auto &a : acc) { if (std::string(a.n) == "nohome" && !pw_missing) continue; if (!a.uid) continue; bool upper = false; for (const char *c = a.n; *c; c++) if (*c >= 'A' && *c <= 'Z') upper = true; if (upper && !u) continue;
      if (!H) { if (!a.exists) continue; if (a.owner != a.uid) continue; } want.insert(a.n); }
    for (auto &n : got) if (!want.count(n)) w.soft_violation(key + ":" + n, tabname + ": account " + n + " got a table entry; documented: skipped (root, upper case without -u, or a home directory that is missing or not its own without -H)");
    for (auto &n : want) if (!got.count(n)) w.soft_violation(key + ":" + n, tabname + ": account " + n + " got no table entry");
    w.counters["pw2u_accounts_checked"] += want.size(); w.outcome_hash = fnvs(5, tabname + d); w.description = tabname + " -> " + std::to_string(got.size()) + " accounts";
  }
  void at_end(World &w) override {
    if (fam == "pw2u") { end_pw2u(w); return; }
    Proc *p = nullptr; for (auto &pp : w.procs) if (pp && pp->vpid == lpid) p = pp.get();
    if (lspawn_started && (!p || p->st != P_ZOMBIE || p->status != 0)) w.soft_violation("C11:lspawn-exit", "qmail-lspawn did not exit 0 at end of input");
    w.outcome_hash = fnvs(3, tabname) ^ (uint64_t) (cdb_cut + 1) ^ w.trace_hash; w.description = "table {" + tabname + "}" + (cdb_cut >= 0 ? " cdb cut at " + std::to_string(cdb_cut) : "") + ", " + std::to_string(next) + " local parts";
    w.counters["tables"]++;
  }
};
int main(int argc, char **argv) { return vk_main(argc, argv, [](const Config &c) -> Scenario * { return new C11(c); }, "c11"); }
