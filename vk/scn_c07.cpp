// C07 Network daemons acknowledge a message iff exactly it was queued: real qmail-smtpd / qmail-qmtpd / qmail-qmqpd with the
// real qmail.c (fork/exec of the queue program) under the virtual kernel.  The queue program is a stand-in that records both
// streams and exits with a scripted status (or, in one family, the real qmail-queue on the virtual queue).
#include "qmailenv.hpp"
using namespace vk;

static bool safech(unsigned char c) { return isalnum(c) || strchr(".@%+/=:-[]", c) != nullptr; }
static std::string ns(const std::string &s) { return std::to_string(s.size()) + ":" + s + ","; }

struct Case { std::string name, daemon, input; std::map<std::string, std::string> env; std::string sender; std::vector<std::string> rcpts; std::string body, body2; bool has_body2 = false; std::string morercpt; bool has_morercpt = false; bool partial_ok = false; bool framing_check = true; std::vector<int> want_codes; bool wellformed = true; int qstatus = 0; std::string qtext; bool qcrash = false;
              std::vector<std::string> bodies; std::vector<int> expect_multi; /* per message: 0 ack, 5 permanent */ int expect_class = 0; /* 0 success, 4 temporary, 5 permanent, -1 protocol violation (no acknowledgement at all) */ int databytes = 0; bool realqueue = false; bool cut = false; std::string databytes_text; bool databytes_env = false; /* literal limit */ std::string rcpthosts; bool stall = false; bool qearly = false; /* the queue program exits without reading its input */ bool is_session = false; std::vector<std::string> sess_envs, sess_bodies; };

static std::string smtp_session(const std::string &helo, const std::string &sender, const std::vector<std::string> &rc, const std::string &body_lf, bool quit = true) {
  std::string s = "HELO " + helo + "\r\nMAIL FROM:<" + sender + ">\r\n"; for (auto &r : rc) s += "RCPT TO:<" + r + ">\r\n";
  s += "DATA\r\n"; size_t i = 0; while (i < body_lf.size()) { size_t j = body_lf.find('\n', i); std::string l = body_lf.substr(i, j - i); if (!l.empty() && l[0] == '.') s += "."; s += l + "\r\n"; i = j + 1; }
  s += ".\r\n"; if (quit) s += "QUIT\r\n"; return s;
}
static std::string qmtp_session(const std::string &sender, const std::vector<std::string> &rc, const std::string &body_lf) { std::string r; for (auto &x : rc) r += ns(x); return ns("\n" + body_lf) + ns(sender) + ns(r); }
static std::string qmqp_session(const std::string &sender, const std::vector<std::string> &rc, const std::string &body_lf) { std::string p = ns(body_lf) + ns(sender); for (auto &x : rc) p += ns(x); return ns(p); }

static std::vector<Case> make_cases(const Config &cfg) {
  std::vector<Case> v; std::string fam = cfg.get("family", "status"); bool th = cfg.geti("thorough");
  std::string body = "Subject: t\n\nhello\n.dot line\n";
  std::vector<std::string> rc = {"r1@a.example", "r2@b.example"};
  auto base = [&](const std::string &d) { Case c; c.daemon = d; c.sender = "s@src.example"; c.rcpts = rc; c.body = body; c.env = {{"TCPREMOTEIP", "192.0.2.9"}, {"TCPREMOTEHOST", "peer.example"}, {"TCPLOCALHOST", "mx.example"}};
    c.input = d == "smtpd" ? smtp_session("peer.example", c.sender, rc, body) : d == "qmtpd" ? qmtp_session(c.sender, rc, body) : qmqp_session(c.sender, rc, body); return c; };
  for (const char *d : {"smtpd", "qmtpd", "qmqpd"}) {
    if (fam == "status" || fam == "early") {
      for (int st = 0; st < 256; st++) { Case c = base(d); c.name = std::string(d) + " queue-exit-" + std::to_string(st); c.qstatus = st; c.expect_class = st == 0 ? 0 : ((st >= 11 && st <= 40) ? 5 : 4); if (st == 115) c.expect_class = 45; if (st == 82) c.expect_class = 4; v.push_back(c); }
      for (const char *t : {"Dcustom permanent text", "Zcustom temporary text", "Dx", "Z", ""}) { Case c = base(d); c.name = std::string(d) + " queue-exit-82[" + t + "]"; c.qstatus = 82; c.qtext = t; c.expect_class = (strlen(t) > 2 && t[0] == 'D') ? 5 : 4; v.push_back(c); }
      for (int len : {254, 255, 256, 257, 1000}) { Case c = base(d); c.qstatus = 82; c.qtext = "D" + std::string(len - 1, 'x'); c.name = std::string(d) + " queue-exit-82 with " + std::to_string(len) + " bytes of text"; c.expect_class = 5; v.push_back(c); }   // the text is kept in a 256-byte buffer
      { Case c = base(d); c.name = std::string(d) + " queue-crash"; c.qcrash = true; c.expect_class = 4; v.push_back(c); }
      // a queue program (QMAILQUEUE) that makes up its mind before it has read anything: the daemon's writes then fail, the exit status still decides the class
      for (int st : {31, 11, 53, 81}) for (const char *t : {"", "Dpolicy says no"}) { if (*t && st != 31) continue; Case c = base(d); c.qearly = true; c.qstatus = *t ? 82 : st; c.qtext = t; c.name = std::string(d) + " queue program exits " + std::to_string(c.qstatus) + (*t ? " [" + std::string(t) + "]" : "") + " without reading its input";
        c.expect_class = (st >= 11 && st <= 40) ? 5 : 4; v.push_back(c); }
      // RELAYCLIENT with a non-empty suffix: every accepted recipient is queued with the suffix appended
      if (std::string(d) == "smtpd") { Case c = base(d); c.env["RELAYCLIENT"] = "@gw.example"; c.rcpts = {"r1@a.example@gw.example", "r2@b.example@gw.example"}; c.name = "smtpd RELAYCLIENT=@gw.example"; v.push_back(c); }
      if (std::string(d) == "qmtpd") { Case c = base(d); c.env["RELAYCLIENT"] = "@gw.example"; c.rcpts = {"r1@a.example@gw.example", "r2@b.example@gw.example"}; c.name = "qmtpd RELAYCLIENT=@gw.example"; v.push_back(c); }
      { Case c = base(d); c.name = std::string(d) + " real-qmail-queue"; c.realqueue = true; v.push_back(c); }
    } else if (fam == "cut") {
      Case b0 = base(d);
      for (size_t k = 0; k < b0.input.size(); k++) { Case c = b0; c.name = std::string(d) + " disconnect-after-byte-" + std::to_string(k); c.input = b0.input.substr(0, k); c.cut = true; c.expect_class = -1; if (std::string(d) == "smtpd" && c.input.find("\r\n.\r\n") != std::string::npos) c.expect_class = 0; v.push_back(c); }
    } else if (fam == "stall") {
      // the client stops sending after every byte of a complete session but keeps the connection open: the daemon's read timeout must end the
      // session; nothing may be queued or acknowledged for an incomplete message
      Case b0 = base(d); size_t step = th ? 1 : 3;
      for (size_t k = 0; k < b0.input.size(); k += step) { Case c = b0; c.name = std::string(d) + " client-silent-after-byte-" + std::to_string(k); c.input = b0.input.substr(0, k); c.cut = true; c.stall = true; c.expect_class = -1; if (std::string(d) == "smtpd" && c.input.find("\r\n.\r\n") != std::string::npos) c.expect_class = 0; v.push_back(c); }
    } else if (fam == "limits") {
      // body sizes around databytes
      for (int delta : {-1, 0, 1}) for (int viaenv : {0, 1}) { Case c = base(d); if (c.daemon == "qmqpd") continue; int lim = 40; std::string b(lim + delta - 1, 'x'); b += "\n"; c.body = b; c.databytes = viaenv ? -lim : lim; c.expect_class = delta > 0 ? 5 : 0;
        c.input = c.daemon == "smtpd" ? smtp_session("peer.example", c.sender, rc, b) : qmtp_session(c.sender, rc, b); c.name = std::string(d) + " body=databytes" + (delta < 0 ? "-1" : delta ? "+1" : "") + (viaenv ? " (DATABYTES env)" : ""); v.push_back(c);
        if (c.daemon == "qmtpd") { Case e = c; e.input = ns("\r" + std::string(lim + delta - 1, 'x') + "\r\n") + ns(c.sender) + ns(ns(rc[0]) + ns(rc[1])); e.name += " CRLF-encoding"; v.push_back(e); } }
      // over the limit, and then lines that look a little like the end mark: the refused message must still be read to its real end
      if (std::string(d) == "smtpd") for (const char *tail : {"x.\n", ".x\n", "x.x\n..\n", "x.\n.x\n\n.\rx\n", "MAIL FROM:<evil@x>\nx.\nRCPT TO:<r1@a.example>\nDATA\nsmuggled\n"}) for (int viaenv : {0, 1}) {
        Case c = base(d); int lim = 40; std::string b = std::string(lim + 5, 'x') + "\n" + tail; c.body = b; c.databytes = viaenv ? -lim : lim; c.expect_class = 5; c.input = smtp_session("peer.example", c.sender, rc, b);
        c.name = std::string("smtpd body over databytes followed by [") + esc(tail) + "]" + (viaenv ? " (DATABYTES env)" : ""); v.push_back(c); }
      // limits up to 2^32-1 (the limit is kept in an unsigned int and compared after adding 1; larger values are outside what the type can hold
      // and are not judged): a 20-byte message is below every one of them
      for (const char *lim : {"4294967295", "4294967294", "2147483647", "2147483648", "0"}) for (int viaenv : {0, 1}) { Case c = base(d); if (c.daemon == "qmqpd") continue;
        c.databytes_text = lim; c.databytes_env = viaenv; c.expect_class = 0; c.name = std::string(d) + " databytes=" + lim + (viaenv ? " (DATABYTES env)" : " (control/databytes)") + ", small message"; v.push_back(c);
        if (c.daemon == "qmtpd") { Case e = c; e.input = ns("\r" + std::string("Subject: t\r\n\r\nhello\r\n.dot line\r\n")) + ns(c.sender) + ns(ns(rc[0]) + ns(rc[1])); e.name += " CRLF-encoding"; v.push_back(e); } }
      // hop counting (smtpd): 98..101 Received / Delivered-To fields in mixed case
      for (int hops : {98, 99, 100, 101}) { Case c = base("smtpd"); if (std::string(d) != "smtpd") break; std::string b; for (int i = 0; i < hops; i++) b += (i % 3 == 0 ? "Received: x\n" : i % 3 == 1 ? "DELIVERED-TO: y\n" : "rEcEiVeD: z\n"); b += "\nbody\n"; c.body = b; c.input = smtp_session("peer.example", c.sender, rc, b); c.expect_class = hops >= 100 ? 5 : 0; c.name = "smtpd " + std::to_string(hops) + " hop fields"; v.push_back(c); }
      // address lengths
      for (size_t l : {899u, 900u, 901u, 999u, 1000u, 1002u, 1003u}) {
        std::string longr = std::string(l - 10, 'r') + "@a.example"; Case c = base(d); c.rcpts = {longr}; c.name = std::string(d) + " recipient-length-" + std::to_string(l);
        c.input = c.daemon == "smtpd" ? smtp_session("peer.example", c.sender, c.rcpts, body) : c.daemon == "qmtpd" ? qmtp_session(c.sender, c.rcpts, body) : qmqp_session(c.sender, c.rcpts, body);
        size_t lim = c.daemon == "smtpd" ? 900 : 1000;   // smtpd: address incl. NUL <= 900; qmtpd/qmqpd: < 1000
        bool ok = c.daemon == "smtpd" ? l + 1 <= lim : l < lim; c.expect_class = ok ? 0 : 5; if (!ok) c.rcpts.clear(); v.push_back(c);
        Case s2 = base(d); s2.sender = std::string(l - 12, 's') + "@src.example"; s2.name = std::string(d) + " sender-length-" + std::to_string(l);
        s2.input = s2.daemon == "smtpd" ? smtp_session("peer.example", s2.sender, rc, body) : s2.daemon == "qmtpd" ? qmtp_session(s2.sender, rc, body) : qmqp_session(s2.sender, rc, body);
        s2.expect_class = ok ? 0 : 5; v.push_back(s2);
      }
      // the envelope is handed to the queue program through a 1024-byte buffer: recipients sized so that a flush ends exactly at (or one byte
      // around) a recipient boundary, followed by a recipient the daemon must refuse; the real qmail-queue then sees end-of-file right after
      // a complete recipient and must not take that for the end of the envelope
      if (std::string(d) == "qmqpd") for (int delta : {-1, 0, 1}) for (int badkind : {0, 1}) {   /* QMQP is all-or-nothing; QMTP answers per recipient and queues the rest */
        Case c = base(d); c.realqueue = true; std::string snd = "s@src.example"; c.sender = snd;
        size_t used = 1 + snd.size() + 1;   // F sender NUL
        std::vector<std::string> good; while (used + 2 + 200 < 1024 + (size_t) delta) { std::string r = "r" + std::to_string(good.size()) + "@" + std::string(190, 'a') + ".example"; good.push_back(r); used += 1 + r.size() + 1; }
        { size_t left = 1024 + delta - used; if (left >= 12) { std::string r = std::string(left - 2 - 10, 'f') + "@a.example"; good.push_back(r); used += 1 + r.size() + 1; } }
        std::string bad = badkind == 0 ? std::string("x\0y@a.example", 13) : std::string(1001, 'b') + "@a.example";
        c.rcpts = good; std::vector<std::string> all = good; all.push_back("late@a.example"); /* its first byte pushes the full buffer to the queue program */ all.push_back(bad); all.push_back("after@a.example");
        c.input = c.daemon == "qmtpd" ? qmtp_session(snd, all, body) : qmqp_session(snd, all, body);
        c.name = std::string(d) + " envelope flush " + (delta < 0 ? "one byte before" : delta ? "one byte after" : "exactly at") + " a recipient boundary (" + std::to_string(used) + " bytes), then a recipient " + (badkind ? "of 1011 bytes" : "containing NUL") + ", real qmail-queue";
        c.expect_class = 5; c.rcpts.clear(); c.partial_ok = c.daemon == "qmtpd"; v.push_back(c);
      }
      // NUL bytes in addresses (QMTP/QMQP), malformed framing
      if (std::string(d) != "smtpd") {
        { Case c = base(d); c.rcpts = {std::string("r\0x@a.example", 13)}; c.input = c.daemon == "qmtpd" ? qmtp_session(c.sender, c.rcpts, body) : qmqp_session(c.sender, c.rcpts, body); c.name = std::string(d) + " NUL-in-recipient"; c.expect_class = 5; c.rcpts.clear(); v.push_back(c); }
        { Case c = base(d); c.sender = std::string("s\0@x", 4); c.input = c.daemon == "qmtpd" ? qmtp_session(c.sender, rc, body) : qmqp_session(c.sender, rc, body); c.name = std::string(d) + " NUL-in-sender"; c.expect_class = 5; v.push_back(c); }
        for (const char *bad : {"x:", "12", "5:abc,", "99999999999999999999:", "0:,", "3:abc;", "-1:,", "200000001:"}) { Case c = base(d); c.input = std::string(bad) + c.input; c.name = std::string(d) + " malformed-frame[" + bad + "]"; c.expect_class = -1; c.wellformed = false; v.push_back(c); }
      }
    } else if (fam == "shortreads") {
      // every read of the daemon (network input, the queue program's error text on descriptor 6) may return fewer bytes than are there:
      // legal behaviour of a pipe, so nothing may change
      { Case c = base(d); c.name = std::string(d) + " (short reads) accepted message"; c.expect_class = 0; v.push_back(c); }
      if (std::string(d) == "smtpd") { Case c = base(d); c.rcpts = {std::string("odd\rname@a.example"), "r2@b.example"}; c.input = "HELO x\r\nMAIL FROM:<" + c.sender + ">\r\nRCPT TO:<\"odd\\\rname\"@a.example>\r\nRCPT TO:<r2@b.example>\r\nDATA\r\nSubject: t\r\n\r\nhello\r\n..dot line\r\n.\r\nQUIT\r\n"; c.name = "smtpd (short reads) recipient with a quoted CR in its local part"; c.expect_class = 0; v.push_back(c); }
      { Case c = base(d); c.name = std::string(d) + " (short reads) queue-exit-82[Dcustom permanent text]"; c.qstatus = 82; c.qtext = "Dcustom permanent text"; c.expect_class = 5; v.push_back(c); }
      { Case c = base(d); c.name = std::string(d) + " (short reads) queue-exit-82[Zcustom temporary text]"; c.qstatus = 82; c.qtext = "Zcustom temporary text"; c.expect_class = 4; v.push_back(c); }
    } else if (fam == "faults") {
      // one failing call (fork, pipe, exec, wait, read, write) or short read anywhere in the daemon or in its child before the exec
      Case c = base(d); c.name = std::string(d) + " with one failing call"; c.expect_class = 40; v.push_back(c);
      Case r = base(d); r.name = std::string(d) + " with one failing call, real qmail-queue"; r.realqueue = true; r.expect_class = 40; v.push_back(r);
    } else if (fam == "payload") {
      // C05 at program level: every DATA payload over {CR, LF, '.', 'a'} up to the length bound (followed by CRLF.CRLF) through the real
      // qmail-smtpd process; reference = RFC 5321 4.5.2 receiver (lines end at CRLF only; a bare LF refuses the session)
      if (std::string(d) != "smtpd") continue;
      int maxl = cfg.geti("maxlen", 5); const char al[] = {'\r', '\n', '.', 'a'};
      for (int n = 0; n <= maxl; n++) { std::vector<int> idx(n, 0); for (;;) {
          std::string pl; for (int i = 0; i < n; i++) pl += al[idx[i]];
          Case c = base(d); c.rcpts = {"r1@a.example"}; c.name = "smtpd payload [" + esc(pl) + "]"; c.framing_check = false;   /* the payload may contain its own terminator; the reference decoder judges this family */
          std::string stream = pl + "\r\n.\r\nQUIT\r\n"; c.input = "HELO x\r\nMAIL FROM:<" + c.sender + ">\r\nRCPT TO:<r1@a.example>\r\nDATA\r\n" + stream;
          // reference decode
          { size_t i = 0; std::string o, o2; bool amb = false; int status = -1;
            for (;;) { size_t j = i; bool barelf = false, eof = false; for (;;) { if (j >= stream.size()) { eof = true; break; } if (stream[j] == '\n') { if (j > i && stream[j - 1] == '\r') break; barelf = true; break; } j++; }
              if (eof) { status = 2; break; } if (barelf) { status = 1; break; }
              std::string l = stream.substr(i, j - 1 - i);
              if (l == ".") { status = 0; break; }
              if (!l.empty() && l[0] == '.') { if (l.size() >= 2 && l[1] == '\r') { amb = true; o2 += l; } else o2 += l.substr(1); o += l.substr(1); } else { o += l; o2 += l; }
              o += "\n"; o2 += "\n"; i = j + 1; }
            if (status == 0) { c.body = o; c.body2 = o2; c.has_body2 = amb; c.expect_class = 0; } else { c.body = ""; c.expect_class = 4; c.wellformed = false; }
            // the only end-of-data mark is the one the case appends: then exactly the message and the QUIT are answered after the 354
            if (status == 0 && i == pl.size() + 2) c.framing_check = true;
            // with a size limit (option databytes): a message whose decoded body is longer is refused permanently -- and still consumed up to its own end-of-data mark
            if (int lim = cfg.geti("databytes", 0)) { c.databytes = -lim; c.name += " DATABYTES=" + std::to_string(lim); if (status == 0) { if (o.size() > (size_t) lim && o2.size() > (size_t) lim) { c.expect_class = 5; c.body = ""; c.has_body2 = false; } else if (o.size() > (size_t) lim || o2.size() > (size_t) lim) c.expect_class = 99; /* the two readings of ". CR x" differ in length: either answer */ } } }
          v.push_back(c);
          int i = n - 1; while (i >= 0 && ++idx[i] == 4) { idx[i] = 0; i--; } if (i < 0) break; } }
    } else if (fam == "morercpt") {
      // C08: the compiled extra recipient-host list, built by the real qmail-newmrh from a source with mixed case, a wildcard, trailing
      // blanks, a comment and no final newline (and from an empty source); then one SMTP session asks for a list of recipients
      if (std::string(d) != "smtpd") continue;
      struct R { const char *addr; int with_list, with_empty; };
      static const R rs[] = {{"r@a.example", 250, 250}, {"r@zextra.example", 250, 553}, {"r@ZEXTRA.EXAMPLE", 250, 553}, {"r@x.wild.example", 250, 553}, {"r@wild.example", 553, 553}, {"r@third.example", 250, 553},
                             {"r@comment.example", 553, 553}, {"r@xzextra.example", 553, 553}, {"r@sub.zextra.example", 553, 553}, {"r@y.x.Wild.Example", 250, 553}, {"r", 250, 250}, {"r@a.example.", 553, 553}, {"r@other.example", 553, 553}};
      for (int variant = 0; variant < 2; variant++) { Case c = base(d); c.name = std::string("smtpd with morercpthosts.cdb built by qmail-newmrh from ") + (variant ? "an empty source" : "a mixed source"); c.morercpt = variant ? std::string("") : std::string("ZExtra.Example\n.Wild.Example \t\n# comment.example\n#comment.example\nthird.example");
        c.input = "HELO x\r\nMAIL FROM:<s@src.example>\r\n"; for (auto &r : rs) { c.input += std::string("RCPT TO:<") + r.addr + ">\r\n"; c.want_codes.push_back(variant ? r.with_empty : r.with_list); } c.input += "QUIT\r\n"; c.has_morercpt = true; v.push_back(c); }
    } else if (fam == "sessions") {
      // every sequence of envelope commands that ends in DATA, up to the length bound, on one connection: the reference is the RFC 5321
      // transaction state (MAIL starts a transaction and clears the recipients; RSET, HELO and a finished DATA end it); each acknowledged
      // message must be queued with exactly the sender of its own MAIL and the recipients accepted since then
      if (std::string(d) != "smtpd") continue;
      static const char *cmdtab[] = {"MAIL FROM:<s1@src.example>", "MAIL FROM:<s2@src.example>", "RCPT TO:<a@a.example>", "RCPT TO:<b@b.example>", "RCPT TO:<c@refused.example>", "RSET", "HELO again.example", "DATA"};
      int maxl = cfg.geti("maxlen", 5);
      for (int n = 1; n <= maxl; n++) { std::vector<int> idx(n, 0); idx[n - 1] = 7; for (;;) {
          Case c = base(d); c.is_session = true; c.rcpthosts = "a.example\nb.example\n"; c.input = "HELO first.example\r\n"; c.want_codes = {220, 250}; c.name = "smtpd session [";
          bool seenmail = false; std::string from; std::vector<std::string> rcp; int nmsg = 0;
          for (int i = 0; i < n; i++) { int k = idx[i]; c.input += std::string(cmdtab[k]) + "\r\n"; c.name += std::string(i ? " | " : "") + cmdtab[k];
            switch (k) {
              case 0: case 1: seenmail = true; from = k ? "s2@src.example" : "s1@src.example"; rcp.clear(); c.want_codes.push_back(250); break;
              case 2: case 3: if (!seenmail) c.want_codes.push_back(503); else { rcp.push_back(k == 2 ? "a@a.example" : "b@b.example"); c.want_codes.push_back(250); } break;
              case 4: c.want_codes.push_back(seenmail ? 553 : 503); break;
              case 5: case 6: seenmail = false; c.want_codes.push_back(250); break;
              case 7: if (!seenmail || rcp.empty()) { c.want_codes.push_back(503); break; }
                { ++nmsg; std::string b = "Subject: m" + std::to_string(nmsg) + "\n\nbody of message " + std::to_string(nmsg) + "\n"; std::string e = "F" + from + std::string(1, '\0'); for (auto &r : rcp) e += "T" + r + std::string(1, '\0'); e += std::string(1, '\0');
                  c.sess_envs.push_back(e); c.sess_bodies.push_back(b); c.input += "Subject: m" + std::to_string(nmsg) + "\r\n\r\nbody of message " + std::to_string(nmsg) + "\r\n.\r\n"; c.want_codes.push_back(354); c.want_codes.push_back(250); seenmail = false; }
                break;
            } }
          c.input += "QUIT\r\n"; c.want_codes.push_back(221); c.name += "]"; v.push_back(c);
          int i = n - 2; while (i >= 0 && ++idx[i] == 8) { idx[i] = 0; i--; } if (i < 0) break; } }
    } else if (fam == "multi") {
      // several messages on one QMTP connection with a size limit: the limit applies to each message separately
      if (std::string(d) != "qmtpd") continue;
      int lim = 50; auto B = [](int n) { return std::string(n - 1, 'x') + "\n"; };
      struct { const char *nm; std::vector<int> sizes; std::vector<int> crlf; } sets[] = { {"over,small", {80, 10}, {0, 0}}, {"30,30", {30, 30}, {0, 0}}, {"30,30 CRLF", {30, 30}, {1, 1}}, {"over CRLF,over CRLF,small", {80, 200, 10}, {1, 1, 1}}, {"small,over,small", {10, 51, 50}, {0, 1, 0}}, {"50,50,50", {50, 50, 50}, {1, 0, 1}} };
      for (auto &st : sets) for (int viaenv : {0, 1}) { Case c = base(d); c.name = std::string("qmtpd multi [") + st.nm + "]" + (viaenv ? " (DATABYTES env)" : ""); c.databytes = viaenv ? -lim : lim; c.input.clear();
        for (size_t i = 0; i < st.sizes.size(); i++) { std::string b = B(st.sizes[i]); c.bodies.push_back(b); c.expect_multi.push_back(st.sizes[i] > lim ? 5 : 0); std::string enc; if (st.crlf[i]) { enc = "\r"; for (char ch : b) { if (ch == '\n') enc += "\r\n"; else enc += ch; } } else enc = "\n" + b; c.input += ns(enc) + ns(c.sender) + ns(ns(rc[0]) + ns(rc[1])); }
        v.push_back(c); }
    } else if (fam == "peer") {
      // hostile strings in HELO / TCPREMOTEHOST / TCPREMOTEINFO / TCPREMOTEIP: the Received field must stay well-formed
      const char alpha[] = {'\n', '(', ')', ';', '\x80', ' ', '\\', 'a'}; int maxl = th ? 4 : 3;
      std::vector<std::string> strs; for (int n = 1; n <= maxl; n++) { std::vector<int> idx(n, 0); for (;;) { std::string s; for (int i = 0; i < n; i++) s += alpha[idx[i]]; strs.push_back(s); int i = n - 1; while (i >= 0 && ++idx[i] == 8) { idx[i] = 0; i--; } if (i < 0) break; } }
      for (auto &s : strs) for (const char *field : {"TCPREMOTEHOST", "TCPREMOTEINFO", "TCPREMOTEIP", "TCPLOCALHOST", "HELO"}) {
        if (std::string(field) == "HELO" && (std::string(d) != "smtpd" || s.find('\n') != std::string::npos)) continue;
        if (!th && std::string(d) != "smtpd" && std::string(field) != "TCPREMOTEINFO") continue;
        Case c = base(d); if (std::string(field) == "HELO") c.input = smtp_session(s, c.sender, rc, body); else c.env[field] = s; c.name = std::string(d) + " " + field + "=[" + esc(s) + "]"; v.push_back(c); }
    }
  }
  if (fam == "early") { std::vector<Case> k; for (auto &c : v) if (c.qearly) k.push_back(c); v = k; }   // only the queue programs that exit before reading, explored under every interleaving within the preemption bound
  return v;
}

struct C07 : Scenario {
  const Config &cfg; std::vector<Case> cases; const Case *c = nullptr; int dpid = 0; std::shared_ptr<Sink> out; std::string qmsg, qenv; bool q_started = false, q_envelope_complete = false; int q_exit = -1; int q_runs = 0; int phase = 0;
  std::vector<std::string> runmsg, runenv; std::vector<int> runexit;
  C07(const Config &cf) : cfg(cf) { cases = make_cases(cf); }
  void setup(World &w) override {
    QmailEnv::build(w, cfg);
    Kernel &k = w.k;
    int hi = w.ex->choose_n((int) ((cases.size() + 239) / 240), BK_FREE), lo = w.ex->choose_n(std::min<int>(240, (int) cases.size()), BK_FREE);
    c = &cases[std::min<size_t>((size_t) hi * 240 + lo, cases.size() - 1)];
    if (!c->realqueue) w.exectab["/var/qmail/bin/qmail-queue"] = "@queue";
    if (!c->rcpthosts.empty()) k.put_file("/var/qmail/control/rcpthosts", c->rcpthosts);
    if (!c->databytes_text.empty() && !c->databytes_env) k.put_file("/var/qmail/control/databytes", c->databytes_text + "\n");
    if (c->databytes > 0) k.put_file("/var/qmail/control/databytes", std::to_string(c->databytes) + "\n");
    std::vector<std::string> env; for (auto &e : c->env) env.push_back(e.first + "=" + e.second); if (c->databytes < 0) env.push_back("DATABYTES=" + std::to_string(-c->databytes)); if (!c->databytes_text.empty() && c->databytes_env) env.push_back("DATABYTES=" + c->databytes_text);
    if (c->has_morercpt) {
      k.put_file("/var/qmail/control/rcpthosts", "a.example\n"); k.put_file("/var/qmail/control/morercpthosts", c->morercpt);
      std::map<int, int> nf; nf[0] = QmailEnv::nullfd(w); nf[1] = QmailEnv::nullfd(w); nf[2] = QmailEnv::nullfd(w);
      newmrhpid = w.spawn("/var/qmail/bin/qmail-newmrh", {"qmail-newmrh"}, nf, 0, 0, "/"); saved_env = env; return;   // the daemon starts when the list is compiled
    }
    start_daemon(w, env);
  }
  int newmrhpid = 0; std::vector<std::string> saved_env; std::shared_ptr<Pipe> stallpipe; int stall_ticks = 0;
  void start_daemon(World &w, const std::vector<std::string> &env) {
    std::map<int, int> fds; fds[1] = QmailEnv::sink(w, &out); fds[2] = QmailEnv::nullfd(w);
    if (c->stall) { int r, wr; w.k.make_pipe(&r, &wr, c->input.size() + 4096); w.k.ofd_ref(wr); stallpipe = w.k.ofds[wr]->pipe; stallpipe->buf = c->input; fds[0] = r; }
    else fds[0] = QmailEnv::preloaded_pipe(w, c->input);
    dpid = w.spawn("/var/qmail/bin/qmail-" + c->daemon, {"qmail-" + c->daemon}, fds, UID_QMAILD, GID_NOFILES, "/", env);
  }
  bool on_quiescent(World &w) override {
    if (c->stall && stallpipe) {   // everybody waits: let time pass until the daemon's timeout; if it still waits after two hours, hang up
      if (stall_ticks++ < 2) { w.advance_clock(w.k.clock + 3600); w.counters["timeouts_waited"]++; return true; }
      Proc *dp = nullptr; for (auto &pp : w.procs) if (pp && pp->vpid == dpid) dp = pp.get();
      if (dp && dp->st == P_PENDING) w.soft_violation("C07:no-read-timeout:" + c->daemon, c->name + ": the daemon is still waiting for the silent client after two hours");
      stallpipe->writers = 0; stallpipe.reset(); return true; }
    if (newmrhpid && !dpid) { Proc *np = nullptr; for (auto &pp : w.procs) if (pp && pp->vpid == newmrhpid) np = pp.get();
      if (np && (np->st == P_ZOMBIE || np->st == P_REAPED)) { if (np->status != 0 || !w.k.exists("/var/qmail/control/morercpthosts.cdb")) { w.violation("C08:qmail-newmrh-failed", "qmail-newmrh did not produce control/morercpthosts.cdb (status " + std::to_string(np->status) + ")"); return false; } start_daemon(w, saved_env); return true; } }
    return false;
  }
  int faults_seen = 0;
  void alternatives(World &w, Proc &p, const Req &r, std::vector<Alt> &a) override {
    if ((cfg.get("family", "status") == "shortreads" || cfg.get("family", "status") == "sessions") && w.ex->bound[BK_FAULT] > 0 && p.vpid == dpid && r.op == VK_READ) { Ofd *o = w.O(p, r.a[0]); if (o && o->kind == K_PIPE_R && o->pipe->buf.size() > 1 && r.a[1] > 1) {
        size_t avail = std::min<size_t>(o->pipe->buf.size(), (size_t) r.a[1]);
        if (r.a[0] == 0 && avail <= 240) { for (size_t n = 1; n < avail; n++) a.push_back({BK_FAULT, ALT_SHORT, (int) n}); }   // network input: the data arrives in two pieces, cut at every position
        else { a.push_back({BK_FAULT, ALT_SHORT, 1}); if (avail > 3) a.push_back({BK_FAULT, ALT_SHORT, (int) avail - 1}); } } return; }
    if (cfg.get("family", "status") != "faults" || w.ex->bound[BK_FAULT] <= 0) return;
    bool daemon_side = p.vpid == dpid || (p.ppid == dpid && p.standin.empty() && p.name.find("qmail-queue") == std::string::npos);   // the daemon, or its child before the exec
    if (!daemon_side) return;
    switch (r.op) {
      case VK_FORK: a.push_back({BK_FAULT, ALT_FAIL, EAGAIN}); break;
      case VK_PIPE: a.push_back({BK_FAULT, ALT_FAIL, EMFILE}); break;
      case VK_EXEC: a.push_back({BK_FAULT, ALT_FAIL, ENOENT}); a.push_back({BK_FAULT, ALT_FAIL, ENOMEM}); break;
      /* waitpid() is not failed: it cannot fail for an existing child, and after a commit the daemon could then not know the outcome */
      case VK_READ: { a.push_back({BK_FAULT, ALT_FAIL, EIO}); Ofd *o = w.O(p, r.a[0]); if (o && o->kind == K_PIPE_R && o->pipe->buf.size() > 1 && r.a[1] > 1) a.push_back({BK_FAULT, ALT_SHORT, 1}); break; }
      case VK_WRITE: { Ofd *o = w.O(p, r.a[0]); if (o && o->kind == K_PIPE_W) { a.push_back({BK_FAULT, ALT_FAIL, EPIPE}); a.push_back({BK_FAULT, ALT_FAIL, EIO}); if (r.a[1] > 1) a.push_back({BK_FAULT, ALT_SHORT, 1}); } break; }
      case VK_DUP2: a.push_back({BK_FAULT, ALT_FAIL, EMFILE}); break;
      case VK_CHDIR: a.push_back({BK_FAULT, ALT_FAIL, EIO}); break;
      default: break;
    }
  }
  static bool envelope_complete(const std::string &e) { size_t i = 0; if (e.empty() || e[0] != 'F') return false; size_t j = e.find('\0', i); if (j == std::string::npos) return false; i = j + 1; for (;;) { if (i >= e.size()) return false; if (e[i] == '\0') return i + 1 == e.size(); if (e[i] != 'T') return false; j = e.find('\0', i); if (j == std::string::npos) return false; i = j + 1; } }
  std::string script(World &, Proc &) override {
    std::string a; int v;
    if (phase == 0 && c->qearly) { q_started = true; q_runs++; q_envelope_complete = false; q_exit = c->qstatus; if (c->qstatus == 82 && !c->qtext.empty()) { v = VKA_WRITE; a.append((char *) &v, 4); v = 6; a.append((char *) &v, 4); v = (int) c->qtext.size(); a.append((char *) &v, 4); a += c->qtext; } v = VKA_EXIT; a.append((char *) &v, 4); v = q_exit; a.append((char *) &v, 4); runmsg.push_back(""); runenv.push_back(""); runexit.push_back(q_exit); return a; }
    if (phase == 0) { phase = 1; q_started = true; q_runs++; qmsg.clear(); qenv.clear(); v = VKA_READALL; a.append((char *) &v, 4); v = 0; a.append((char *) &v, 4); v = VKA_READALL; a.append((char *) &v, 4); v = 1; a.append((char *) &v, 4); v = VKA_ASK; a.append((char *) &v, 4); return a; }
    // second call: both streams are at EOF.  qmail-queue(8): an incomplete envelope aborts (54); otherwise the scripted outcome
    q_envelope_complete = envelope_complete(qenv);
    if (!q_envelope_complete) { q_exit = 54; }
    else if (c->qcrash) { q_exit = 1000; v = VKA_KILLSELF; a.append((char *) &v, 4); v = SIGSEGV; a.append((char *) &v, 4); }
    else { q_exit = c->qstatus; if (c->qstatus == 82 && !c->qtext.empty()) { v = VKA_WRITE; a.append((char *) &v, 4); v = 6; a.append((char *) &v, 4); v = (int) c->qtext.size(); a.append((char *) &v, 4); a += c->qtext; } }
    v = VKA_EXIT; a.append((char *) &v, 4); v = q_exit >= 1000 ? 0 : q_exit; a.append((char *) &v, 4);
    runmsg.push_back(qmsg); runenv.push_back(qenv); runexit.push_back(q_exit); phase = 0;
    return a;
  }
  void after_step(World &w, Proc &p, const Step &st) override {
    (void) w; if (st.injected) faults_seen++;
    if (!p.standin.empty() && st.op == VK_READ && st.ret > 0 && st.data) { if (st.a[0] == 0) qmsg += *st.data; else if (st.a[0] == 1) qenv += *st.data; }
  }
  // parse the Received field at the start of msg; returns length or 0 if malformed
  size_t received_ok(const std::string &m, const std::string &proto, std::string *why) {
    auto word = [&](size_t &i) { size_t s = i; while (i < m.size() && (safech((unsigned char) m[i]) || m[i] == '?')) i++; return i > s || true; };   /* '?' is what unsafe characters are replaced with */
    size_t i = 0; auto lit = [&](const char *t) { size_t l = strlen(t); if (m.compare(i, l, t) != 0) return false; i += l; return true; };
    if (!lit("Received: from ")) { *why = "does not start with 'Received: from '"; return 0; } word(i);
    if (lit(" (HELO ")) { word(i); if (!lit(")")) { *why = "HELO comment not closed by safe text"; return 0; } }
    if (!lit(" (")) { *why = "peer name contains an unsafe character: [" + esc(m.substr(0, 80)) + "]"; return 0; } word(i);
    if (!lit(")\n  by ")) { *why = "peer info/address contains an unsafe character: [" + esc(m.substr(0, 100)) + "]"; return 0; } word(i);
    if (!lit((" with " + proto + "; ").c_str())) { *why = "local name contains an unsafe character: [" + esc(m.substr(0, 120)) + "]"; return 0; }
    if (!lit(QDATE)) { *why = "date"; return 0; }
    return i;
  }
  void end_multi(World &w, const std::string &key) {
    const std::string &o = out->data; std::vector<char> verdict; size_t i = 0;   // one verdict per message: K only if every recipient got K
    std::vector<char> letters; while (i < o.size()) { size_t col = o.find(':', i); if (col == std::string::npos) break; size_t len = atol(o.substr(i, col - i).c_str()); if (col + 1 + len > o.size()) break; letters.push_back(o[col + 1]); i = col + 1 + len + 1; }
    size_t per = c->rcpts.size();
    if (letters.size() != per * c->bodies.size()) { w.soft_violation(key, c->name + ": " + std::to_string(letters.size()) + " responses for " + std::to_string(c->bodies.size()) + " messages with " + std::to_string(per) + " recipients each: [" + esc(o, 300) + "]"); return; }
    for (size_t m = 0; m < c->bodies.size(); m++) {
      bool allK = true, anyK = false; for (size_t r = 0; r < per; r++) { if (letters[m * per + r] == 'K') anyK = true; else allK = false; }
      bool committed = m < runexit.size() && runexit[m] == 0 && envelope_complete(runenv[m]);
      std::string mk = key + ":message" + std::to_string(m + 1);
      if (anyK != committed) { w.soft_violation(mk, c->name + ": message " + std::to_string(m + 1) + (anyK ? " was acknowledged but not committed" : " was committed by the queue program but refused to the client") + " (responses [" + esc(o, 300) + "])"); return; }
      if ((c->expect_multi[m] == 0) != allK) { w.soft_violation(mk, c->name + ": message " + std::to_string(m + 1) + " (" + std::to_string(c->bodies[m].size()) + " bytes, limit per message) " + (allK ? "was accepted" : "was refused") + "; documented: " + (c->expect_multi[m] ? "permanent refusal (over the limit)" : "accepted") + " (responses [" + esc(o, 300) + "])"); return; }
      if (committed) { std::string why; size_t rl = received_ok(runmsg[m], "QMTP", &why); if (!rl || runmsg[m].substr(rl) != c->bodies[m]) { w.soft_violation(mk, c->name + ": message " + std::to_string(m + 1) + " queued with different content"); return; } w.counters["commits_verified"]++; }
    }
    w.counters["multi_message_connections"]++; w.outcome_hash = fnvs(fnvs(5, c->name), o); w.description = c->name + " -> " + std::string(letters.begin(), letters.end());
  }
  void end_session(World &w) {
    const std::string &o = out->data; std::string key = "C07:" + c->name;
    std::vector<int> codes; { size_t i = 0; while (i < o.size()) { size_t e = o.find("\r\n", i); if (e == std::string::npos) break; if (e >= i + 3 && (e == i + 3 || o[i + 3] == ' ')) codes.push_back(atoi(o.substr(i, 3).c_str())); i = e + 2; } }
    w.counters["sessions"]++;
    std::string cs, ws; for (int x : codes) cs += std::to_string(x) + " "; for (int x : c->want_codes) ws += std::to_string(x) + " ";
    // the queue program's runs are the ground truth for "what was queued"
    std::vector<size_t> ok; for (size_t i = 0; i < runexit.size(); i++) if (runexit[i] == 0 && envelope_complete(runenv[i])) ok.push_back(i);
    size_t acks = 0; for (size_t i = 0; i + 1 < codes.size(); i++) if (codes[i] == 354 && codes[i + 1] / 100 == 2) acks++;
    if (acks != ok.size()) { w.soft_violation(key, c->name + ": " + std::to_string(acks) + " messages acknowledged, " + std::to_string(ok.size()) + " committed by the queue program (replies " + cs + ")"); return; }
    if (codes != c->want_codes) { w.soft_violation(key + ":replies", c->name + ": reply codes " + cs + "; the transaction rules of RFC 5321 / qmail-smtpd(8) give " + ws); return; }
    if (ok.size() != c->sess_envs.size()) { w.soft_violation(key, c->name + ": " + std::to_string(ok.size()) + " messages queued, expected " + std::to_string(c->sess_envs.size())); return; }
    for (size_t m = 0; m < ok.size(); m++) {
      if (runenv[ok[m]] != c->sess_envs[m]) { w.soft_violation(key + ":envelope", c->name + ": message " + std::to_string(m + 1) + " was acknowledged and queued with envelope [" + esc(runenv[ok[m]], 200) + "]; its transaction (the last MAIL and the recipients accepted since) is [" + esc(c->sess_envs[m], 200) + "]"); return; }
      std::string why; size_t rl = received_ok(runmsg[ok[m]], "SMTP", &why);
      if (!rl || runmsg[ok[m]].substr(rl) != c->sess_bodies[m]) { w.soft_violation(key + ":content", c->name + ": message " + std::to_string(m + 1) + " queued with different content [" + esc(runmsg[ok[m]], 200) + "]"); return; }
      w.counters["commits_verified"]++; }
    w.counters["transaction_sequences"]++; w.counters[ok.empty() ? "sessions_without_message" : "acknowledged"]++;
    w.outcome_hash = fnvs(fnvs(5, c->name), o); w.description = c->name + " -> " + cs;
  }
  void at_end(World &w) override {
    if (c->has_morercpt) {
      if (!out) { w.violation("C08:no-session", "the SMTP daemon was never started"); return; }
      std::vector<int> codes; { const std::string &oo = out->data; size_t i = 0; while (i < oo.size()) { size_t e = oo.find("\r\n", i); if (e == std::string::npos) break; if (e >= i + 4 && oo[i + 3] == ' ') codes.push_back(atoi(oo.substr(i, 3).c_str())); i = e + 2; } }
      // greeting, HELO, MAIL, then one reply per RCPT, then QUIT
      if (codes.size() != c->want_codes.size() + 4) { w.soft_violation("C08:" + c->name, c->name + ": " + std::to_string(codes.size()) + " replies for " + std::to_string(c->want_codes.size() + 4) + " commands: [" + esc(out->data, 300) + "]"); return; }
      for (size_t i = 0; i < c->want_codes.size(); i++) if (codes[3 + i] != c->want_codes[i]) { w.soft_violation("C08:" + c->name + ":rcpt" + std::to_string(i + 1), c->name + ": recipient number " + std::to_string(i + 1) + " of the session was answered " + std::to_string(codes[3 + i]) + ", the documented recipient-host rule gives " + std::to_string(c->want_codes[i]) + " (session: " + esc(c->input, 400) + ")"); return; }
      w.counters["morercpthosts_recipients_checked"] += c->want_codes.size(); w.outcome_hash = fnvs(9, out->data); w.description = c->name; return;
    }
    if (c->is_session) { end_session(w); return; }
    const std::string &o = out->data; std::string key = "C07:" + c->name;
    Proc *dp = nullptr; for (auto &pp : w.procs) if (pp && pp->vpid == dpid) dp = pp.get();
    w.counters["sessions"]++;
    // what was acknowledged?
    bool ack = false; int cls = -1;   // cls: 0 K/250, 4 temporary, 5 permanent, -1 none
    std::string proto = c->daemon == "smtpd" ? "SMTP" : c->daemon == "qmtpd" ? "QMTP" : "QMQP";
    if (c->daemon == "smtpd") {
      size_t g = o.find("354 "); if (g != std::string::npos) { size_t l = o.find("\r\n", g); std::string after = l == std::string::npos ? "" : o.substr(l + 2); if (after.size() >= 3 && after[0] == '2') { ack = true; cls = 0; }   /* any 2xx after the dot is the acknowledgement; the text is not the oracle's business */ else if (after.size() >= 3 && after[0] == '4') cls = 4; else if (after.size() >= 3 && after[0] == '5') cls = 5; }
      else { // refused before DATA (over-long address etc.): look at the RCPT/MAIL replies
        size_t i = 0; while (i < o.size()) { if (o[i] == '4' || o[i] == '5') { cls = o[i] - '0'; break; } size_t e = o.find("\r\n", i); if (e == std::string::npos) break; i = e + 2; } }   /* the first refusal decides; what follows answers the orphaned body lines */
    } else {
      // netstring responses: one per recipient (qmtpd) or one (qmqpd)
      size_t i = 0; int nk = 0, nz = 0, nd = 0, n = 0;
      while (i < o.size()) { size_t col = o.find(':', i); if (col == std::string::npos) break; size_t len = atol(o.substr(i, col - i).c_str()); if (col + 1 + len >= o.size() + 0 && col + 1 + len > o.size()) break; char t = o[col + 1]; if (t == 'K') nk++; else if (t == 'Z') nz++; else if (t == 'D') nd++; n++; i = col + 1 + len + 1; }
      if (n) { if (nk == n) { ack = true; cls = 0; } else if (nk > 0) { ack = true; cls = 0; w.counters["partial_acks"]++; } else if (nz) cls = 4; else cls = 5; }
    }
    if (c->daemon == "smtpd" && c->framing_check && !c->cut && c->wellformed && c->input.size() >= 11 && c->input.compare(c->input.size() - 11, 11, "\r\n.\r\nQUIT\r\n") == 0) {
      // once the server has said 354 the client sends the message: those bytes are data up to CRLF.CRLF whatever happens on the queue side, so
      // exactly two more replies may follow (one for the message, one for QUIT); more means message lines were executed as commands
      size_t g = o.find("\r\n354 "); if (g != std::string::npos) { size_t l = o.find("\r\n", g + 2); int n = 0; size_t i = l == std::string::npos ? o.size() : l + 2; while (i < o.size()) { size_t e = o.find("\r\n", i); if (e == std::string::npos) break; if (e >= i + 4 && o[i + 3] == ' ') n++; i = e + 2; }
        if (n != 2) { w.soft_violation(key + ":data-lines-as-commands", c->name + ": after the 354 reply the server answered " + std::to_string(n) + " more times for a message and a QUIT: message lines were taken as commands [" + esc(o, 300) + "]"); return; }
        w.counters["data_phase_framing_checked"]++; }
    }
    if (!c->bodies.empty()) { end_multi(w, key); return; }
    bool committed = false;
    if (c->realqueue) { auto t = w.k.listdir("/var/qmail/queue/todo"); committed = !t.empty(); if (committed) { long n = atol(t[0].c_str()); qmsg = w.k.file(QmailEnv::messpath(n))->data; qenv = w.k.file("/var/qmail/queue/todo/" + t[0])->data; size_t fp = qenv.find('F'); qenv = qenv.substr(fp) + std::string(1, '\0'); size_t rl = qmsg.find('\n'); qmsg = qmsg.substr(rl + 1); } }
    else committed = q_started && q_envelope_complete && q_exit == 0;
    // (1) acknowledged iff committed
    if (ack && !committed) { w.soft_violation(key, c->name + ": positive acknowledgement [" + esc(o, 200) + "] but the queue program did not commit (exit " + std::to_string(q_exit) + ", envelope " + (q_envelope_complete ? "complete" : "incomplete") + ")"); return; }
    if (!ack && committed) { w.soft_violation(key, c->name + ": the queue program committed a message but no positive acknowledgement was sent: [" + esc(o, 200) + "]"); return; }
    if (q_runs > 1) { w.soft_violation(key, c->name + ": the queue program was run " + std::to_string(q_runs) + " times in one transaction"); return; }
    // (2) what was committed is exactly the message
    if (committed) {
      std::string why; size_t rl = received_ok(qmsg, proto, &why);
      if (!rl) { w.soft_violation(key + ":received", c->name + ": the Received field of the queued message " + why); return; }
      if (qmsg.substr(rl) != c->body && !(c->has_body2 && qmsg.substr(rl) == c->body2)) { w.soft_violation(key, c->name + ": queued body differs from the transmitted message: [" + esc(qmsg.substr(rl), 100) + "] vs [" + esc(c->body, 100) + "]"); return; }
      std::string env = "F" + c->sender + std::string(1, '\0'); for (auto &r : c->rcpts) env += "T" + r + std::string(1, '\0'); env += std::string(1, '\0');
      if (qenv != env) { w.soft_violation(key, c->name + ": queued envelope [" + esc(qenv, 160) + "] differs from the acknowledged one [" + esc(env, 160) + "]"); return; }
      w.counters["commits_verified"]++;
    }
    // (3) reply class
    if (c->expect_class == 0 && !ack) { w.soft_violation(key, c->name + ": expected a positive acknowledgement, got [" + esc(o, 200) + "]"); return; }
    if (c->expect_class == 4 && cls != 4) { w.soft_violation(key, c->name + ": expected a temporary refusal, got class " + std::to_string(cls) + " [" + esc(o, 200) + "]"); return; }
    if (c->expect_class == 5 && cls != 5) { w.soft_violation(key, c->name + ": expected a permanent refusal, got class " + std::to_string(cls) + " [" + esc(o, 200) + "]"); return; }
    if (c->expect_class == 45 && cls != 4 && cls != 5) { w.soft_violation(key, c->name + ": expected a refusal, got [" + esc(o, 200) + "]"); return; }
    if (c->expect_class == 40 && !ack && cls == 5) { w.soft_violation(key + ":permanent-on-trouble", c->name + ": a failing system call (resource trouble) produced a permanent refusal [" + esc(o, 200) + "]; documented: temporary"); return; }
    if (c->expect_class == 40 && faults_seen == 0 && !ack) { w.soft_violation(key, c->name + ": no fault injected, expected a positive acknowledgement, got [" + esc(o, 200) + "]"); return; }
    if (c->expect_class == 40 && faults_seen) w.counters["runs_with_injected_fault"]++;
    if (c->expect_class == -1 && ack) { w.soft_violation(key, c->name + ": incomplete/malformed session acknowledged"); return; }
    w.counters[ack ? "acknowledged" : cls == 4 ? "refused_temporarily" : cls == 5 ? "refused_permanently" : "no_reply"]++;
    w.outcome_hash = fnvs(fnvs(5, c->name), o); w.description = c->name + " -> " + (ack ? "acknowledged" : "class " + std::to_string(cls)) + (committed ? ", committed" : "");
    (void) dp;
  }
};
int main(int argc, char **argv) { return vk_main(argc, argv, [](const Config &c) -> Scenario * { return new C07(c); }, "c07"); }
