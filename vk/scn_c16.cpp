// C16 New mail wakes the daemon: interleavings of the injector's {link todo, open/write/close trigger} with the
// daemon's {close/reopen trigger, opendir/readdir todo, select}.  Scheduling points only at those operations (all other
// calls of the three programs touch objects the other side never looks at, so they commute with every step of it).
#include "daemon.hpp"
using namespace vk;

struct C16 : DaemonScenario {
  std::string which; int trigger_ino = 0; std::vector<MsgSpec> concurrent; int todo_scans_done = 0; int links_done = 0;
  C16(const Config &c) : DaemonScenario(c) { which = c.get("scenario", "A"); clock_frozen = true; mon.insert("C16"); }
  void setup(World &w) override {
    // A: daemon start-up scan races with one injector.  B: quiescent daemon, two injectors at once.  D: quiescent daemon, one injector and a HUP.
    // C: daemon starts with older todo entries present and one injector races with the scan.
    if (which == "A" || which == "C") { concurrent = tosend; tosend.clear(); }
    if (which == "C") { auto cat = msg_catalogue(); std::vector<MsgSpec> pre; for (auto &x : cat) if (x.name == "l1b" || x.name == "r1b") pre.push_back(x); tosend = pre; inject_mode = "pre"; }
    if (which == "B" || which == "D") inject_mode = "conc";   // D: like B with one injector, and a HUP reaches the daemon at the moment the injector starts
    DaemonScenario::setup(w);
    trigger_ino = w.k.lookup(w.k.root, "/var/qmail/queue/lock/trigger");
    if (which == "A" || which == "C") { start_daemon(w); for (auto &m : concurrent) start_injector(w, m); restarts = 1; }
  }
  bool hup_sent = false;
  bool on_quiescent(World &w) override {
    if (which == "D" && !hup_sent && !tosend.empty() && injectors.empty() && alive(w, sendpid)) { hup_sent = true; Proc *sp = proc(w, sendpid); if (sp) { w.raise_sig(*sp, SIGHUP); history += " HUP"; w.counters["signal_HUP"]++; } }
    return DaemonScenario::on_quiescent(w);
  }
  bool is_trigger_fd(World &w, Proc &p, int fd) { Ofd *o = w.O(p, fd); return o && o->ino == trigger_ino; }
  bool local_op(World &w, Proc &p, const Req &r) override {
    if (p.vpid == cleanpid) return true;
    switch (r.op) {
      // once the start-up scan of todo/ is over and no injector has published yet, the daemon is "armed and idle" exactly as in
      // scenario B; its remaining start-up selects (cleanup scan of mess/) need no scheduling point until an injector links
      case VK_SELECT: return p.vpid == sendpid && (which == "A" || which == "C") && todo_scans_done > 0 && links_done == 0;
      case VK_OPEN: { std::string path = r.data.c_str(); return !(path == "lock/trigger" || path.compare(0, 5, "todo/") == 0); }
      case VK_CLOSE: case VK_WRITE: case VK_READ: return !is_trigger_fd(w, p, r.a[0]);
      case VK_OPENDIR: return std::string(r.data.c_str()) != "todo";
      case VK_READDIR: { auto it = p.dirs.find(r.a[0]); return !(it != p.dirs.end() && it->second.dir == w.k.lookup(w.k.root, "/var/qmail/queue/todo")); }
      case VK_LINK: { const char *b = r.data.c_str() + r.a[0]; return strncmp(b, "todo/", 5) != 0; }
      case VK_EXIT: return p.vpid == sendpid;
      default: return true;
    }
  }
  void after_step(World &w, Proc &p, const Step &st) override {
    { Proc *sp = proc(w, sendpid); bool scanning = false; int todo_dir = w.k.lookup(w.k.root, "/var/qmail/queue/todo"); if (sp) for (auto &d : sp->dirs) if (d.second.dir == todo_dir) scanning = true;
      if (p.vpid != sendpid && p.vpid != cleanpid) {
        if (st.op == VK_OPEN && st.path == "lock/trigger") { if (st.ret < 0 && st.err == ENXIO) w.counters["race_trigger_open_ENXIO_during_rearm"]++; }
        if (st.op == VK_WRITE && st.ino == trigger_ino && scanning) w.counters["race_trigger_pulled_during_scan"]++;
        if (st.op == VK_LINK && st.ret == 0 && st.path2.compare(0, 5, "todo/") == 0 && scanning) w.counters["race_link_during_scan"]++;
      }
      if (st.injected && st.op == VK_READDIR) w.counters["readdir_sees_late_entry"]++; }
    if (p.vpid == sendpid && st.op == VK_READDIR && st.ret == 0 && st.ino == w.k.lookup(w.k.root, "/var/qmail/queue/todo")) todo_scans_done++;
    if (st.op == VK_LINK && st.ret == 0 && st.path2.compare(0, 5, "todo/") == 0) links_done++;
    DaemonScenario::after_step(w, p, st);
  }
  void alternatives(World &w, Proc &p, const Req &r, std::vector<Alt> &a) override {
    // both POSIX-permitted readdir behaviours: entries linked after opendir may or may not be returned
    if (p.vpid == sendpid && r.op == VK_READDIR && w.ex->bound[BK_ENV] > 0) {
      auto it = p.dirs.find(r.a[0]);
      if (it != p.dirs.end() && it->second.pos >= it->second.names.size() && !it->second.extended) { Inode *d = w.k.I(it->second.dir); if (d && d->ent.size() + 2 > it->second.names.size()) a.push_back({BK_ENV, ALT_READDIR_LATE, 0}); }
    }
  }
};
int main(int argc, char **argv) { return vk_main(argc, argv, [](const Config &c) -> Scenario * { return new C16(c); }, "c16"); }
