// In-memory kernel model: inodes (volatile and last-fsynced contents), directories, FIFOs, pipes, open file
// descriptions, flock, per-process descriptor tables / cwd / ids / signal state, virtual clock.  Owned by the
// controller; simulated processes reach it only through requests (vk_proto.h).  See DESIGN.md appendix A.
#pragma once
#include <string>
#include <vector>
#include <map>
#include <set>
#include <memory>
#include <cstring>
#include <cstdint>
#include <cstdio>
#include <cerrno>
#include <fcntl.h>
#include <sys/stat.h>
#include <sys/file.h>
#include <signal.h>
#include <unistd.h>

namespace vk {

enum InoType { T_REG = 1, T_DIR = 2, T_FIFO = 3 };

struct Pipe {
  std::string buf;
  int readers = 0, writers = 0;
  size_t cap = 4096;
  unsigned wcounter = 0;   // number of writer opens so far (Linux w_counter, for FIFO hang-up readiness)
  int id = 0;              // anonymous pipes: identity for flock (both ends share one inode on Linux)
};

struct Inode {
  int ino = 0;
  int type = T_REG;
  int mode = 0644, uid = 0, gid = 0, nlink = 0;
  long atime = 0, mtime = 0, ctime = 0;
  std::string data;        // volatile contents
  std::string synced;      // contents as of the last fsync (empty if never synced)
  bool ever_synced = false;
  std::map<std::string, int> ent;   // directories
  int parent = 0;                   // directories: ".."
  std::shared_ptr<Pipe> fifo;       // FIFOs: live while any description refers to it
  int openrefs = 0;
};

enum OfdKind { K_FILE = 1, K_PIPE_R, K_PIPE_W, K_SINK, K_NULL, K_SOCK, K_DIRFD };

struct Sink { std::string data; };   // write-only capture (daemon logs)

struct Ofd {
  int kind = K_FILE;
  int ino = 0;                 // K_FILE / FIFO ends / K_DIRFD
  std::shared_ptr<Pipe> pipe;  // pipe / fifo ends; connected socket: bytes from the peer
  std::shared_ptr<Pipe> pipe2; // connected socket: bytes to the peer
  std::shared_ptr<Sink> sink;
  long off = 0;
  int flags = 0;               // O_APPEND, O_NONBLOCK, access mode
  int refs = 0;
  bool locked = false;         // holds flock(LOCK_EX) on ino
  unsigned wcounter_at_open = 0;
  int tag = 0;                 // scenario-defined label (e.g. which actor pipe this is)
};

struct FdEnt { int ofd = -1; bool cloexec = false; };

struct SigDisp { int kind = 0; /* 0 DFL, 1 IGN, 2 handler */ unsigned long handler = 0; };

struct Passwd { std::string name; int uid, gid; std::string dir; };

struct Kernel {
  std::vector<std::unique_ptr<Inode>> inodes;   // index = inode number (0 unused)
  std::vector<std::unique_ptr<Ofd>> ofds;
  std::map<int, int> lock_holder;               // ino (or -pipe id) -> ofd index holding LOCK_EX
  int pipe_seq = 0;
  static int lock_key(const Ofd *f) { return f->ino ? f->ino : (f->pipe ? -f->pipe->id : 0); }
  long clock = 1000000000;
  int root = 0;
  std::vector<Passwd> passwd;
  std::map<std::string, int> groups;
  std::string hostname = "vkhost";
  int ino_floor = 1;                            // lowest number the allocator may hand out

  Kernel() { inodes.resize(1); root = mknode(T_DIR, 0755, 0, 0); inodes[root]->parent = root; inodes[root]->nlink = 2; }

  Inode *I(int n) { return (n > 0 && n < (int) inodes.size()) ? inodes[n].get() : nullptr; }

  int alloc_ino() {
    for (int i = ino_floor; i < (int) inodes.size(); i++) if (!inodes[i]) return i;
    inodes.resize(inodes.size() + 1);
    return (int) inodes.size() - 1;
  }
  int mknode(int type, int mode, int uid, int gid) {
    int n = alloc_ino();
    inodes[n].reset(new Inode());
    Inode *i = inodes[n].get();
    i->ino = n; i->type = type; i->mode = mode; i->uid = uid; i->gid = gid;
    i->atime = i->mtime = i->ctime = clock;
    return n;
  }
  void maybe_free(int n) {
    Inode *i = I(n);
    if (i && i->nlink <= 0 && i->openrefs <= 0 && i->type != T_DIR) inodes[n].reset();
    else if (i && i->type == T_DIR && i->nlink <= 0 && i->openrefs <= 0) inodes[n].reset();
  }

  // ---- path resolution: returns inode or -errno.  If parent/leaf given, resolves the parent directory and
  // returns the leaf name (for create/link/unlink). ----
  int walk(int cwd, const std::string &path, bool want_parent, int *parent, std::string *leaf) {
    if (path.empty()) return -ENOENT;
    int cur = path[0] == '/' ? root : cwd;
    size_t i = 0, n = path.size();
    std::vector<std::string> comps;
    while (i < n) {
      while (i < n && path[i] == '/') i++;
      size_t j = i;
      while (j < n && path[j] != '/') j++;
      if (j > i) comps.push_back(path.substr(i, j - i));
      i = j;
    }
    bool trailing_slash = path.back() == '/';
    if (comps.empty()) { if (want_parent) return -EEXIST; return cur; }
    for (size_t k = 0; k < comps.size(); k++) {
      Inode *d = I(cur);
      if (!d) return -ENOENT;
      if (d->type != T_DIR) return -ENOTDIR;
      bool last = (k + 1 == comps.size());
      const std::string &c = comps[k];
      if (c.size() > 255) return -ENAMETOOLONG;
      if (last && want_parent) { *parent = cur; *leaf = c; if (c == "." || c == "..") return -EINVAL; return 0; }
      int next;
      if (c == ".") next = cur;
      else if (c == "..") next = d->parent;
      else {
        auto it = d->ent.find(c);
        if (it == d->ent.end()) return -ENOENT;
        next = it->second;
      }
      cur = next;
    }
    if (trailing_slash) { Inode *d = I(cur); if (!d || d->type != T_DIR) return -ENOTDIR; }
    return cur;
  }
  int lookup(int cwd, const std::string &p) { return walk(cwd, p, false, nullptr, nullptr); }

  // ---- setup helpers (used by scenarios; absolute paths) ----
  int mkdir_p(const std::string &path, int mode = 0755, int uid = 0, int gid = 0) {
    int cur = root; size_t i = 0;
    while (i < path.size()) {
      while (i < path.size() && path[i] == '/') i++;
      size_t j = i; while (j < path.size() && path[j] != '/') j++;
      if (j == i) break;
      std::string c = path.substr(i, j - i);
      Inode *d = I(cur);
      auto it = d->ent.find(c);
      if (it == d->ent.end()) {
        int n = mknode(T_DIR, mode, uid, gid);
        Inode *nd = I(n); nd->parent = cur; nd->nlink = 2; d = I(cur); d->ent[c] = n; d->nlink++;
        cur = n;
      } else cur = it->second;
      i = j;
    }
    return cur;
  }
  int put_file(const std::string &path, const std::string &data, int mode = 0644, int uid = 0, int gid = 0, bool synced = true) {
    size_t s = path.rfind('/');
    int dir = mkdir_p(path.substr(0, s));
    std::string leaf = path.substr(s + 1);
    Inode *d = I(dir);
    int n;
    auto it = d->ent.find(leaf);
    if (it == d->ent.end()) { n = mknode(T_REG, mode, uid, gid); I(n)->nlink = 1; I(dir)->ent[leaf] = n; }
    else n = it->second;
    Inode *f = I(n); f->data = data; f->mode = mode; f->uid = uid; f->gid = gid;
    if (synced) { f->synced = data; f->ever_synced = true; }
    return n;
  }
  int put_fifo(const std::string &path, int mode = 0622, int uid = 0, int gid = 0) {
    size_t s = path.rfind('/');
    int dir = mkdir_p(path.substr(0, s));
    int n = mknode(T_FIFO, mode, uid, gid); I(n)->nlink = 1; I(dir)->ent[path.substr(s + 1)] = n;
    return n;
  }
  bool exists(const std::string &abs) { return lookup(root, abs) > 0; }
  Inode *file(const std::string &abs) { int n = lookup(root, abs); return n > 0 ? I(n) : nullptr; }
  std::vector<std::string> listdir(const std::string &abs) {
    std::vector<std::string> r; int n = lookup(root, abs); Inode *d = n > 0 ? I(n) : nullptr;
    if (d && d->type == T_DIR) for (auto &e : d->ent) r.push_back(e.first);
    return r;
  }
  const Passwd *pw(const std::string &name) { for (auto &p : passwd) if (p.name == name) return &p; return nullptr; }

  // ---- open file descriptions ----
  int new_ofd() {
    for (size_t i = 0; i < ofds.size(); i++) if (!ofds[i]) { ofds[i].reset(new Ofd()); return (int) i; }
    ofds.emplace_back(new Ofd());
    return (int) ofds.size() - 1;
  }
  void ofd_ref(int o) { ofds[o]->refs++; }
  void ofd_unref(int o) {
    Ofd *f = ofds[o].get();
    if (--f->refs > 0) return;
    if (f->locked) { auto it = lock_holder.find(lock_key(f)); if (it != lock_holder.end() && it->second == o) lock_holder.erase(it); }
    if (f->kind == K_PIPE_R && f->pipe) f->pipe->readers--;
    if (f->kind == K_PIPE_W && f->pipe) f->pipe->writers--;
    if (f->kind == K_SOCK) { if (f->pipe) f->pipe->readers--; if (f->pipe2) f->pipe2->writers--; }
    if (f->ino) {
      Inode *i = I(f->ino);
      if (i) {
        i->openrefs--;
        if (i->type == T_FIFO && i->fifo && i->fifo->readers <= 0 && i->fifo->writers <= 0) i->fifo.reset();
        maybe_free(f->ino);
      }
    }
    ofds[o].reset();
  }
  int make_pipe(int *r, int *w, size_t cap = 4096) {
    auto p = std::make_shared<Pipe>(); p->cap = cap; p->readers = 1; p->writers = 1; p->wcounter = 1; p->id = ++pipe_seq;
    *r = new_ofd(); ofds[*r]->kind = K_PIPE_R; ofds[*r]->pipe = p; ofds[*r]->flags = O_RDONLY; ofds[*r]->wcounter_at_open = 0;
    *w = new_ofd(); ofds[*w]->kind = K_PIPE_W; ofds[*w]->pipe = p; ofds[*w]->flags = O_WRONLY;
    return 0;
  }

  // a socket becomes connected: two byte streams whose far ends the scenario (the scripted peer) holds
  void connect_sock(Ofd *f, std::shared_ptr<Pipe> *from_peer, std::shared_ptr<Pipe> *to_peer, size_t cap = 65536) {
    f->pipe = std::make_shared<Pipe>(); f->pipe->cap = cap; f->pipe->readers = 1; f->pipe->writers = 1; f->pipe->id = ++pipe_seq;
    f->pipe2 = std::make_shared<Pipe>(); f->pipe2->cap = cap; f->pipe2->readers = 1; f->pipe2->writers = 1; f->pipe2->id = ++pipe_seq;
    *from_peer = f->pipe; *to_peer = f->pipe2;
  }
  // readiness as Linux select() reports it
  bool readable(Ofd *f) {
    switch (f->kind) {
      case K_FILE: case K_NULL: case K_DIRFD: return true;
      case K_PIPE_R: {
        Pipe *p = f->pipe.get();
        if (!p->buf.empty()) return true;
        if (p->writers <= 0) {
          if (f->ino) return p->wcounter != f->wcounter_at_open;  // FIFO: hang-up only if a writer existed since our open
          return true;
        }
        return false;
      }
      case K_SOCK: return f->pipe && (!f->pipe->buf.empty() || f->pipe->writers <= 0);
      case K_PIPE_W: return f->pipe->readers <= 0;   // no reader left: the error condition is reported in the read set as well (Linux POLLERR)
      default: return false;
    }
  }
  bool writable(Ofd *f) {
    switch (f->kind) {
      case K_FILE: case K_NULL: case K_SINK: return true;
      case K_PIPE_W: { Pipe *p = f->pipe.get(); if (p->readers <= 0) return true; return p->buf.size() < p->cap; }
      case K_SOCK: { Pipe *p = f->pipe2.get(); if (!p || p->readers <= 0) return true; return p->buf.size() < p->cap; }
      default: return false;
    }
  }

  // ---- machine crash: directory structure is durable; file data since the last fsync is kept or lost ----
  std::vector<int> dirty_files() {
    std::vector<int> r;
    for (size_t i = 1; i < inodes.size(); i++) { Inode *n = inodes[i].get(); if (n && n->type == T_REG && n->nlink > 0 && n->data != n->synced) r.push_back((int) i); }
    return r;
  }
  void crash_reset(const std::set<int> &lose) {
    // all processes are gone: drop descriptions, locks, pipe contents
    for (auto &o : ofds) o.reset();
    lock_holder.clear();
    for (size_t i = 1; i < inodes.size(); i++) {
      Inode *n = inodes[i].get();
      if (!n) continue;
      n->openrefs = 0; n->fifo.reset();
      if (n->type == T_REG && lose.count((int) i)) n->data = n->synced;
      if (n->type == T_REG) { n->synced = n->data; }
      if (n->nlink <= 0 && n->type != T_DIR) inodes[i].reset();
    }
  }

  // canonical dump for state hashing / replay files
  void dump_tree(int dir, const std::string &prefix, std::string &out, bool with_data) {
    Inode *d = I(dir);
    for (auto &e : d->ent) {
      Inode *c = I(e.second);
      char b[160];
      snprintf(b, sizeof b, " ino=%d type=%d mode=%o uid=%d nlink=%d size=%zu synced=%d", c->ino, c->type, c->mode, c->uid, c->nlink, c->data.size(), (int) (c->data == c->synced));
      out += prefix + "/" + e.first + b + "\n";
      if (with_data && c->type == T_REG && c->data.size() < 400) { out += "   |"; for (char ch : c->data) { if (ch >= 32 && ch < 127) out += ch; else { char h[8]; snprintf(h, sizeof h, "\\x%02x", (unsigned char) ch); out += h; } } out += "\n"; }
      if (c->type == T_DIR) dump_tree(e.second, prefix + "/" + e.first, out, with_data);
    }
  }
};

}  // namespace vk
