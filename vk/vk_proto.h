/* Protocol between the LD_PRELOAD shim (simulated processes) and the controller (virtual kernel +
 * explorer).  One slot per simulated process in a shared memory region. */
#ifndef VK_PROTO_H
#define VK_PROTO_H
#include <stdint.h>

#define VK_NSLOTS 48
#define VK_BUFSZ 70000

enum vk_op {
  VK_NONE = 0, VK_START, VK_OPEN, VK_CLOSE, VK_READ, VK_WRITE, VK_LSEEK, VK_FSYNC, VK_FTRUNCATE, VK_FSTAT,
  VK_STAT, VK_LINK, VK_UNLINK, VK_RENAME, VK_CHDIR, VK_UMASK, VK_PIPE, VK_FCNTL, VK_FLOCK, VK_SELECT,
  VK_SLEEP, VK_ALARM, VK_TIME, VK_GETPID, VK_GETUID, VK_SETUID, VK_SETGID, VK_SETGROUPS, VK_INITGROUPS,
  VK_GETPWNAM, VK_GETGRNAM, VK_GETHOSTNAME, VK_FORK, VK_FORKED, VK_FORKDONE, VK_EXEC, VK_EXIT,
  VK_WAITPID, VK_SIGACTION, VK_SIGPROCMASK, VK_OPENDIR, VK_READDIR, VK_CLOSEDIR, VK_UTIMES, VK_SOCKET,
  VK_CONNECT, VK_GETPEERNAME, VK_IOCTL, VK_SCRIPT, VK_FATAL, VK_SIGRETURN, VK_RESQUERY, VK_MKDIR,
  VK_MKFIFO, VK_DUP2, VK_KILL, VK_GETPPID, VK_GETGID, VK_OP_MAX
};

/* slot.state */
enum { VK_S_RUNNING = 0, VK_S_REQ = 1, VK_S_REPLY = 2 };

struct vk_slot {
  volatile int state;
  int op;
  long a[6];
  long ret;
  int err;
  int runsig;          /* reply: run the handler for this signal first ... */
  unsigned long handler;
  int redo;            /* reply to VK_SIGRETURN: 1 = issue the interrupted request again */
  int die;             /* reply: terminate silently (the process was killed by the controller) */
  int realpid;
  int len;             /* bytes used in buf (request or reply) */
  char buf[VK_BUFSZ];
};

struct vk_shm {
  volatile int ctl_futex;
  int pad[15];
  struct vk_slot slot[VK_NSLOTS];
};

/* struct passed back for stat-like calls */
struct vk_stat { long ino, mode, nlink, uid, gid, size, atime, mtime, ctime, dev; };

/* stand-in script actions (reply of VK_SCRIPT in buf): sequence of records */
enum { VKA_END = 0, VKA_WRITE = 1 /* fd, len, bytes */, VKA_READALL = 2 /* fd */, VKA_EXIT = 3 /* code */, VKA_KILLSELF = 4 /* sig */, VKA_CLOSE = 5 /* fd */, VKA_ASK = 6 /* ask the controller again for the next actions */ };

#endif
