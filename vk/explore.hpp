// Stateless exploration of choice vectors with deviation budgets (CHESS-style), level-synchronous over a
// pool of worker processes.  An execution is identified by its list of deviations from the default choice 0.
#pragma once
#include <atomic>
#include <vector>
#include <string>
#include <cstring>
#include <cstdint>
#include <cstdio>
#include <cstdlib>
#include <unistd.h>
#include <sys/mman.h>
#include <time.h>

namespace vk {

enum BudgetKind { BK_FREE = 0, BK_PREEMPT = 1, BK_FAULT = 2, BK_CRASH = 3, BK_ENV = 4, BK_NKINDS = 5 };
static const char *const BK_NAMES[] = { "free", "preemption", "fault", "crash", "env" };

#define VK_MAXDEV 12
#define VK_MAXALT 250
#define VK_MAXLEVEL 8
#define VK_NSTAT 48

struct Dev { uint32_t idx; uint16_t alt; uint16_t kind; };
struct Item {
  std::atomic<int> ready;
  uint16_t ndev; uint8_t used[BK_NKINDS]; uint8_t pad;
  uint64_t sig;                 // hash of the choice-point signatures up to and including the last deviation point
  Dev dev[VK_MAXDEV];
};

struct Shared {
  std::atomic<long> head[VK_MAXLEVEL], tail[VK_MAXLEVEL];
  std::atomic<long> pending[VK_MAXLEVEL];   // items pushed to the level and not yet completely processed (termination detection)
  std::atomic<int> active, stop;   // stop: 1 violation, 2 deadline/cap, 3 harness error
  std::atomic<long> stat[VK_NSTAT];
  std::atomic<long> level_execs[VK_MAXLEVEL];
  std::atomic<int> completed_level;
  long cap;
  long outcap;
  std::atomic<long> noutcomes;
  char viol_key[512]; char viol_text[2048]; char viol_file[512];
  char harness_msg[1024];
  Item items_and_outcomes[1];
};

struct Explorer {
  Shared *sh = nullptr;
  int bound[BK_NKINDS] = {1 << 20, 0, 0, 0, 0};
  int total_bound = 8;
  int maxlevel = 0;
  // per-execution state
  const Item *item = nullptr;
  size_t next_dev = 0;
  uint32_t npoints = 0;
  uint64_t sig = 0;
  struct Point { uint8_t n; uint8_t kinds[VK_MAXALT]; uint64_t sig; };
  std::vector<Point> points;
  bool diverged = false; std::string diverge_msg;

  Item *items(int level) { return sh->items_and_outcomes + (long) level * sh->cap; }
  std::atomic<uint64_t> *outcomes() { return (std::atomic<uint64_t> *) (sh->items_and_outcomes + (long) VK_MAXLEVEL * sh->cap); }

  static Shared *create(long cap, long outcap) {
    size_t sz = sizeof(Shared) + sizeof(Item) * (size_t) cap * VK_MAXLEVEL + sizeof(uint64_t) * (size_t) outcap;
    void *m = mmap(0, sz, PROT_READ | PROT_WRITE, MAP_SHARED | MAP_ANONYMOUS | MAP_NORESERVE, -1, 0);
    if (m == MAP_FAILED) { perror("mmap"); exit(2); }
    Shared *s = (Shared *) m; s->cap = cap; s->outcap = outcap; s->completed_level = -1;
    return s;
  }

  long new_outcomes = 0;   // states this execution registered as new (an execution that did so cannot simply be run again)
  void begin(const Item *it) { item = it; new_outcomes = 0; next_dev = 0; npoints = 0; sig = 1469598103934665603ULL; points.clear(); diverged = false; }

  int choose(const uint8_t *kinds, int n) {
    if (n <= 1) return 0;
    if (n > VK_MAXALT) { diverged = true; diverge_msg = "choice point with " + std::to_string(n) + " alternatives exceeds VK_MAXALT"; n = VK_MAXALT; }
    uint32_t idx = npoints++;
    Point pt; pt.n = n; memset(pt.kinds, 0, sizeof pt.kinds); memcpy(pt.kinds, kinds, n); pt.kinds[0] = 0;
    for (int i = 0; i < n; i++) { sig ^= (uint64_t) (pt.kinds[i] + 1 + 31 * n); sig *= 1099511628211ULL; }
    pt.sig = sig;
    points.push_back(pt);
    if (item && next_dev < item->ndev && item->dev[next_dev].idx == idx) {
      const Dev &d = item->dev[next_dev++];
      if (d.alt >= n) { diverged = true; diverge_msg = "replayed choice out of range at point " + std::to_string(idx); return 0; }
      if (next_dev == item->ndev && item->sig && item->sig != sig) { diverged = true; diverge_msg = "choice-point signature differs while replaying the prefix (point " + std::to_string(idx) + ")"; }
      return d.alt;
    }
    return 0;
  }
  // true while the execution is still replaying the deviations that define it (state-merging must not cut a prefix short)
  bool in_prefix() const { return item && next_dev < item->ndev; }
  int choose_n(int n, int kind) { uint8_t kk[VK_MAXALT + 1]; if (n > VK_MAXALT) { diverged = true; diverge_msg = "choose_n(" + std::to_string(n) + ") exceeds VK_MAXALT"; n = VK_MAXALT; } for (int i = 0; i < n; i++) kk[i] = kind; return choose(kk, n); }

  bool outcome(uint64_t h) {   // returns true if new
    if (!h) h = 1;
    std::atomic<uint64_t> *t = outcomes(); long cap = sh->outcap;
    for (long i = h % cap, probes = 0; probes < 64; i = (i + 1) % cap, probes++) {
      uint64_t cur = t[i].load();
      if (cur == h) return false;
      if (cur == 0) { uint64_t exp = 0; if (t[i].compare_exchange_strong(exp, h)) { sh->noutcomes++; new_outcomes++; return true; } if (exp == h) return false; }
    }
    return false;
  }

  // push the children of the execution just finished
  void expand() {
    uint32_t from = 0; int level = 0; uint8_t used[BK_NKINDS] = {0};
    if (item) { if (item->ndev) from = item->dev[item->ndev - 1].idx + 1; memcpy(used, item->used, sizeof used); }
    int tot = 0; for (int kx = 1; kx < BK_NKINDS; kx++) tot += used[kx];
    level = tot;
    if (item && item->ndev >= VK_MAXDEV) return;
    for (uint32_t i = from; i < points.size(); i++) {
      const Point &pt = points[i];
      for (int alt = 1; alt < pt.n; alt++) {
        int kind = pt.kinds[alt];
        int nl = level;
        if (kind != BK_FREE) { if (used[kind] + 1 > bound[kind] || tot + 1 > total_bound) continue; nl = level + 1; }
        if (nl >= VK_MAXLEVEL) continue;
        sh->pending[nl]++;
        long t = sh->tail[nl].fetch_add(1);
        if (t >= sh->cap) { sh->tail[nl].fetch_sub(1); sh->pending[nl]--; sh->stop.store(2); sh->stat[VK_NSTAT - 1]++; return; }
        Item *ni = &items(nl)[t];
        ni->ndev = item ? item->ndev : 0;
        if (item) memcpy(ni->dev, item->dev, sizeof(Dev) * item->ndev);
        memcpy(ni->used, used, sizeof used);
        if (kind != BK_FREE) ni->used[kind]++;
        ni->dev[ni->ndev].idx = i; ni->dev[ni->ndev].alt = alt; ni->dev[ni->ndev].kind = kind; ni->ndev++;
        ni->sig = pt.sig;
        ni->ready.store(1, std::memory_order_release);
      }
    }
  }
};

static inline double now_s() { struct timespec ts; clock_gettime(CLOCK_MONOTONIC, &ts); return ts.tv_sec + ts.tv_nsec * 1e-9; }

}  // namespace vk
