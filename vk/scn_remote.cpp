// C09 / C06 at program level: the real qmail-remote as a process under the virtual kernel.  The resolver's answers (res_query is
// interposed; dn_expand and dns.c stay real), the outcome of every connect() and the SMTP server behind the socket are scripted by
// the scenario.
//   family=dns      every DNS situation of a catalogue (two MX with addresses, MX without address records, no MX -> address of the
//                   host itself, no such domain, resolver failure, MX whose address lookup fails softly/hard, best MX is this
//                   host, only MX is this host, CNAME-only answer, truncated/garbled answer) x the first connect succeeding
//   family=connect  three candidate addresses (two MX, the first with two addresses) x every combination of
//                   {connected, refused, timed out, connected/refused asynchronously (EINPROGRESS, then select + getpeername)} per address x {normal server, server greeting 4xx}
//   family=smtp     one or two recipients x the full tree of server answers {2xx, 4xx, 5xx, connection closed, no answer until the
//                   client's timeout} at each phase
//   family=msg      messages with dot lines, bare CRs, no final newline, NUL and 8-bit bytes, long lines, from a real queue file:
//                   the bytes that arrive at the server in the DATA phase decode (RFC 5321 4.5.2) to the message
// Oracle: documented verdicts (qmail-remote(8)): success only if the server accepted recipient and message; permanent failure for
// 5xx and for "no such domain"/"MX points back to me"; temporary failure for 4xx, resolver trouble, no connection, lost
// connection; reports in argument order; exit status 0; connection attempts in preference order, stopping at the first success.
#include "qmailenv.hpp"
using namespace vk;

static std::string lbl(const std::string &dotted) { std::string o; size_t i = 0; while (i < dotted.size()) { size_t d = dotted.find('.', i); if (d == std::string::npos) d = dotted.size(); o.push_back((char) (d - i)); o += dotted.substr(i, d - i); i = d + 1; } o.push_back('\0'); return o; }
static std::string u16(int v) { std::string o; o.push_back((char) (v >> 8)); o.push_back((char) v); return o; }
struct RR { int type; std::string rdata; };
static std::string packet(const std::string &qname, int qtype, const std::vector<RR> &an) {
  std::string p = u16(0x1234) + u16(0x8180) + u16(1) + u16((int) an.size()) + u16(0) + u16(0);
  p += lbl(qname) + u16(qtype) + u16(1);
  for (auto &r : an) p += std::string("\xc0\x0c", 2) + u16(r.type) + u16(1) + u16(0) + u16(300) + u16((int) r.rdata.size()) + r.rdata;
  return p;
}
static std::string ip4(int a, int b, int c, int d) { std::string o; o.push_back((char) a); o.push_back((char) b); o.push_back((char) c); o.push_back((char) d); return o; }

struct DnsCase { std::string name; std::map<std::string, std::pair<int, std::string>> ans; /* "name/type" -> (h_errno, packet) */ char want; /* K deliver, Z, D */ std::vector<std::string> order; /* expected connection order (dotted) */ };

struct Remote : Scenario {
  const Config &cfg; std::string fam; int qpid = 0; std::shared_ptr<Sink> out;
  std::vector<DnsCase> dcs; const DnsCase *dc = nullptr;
  std::vector<int> connplan; size_t nconn = 0; std::vector<std::string> connected_to, attempted; bool greet4 = false;
  int nrcpt = 1; std::vector<int> script; /* per phase: 2,4,5 or 0 = close */ size_t phase = 0;
  std::shared_ptr<Pipe> to_client, from_client; std::string inbuf, wire_data; bool in_data = false, srv_closed = false, data_done = false; int phase_reached = -1;
  std::string msg; std::string casename; int ticks = 0; int tcpto_case = -1;
  // family=pair: the real qmail-rspawn starts two real qmail-remote processes for two recipients of ONE message; both connections are served
  // in lock step, so the two deliveries overlap in time.  Each connection has its own server state, swapped in and out of the members above.
  struct Conn { std::shared_ptr<Pipe> to_client, from_client; std::string inbuf, wire_data; bool in_data = false, srv_closed = false, data_done = false; size_t phase = 0; std::vector<int> script; int phase_reached = -1; };
  std::vector<Conn> conns; int curconn = -1;
  void store() { if (curconn < 0) return; Conn &c = conns[curconn]; c.to_client = to_client; c.from_client = from_client; c.inbuf = inbuf; c.wire_data = wire_data; c.in_data = in_data; c.srv_closed = srv_closed; c.data_done = data_done; c.phase = phase; c.script = script; c.phase_reached = phase_reached; }
  void load(int i) { store(); curconn = i; Conn &c = conns[i]; to_client = c.to_client; from_client = c.from_client; inbuf = c.inbuf; wire_data = c.wire_data; in_data = c.in_data; srv_closed = c.srv_closed; data_done = c.data_done; phase = c.phase; script = c.script; phase_reached = c.phase_reached; }
  Remote(const Config &c) : cfg(c) { fam = c.get("family", "dns"); build_dns(); }

  void build_dns() {
    const int A = 1, MX = 15, CNAME = 5;
    auto mxr = [&](int pref, const std::string &n) { return RR{MX, u16(pref) + lbl(n)}; };
    auto ok = [&](const std::string &q, int t, std::vector<RR> an) { return std::make_pair(0, packet(q, t, an)); };
    std::string H = "remote.example";
    { DnsCase d; d.name = "two MX, mx1 has two addresses"; d.ans[H + "/15"] = ok(H, MX, {mxr(20, "mx2.example"), mxr(10, "mx1.example")}); d.ans["mx1.example/1"] = ok("mx1.example", A, {{A, ip4(10, 0, 0, 1)}, {A, ip4(10, 0, 0, 2)}}); d.ans["mx2.example/1"] = ok("mx2.example", A, {{A, ip4(10, 0, 0, 3)}}); d.want = 'K'; d.order = {"10.0.0.1|10.0.0.2", "10.0.0.1|10.0.0.2", "10.0.0.3"}; dcs.push_back(d); }
    { DnsCase d; d.name = "no MX record: the host's own address"; d.ans[H + "/15"] = ok(H, MX, {}); d.ans[H + "/1"] = ok(H, A, {{A, ip4(10, 0, 0, 7)}}); d.want = 'K'; d.order = {"10.0.0.7"}; dcs.push_back(d); }
    { DnsCase d; d.name = "no such domain"; d.ans[H + "/15"] = {1, ""}; d.ans[H + "/1"] = {1, ""}; d.want = 'D'; dcs.push_back(d); }
    { DnsCase d; d.name = "resolver failure"; d.ans[H + "/15"] = {2, ""}; d.ans[H + "/1"] = {2, ""}; d.want = 'Z'; dcs.push_back(d); }
    { DnsCase d; d.name = "MX lookup fails temporarily although the address exists"; d.ans[H + "/15"] = {2, ""}; d.ans[H + "/1"] = ok(H, A, {{A, ip4(10, 0, 0, 7)}}); d.want = 'Z'; dcs.push_back(d); }
    { DnsCase d; d.name = "best MX has no address (temporary), second has"; d.ans[H + "/15"] = ok(H, MX, {mxr(10, "mx1.example"), mxr(20, "mx2.example")}); d.ans["mx1.example/1"] = {2, ""}; d.ans["mx2.example/1"] = ok("mx2.example", A, {{A, ip4(10, 0, 0, 3)}}); d.want = '?'; d.order = {"10.0.0.3"}; dcs.push_back(d); }
    { DnsCase d; d.name = "best MX does not exist, second has an address"; d.ans[H + "/15"] = ok(H, MX, {mxr(10, "mx1.example"), mxr(20, "mx2.example")}); d.ans["mx1.example/1"] = {1, ""}; d.ans["mx2.example/1"] = ok("mx2.example", A, {{A, ip4(10, 0, 0, 3)}}); d.want = 'K'; d.order = {"10.0.0.3"}; dcs.push_back(d); }
    { DnsCase d; d.name = "no MX has an address (none exists)"; d.ans[H + "/15"] = ok(H, MX, {mxr(10, "mx1.example")}); d.ans["mx1.example/1"] = {1, ""}; d.want = 'D'; dcs.push_back(d); }
    { DnsCase d; d.name = "second MX is this host (0.0.0.0): only the better one is tried"; d.ans[H + "/15"] = ok(H, MX, {mxr(10, "mx1.example"), mxr(20, "me.example")}); d.ans["mx1.example/1"] = ok("mx1.example", A, {{A, ip4(10, 0, 0, 1)}}); d.ans["me.example/1"] = ok("me.example", A, {{A, ip4(0, 0, 0, 0)}}); d.want = 'K'; d.order = {"10.0.0.1"}; dcs.push_back(d); }
    { DnsCase d; d.name = "best MX is this host: mail loop"; d.ans[H + "/15"] = ok(H, MX, {mxr(20, "mx1.example"), mxr(10, "me.example")}); d.ans["mx1.example/1"] = ok("mx1.example", A, {{A, ip4(10, 0, 0, 1)}}); d.ans["me.example/1"] = ok("me.example", A, {{A, ip4(0, 0, 0, 0)}}); d.want = 'D'; dcs.push_back(d); }
    { DnsCase d; d.name = "answer holds only a CNAME record"; d.ans[H + "/15"] = ok(H, MX, {{CNAME, lbl("other.example")}}); d.ans[H + "/1"] = ok(H, A, {{A, ip4(10, 0, 0, 7)}}); d.want = 'K'; d.order = {"10.0.0.7"}; dcs.push_back(d); }
    { DnsCase d; d.name = "MX answer cut inside the second record"; std::string p = packet(H, MX, {mxr(10, "mx1.example"), mxr(20, "mx2.example")}); d.ans[H + "/15"] = {0, p.substr(0, p.size() - 7)}; d.ans["mx1.example/1"] = ok("mx1.example", A, {{A, ip4(10, 0, 0, 1)}}); d.want = 'Z'; dcs.push_back(d); }
    { DnsCase d; d.name = "MX record with rdlength 2"; d.ans[H + "/15"] = ok(H, MX, {{MX, u16(10)}}); d.want = 'Z'; dcs.push_back(d); }
  }
  static size_t choose_big(World &w, size_t n) { size_t lo = 0, size = n; while (size > 1) { size_t span = 1; while (span * 240 < size) span *= 240; size_t cnt = (size + span - 1) / span; size_t d = (size_t) w.ex->choose_n((int) cnt, BK_FREE); lo += d * span; size = std::min(span, size - d * span); } return lo; }
  std::vector<std::string> messages() {
    std::vector<std::string> v = base_messages(); int maxl = cfg.geti("maxlen", 5); const char al[] = {'\r', '\n', '.', 'a'};
    for (int n = 1; n <= maxl; n++) { std::vector<int> idx(n, 0); for (;;) { std::string m; for (int i = 0; i < n; i++) m += al[idx[i]]; v.push_back(m); int i = n - 1; while (i >= 0 && ++idx[i] == 4) { idx[i] = 0; i--; } if (i < 0) break; } }
    return v;
  }
  static std::vector<std::string> base_messages() {
    return {"Subject: t\n\nhello\n", ".\n", "..\n.\n...\n", "a\n.b\n\n.\n", "no final newline", "", "\n", "a\r\n.\r\n", "bare\rCR\n", "\r.\n", "x\r", std::string("nul\0byte\n", 9), "\xff\xfe 8-bit\n", std::string(998, 'l') + "\n." + std::string(1500, 'm') + "\n", std::string(5000, 'x'), ".\n.\n.\n.", "a\n\n\n.\r\n\r\n"};
  }
  void setup(World &w) override {
    QmailEnv::build(w, cfg, true); Kernel &k = w.k;
    k.put_file("/var/qmail/control/timeoutconnect", "60\n"); k.put_file("/var/qmail/control/timeoutremote", "1200\n");
    dc = &dcs[0]; connplan = {1, 1, 1}; nrcpt = 1; msg = "Subject: t\n\nhello\n.dot line\n";
    if (fam == "dns") { dc = &dcs[w.ex->choose_n((int) dcs.size(), BK_FREE)]; casename = "dns: " + dc->name; }
    else if (fam == "connect") { int c = (int) choose_big(w, 125 * 2); greet4 = c >= 125; c %= 125; connplan = {c % 5, (c / 5) % 5, c / 25}; static const char *nm[] = {"refused", "connected", "timed out", "connected after EINPROGRESS", "refused after EINPROGRESS"}; casename = std::string("connect: ") + nm[connplan[0]] + ", " + nm[connplan[1]] + ", " + nm[connplan[2]] + (greet4 ? ", greeting 421" : ""); }
    else if (fam == "smtp") { nrcpt = 1 + w.ex->choose_n(cfg.geti("maxrcpt", 2), BK_FREE); casename = "smtp: " + std::to_string(nrcpt) + " recipient(s), server answers"; }
    else if (fam == "tcpto") {
      // lock/tcpto remembers addresses that timed out: one marked twice within the last hour or so is not tried; if that leaves nothing to try the verdict is a deferral
      tcpto_case = w.ex->choose_n(4, BK_FREE); static const char *nm[] = {"all candidates timed out twice, 100 s ago", "all candidates timed out twice, 10000 s ago", "all candidates timed out once, 100 s ago", "all candidates timed out twice, 3000 s ago"};
      casename = std::string("tcpto: ") + nm[tcpto_case]; std::string t; long when = k.clock - (tcpto_case == 1 ? 10000 : tcpto_case == 3 ? 3000 : 100);
      for (int last : {1, 2, 3}) { std::string r = ip4(10, 0, 0, last); r.push_back((char) (tcpto_case == 2 ? 1 : 2)); r += std::string(3, '\0'); for (int b = 0; b < 8; b++) r.push_back((char) ((when >> (8 * b)) & 255)); t += r; }
      t.resize(1024, '\0'); k.file("/var/qmail/queue/lock/tcpto")->data = t; }
    else if (fam == "msg") { auto ms = messages(); size_t i = choose_big(w, ms.size()); msg = ms[i]; casename = "msg: [" + esc(msg, 60) + "]"; }
    else if (fam == "pair") {
      static const char *nm[] = {"three blocks of text", "short message", "dot lines across a block boundary"}; int mi = w.ex->choose_n(3, BK_FREE);
      msg = mi == 1 ? "Subject: t\n\nhello\n" : ""; if (mi != 1) for (int i = 0; i < 60; i++) msg += (mi == 2 && i % 7 == 0 ? ".line " : "line ") + std::to_string(i) + " " + std::string(40, 'a' + i % 26) + "\n";
      casename = std::string("pair: two recipients of one message delivered at the same time, ") + nm[mi]; connplan = {1, 1, 1, 1}; }
    else throw HarnessError{"unknown family " + fam};
    script.assign(5 + nrcpt, 2); if (greet4) script[0] = 4;
    if (fam == "pair") {
      k.put_file(QmailEnv::messpath(123), msg, 0644, UID_QMAILQ, GID_QMAIL);
      std::string stream; for (int i = 0; i < 2; i++) { stream.push_back((char) i); stream += "8/123"; stream.push_back('\0'); stream += "s@src.example"; stream.push_back('\0'); stream += "r" + std::to_string(i + 1) + "@remote.example"; stream.push_back('\0'); }
      std::map<int, int> fds; fds[0] = QmailEnv::preloaded_pipe(w, stream); fds[1] = QmailEnv::sink(w, &out); fds[2] = QmailEnv::nullfd(w);
      qpid = w.spawn("/var/qmail/bin/qmail-rspawn", {"qmail-rspawn"}, fds, UID_QMAILR, GID_QMAIL, "/");
      return; }
    int ino = k.put_file(QmailEnv::messpath(123), msg, 0644, UID_QMAILQ, GID_QMAIL);
    int o = k.new_ofd(); k.ofds[o]->kind = K_FILE; k.ofds[o]->ino = ino; k.ofds[o]->flags = O_RDONLY; k.I(ino)->openrefs++;
    std::map<int, int> fds; fds[0] = o; fds[1] = QmailEnv::sink(w, &out); fds[2] = QmailEnv::nullfd(w);
    std::vector<std::string> av = {"qmail-remote", "remote.example", "s@src.example"}; for (int i = 0; i < nrcpt; i++) av.push_back("r" + std::to_string(i + 1) + "@remote.example");
    qpid = w.spawn("/var/qmail/bin/qmail-remote", av, fds, UID_QMAILR, GID_QMAIL, "/");
  }
  int dns(World &w, Proc &, const std::string &name0, int type, std::string *answer) override {
    std::string name = name0; while (!name.empty() && name.back() == '.') name.pop_back();
    auto it = dc->ans.find(name + "/" + std::to_string(type)); w.counters["dns_queries"]++;
    if (it == dc->ans.end()) return 4;   // NO_DATA
    if (it->second.first) return it->second.first;
    *answer = it->second.second; return 0;
  }
  std::vector<std::string> pending_ip;   // address of the connect() in progress, from the sockaddr
  int connect(World &w, Proc &p, int fd) override {
    const std::string &sa = p.req.data; std::string ip = "?"; if (sa.size() >= 8) { char b[32]; snprintf(b, sizeof b, "%d.%d.%d.%d", (unsigned char) sa[4], (unsigned char) sa[5], (unsigned char) sa[6], (unsigned char) sa[7]); ip = b; }
    attempted.push_back(ip); w.counters["connect_attempts"]++;
    int plan = nconn < connplan.size() ? connplan[nconn] : 0; nconn++;
    if (plan == 0) return -ECONNREFUSED;
    if (plan == 2) return -ETIMEDOUT;
    if (plan == 4) return -EINPROGRESS;   // becomes "writable" at once, getpeername() then fails: the asynchronous refusal
    Ofd *o = w.O(p, fd); if (!o) return -EBADF;
    if (fam == "pair") { store(); conns.push_back(Conn()); curconn = (int) conns.size() - 1; script.assign(6, 2); wire_data.clear(); data_done = false; phase_reached = -1; to_client.reset(); from_client.reset(); }
    w.k.connect_sock(o, &to_client, &from_client); connected_to.push_back(ip);
    inbuf.clear(); phase = 0; in_data = false; srv_closed = false;
    answer(w);   // the greeting
    return plan == 3 ? -EINPROGRESS : 0;
  }
  void close_conn() { if (to_client) to_client->writers = 0; if (from_client) from_client->readers = 0; srv_closed = true; }
  // the server's answer for the current phase, from the script (smtp family: chosen here)
  void answer(World &w) {
    size_t np = script.size();
    if (phase >= np) { to_client->buf += "250 extra\r\n"; return; }
    int a = script[phase];
    if (fam == "smtp") { static const int al[] = {2, 4, 5, 0, 9}; a = al[w.ex->choose_n(5, BK_FREE)]; script[phase] = a; }
    phase_reached = (int) phase;
    if (a == 0) { close_conn(); return; }
    if (a == 9) { srv_closed = true; return; }   // the server stalls: no answer, the connection stays open until the client's timeout
    static const char *ok[] = {"220 mx ESMTP\r\n", "250 mx\r\n", "250 sender ok\r\n", "250 rcpt ok\r\n", "354 go\r\n", "250 queued as 1\r\n"};
    size_t kind = phase < 3 ? phase : phase < 3 + (size_t) nrcpt ? 3 : phase == 3 + (size_t) nrcpt ? 4 : 5;
    if (a == 2) to_client->buf += ok[kind]; else if (a == 4) to_client->buf += "451-try\r\n451 later\r\n"; else to_client->buf += "554 no\r\n";
    phase++;
  }
  void server(World &w) {
    if (!from_client || srv_closed) return;
    inbuf += from_client->buf; from_client->buf.clear();
    for (;;) {
      if (in_data) {
        bool lone = inbuf.compare(0, 3, ".\r\n") == 0; size_t e = lone ? 0 : inbuf.find("\r\n.\r\n");
        if (e == std::string::npos) return;
        size_t cut = lone ? 3 : e + 5; wire_data = inbuf.substr(0, cut); inbuf.erase(0, cut); in_data = false; data_done = true; answer(w); if (srv_closed) return; continue;
      }
      size_t nl = inbuf.find("\r\n"); if (nl == std::string::npos) return;
      std::string line = inbuf.substr(0, nl); inbuf.erase(0, nl + 2);
      if (line.compare(0, 4, "QUIT") == 0) { to_client->buf += "221 bye\r\n"; close_conn(); return; }
      bool was_data = line == "DATA"; size_t ph = phase;
      answer(w); if (srv_closed) return;
      if (was_data && script[ph] == 2) in_data = true;
    }
  }
  // with a fault budget (family msg): a read of the message on standard input returns fewer bytes than asked for and than are there -- legal for
  // any descriptor; nothing may change
  void alternatives(World &w, Proc &p, const Req &r, std::vector<Alt> &a) override {
    if (fam != "msg" || w.ex->bound[BK_FAULT] <= 0 || p.vpid != qpid || r.op != VK_READ || r.a[0] != 0) return;
    Ofd *o = w.O(p, 0); Inode *i = (o && o->kind == K_FILE) ? w.k.I(o->ino) : nullptr; if (!i) return;
    size_t left = i->data.size() > (size_t) o->off ? i->data.size() - o->off : 0;
    left = std::min<size_t>(left, (size_t) r.a[1]);   // what a full read would return
    if (left > 1) { a.push_back({BK_FAULT, ALT_SHORT, 1}); if (left > 3) a.push_back({BK_FAULT, ALT_SHORT, (int) (left / 2)}); if (left > 2) a.push_back({BK_FAULT, ALT_SHORT, (int) left - 1}); }
  }
  void after_step(World &w, Proc &, const Step &st) override { if (st.injected && !st.err) w.counters["short_reads_of_the_message"]++; }
  bool on_quiescent(World &w) override {
    if (fam == "pair") { bool any = false; for (int i = 0; i < (int) conns.size(); i++) { load(i); if (from_client && !srv_closed && !from_client->buf.empty()) { server(w); any = true; } } store(); if (any) return true; }
    else
    if (from_client && !srv_closed && !from_client->buf.empty()) { server(w); return true; }
    { long dl = w.next_deadline(); if (dl >= 0 && ++ticks < 20) { w.advance_clock(dl); return true; } }   // nobody can act: time passes until the client's timeout
    return false;
  }
  // RFC 5321 4.5.2 receiver
  static bool decode(const std::string &wire, std::string *m) {
    m->clear(); size_t i = 0;
    for (;;) { size_t e = wire.find("\r\n", i); if (e == std::string::npos) return false; std::string l = wire.substr(i, e - i); i = e + 2; if (l == ".") return i == wire.size(); if (!l.empty() && l[0] == '.') l.erase(0, 1); *m += l + "\n"; }
  }
  static std::string canon(const std::string &m) { std::string o; for (size_t i = 0; i < m.size(); i++) { if (m[i] == '\r') { o += '\n'; if (i + 1 < m.size() && m[i + 1] == '\n') i++; } else o += m[i]; } return o; }
  void at_end(World &w) override {
    if (fam == "pair") {
      store(); w.counters["runs"]++; std::string key = "C06:" + casename;
      if (conns.size() != 2) throw HarnessError{"family pair: " + std::to_string(conns.size()) + " connections were made, the scenario expects one per recipient"};
      std::string cm = canon(msg); int acked = 0;
      for (size_t i = 0; i < conns.size(); i++) { Conn &c = conns[i]; if (!c.data_done) continue; acked++; std::string m;
        if (!decode(c.wire_data, &m) || m != cm) { w.soft_violation(key + ":wire", casename + ": connection " + std::to_string(i + 1) + " of 2: the server accepted a DATA payload that does not decode to the queued message (" + std::to_string(m.size()) + " bytes [" + esc(m, 80) + "] instead of " + std::to_string(cm.size()) + ")"); return; } }
      if (acked != 2) { w.soft_violation(key + ":incomplete", casename + ": only " + std::to_string(acked) + " of 2 deliveries transferred the message although the server accepted everything"); return; }
      int nk = 0; for (size_t i = 0; i + 1 < out->data.size(); i++) if (out->data[i] == 'K' && (i == 0 || (unsigned char) out->data[i - 1] <= 1)) nk++;
      w.counters["pairs_both_delivered"]++; w.counters["messages_decoded_from_wire"] += 2; w.outcome_hash = fnvs(23, casename); w.description = casename + " -> both connections carried the message"; (void) nk; return; }
    Proc *p = nullptr; for (auto &pp : w.procs) if (pp && pp->vpid == qpid) p = pp.get();
    std::string key = "C09:" + casename; w.counters["runs"]++;
    if (fam == "smtp") { casename += " ["; for (int i = 0; i <= phase_reached && i < (int) script.size(); i++) casename += script[i] == 0 ? "close " : script[i] == 9 ? "stall " : std::to_string(script[i]) + "xx "; casename += "]"; key = "C09:" + casename; }
    if (!p || (p->st != P_ZOMBIE && p->st != P_REAPED)) { w.soft_violation(key, casename + ": qmail-remote did not finish"); return; }
    if (p->status != 0) { w.soft_violation(key, casename + ": qmail-remote ended with status " + std::to_string(p->status) + "; documented: always exits 0"); return; }
    const std::string &o = out->data; std::string got; { size_t j = 0; for (size_t k2 = 0; k2 < o.size(); k2++) if (!o[k2]) { got += o[j]; j = k2 + 1; } if (j != o.size() || o.empty()) { w.soft_violation(key, casename + ": output is not a sequence of NUL-terminated reports: [" + esc(o, 120) + "]"); return; } }
    // reference
    std::string want; bool dup = false;
    if (fam == "dns" && dc->order.empty()) want = std::string(1, dc->want);
    else {
      // connection phase: addresses in preference order until one connects
      bool conn = false; for (size_t i = 0; i < connplan.size() && i < (dc->order.empty() ? 0 : dc->order.size()); i++) if (connplan[i] == 1 || connplan[i] == 3) { conn = true; break; }
      if (fam == "connect") {
        size_t upto = 0; while (upto < connplan.size() && connplan[upto] != 1 && connplan[upto] != 3) upto++;
        size_t expect_attempts = std::min(connplan.size(), upto + 1);
        if (attempted.size() != expect_attempts) { w.soft_violation(key, casename + ": " + std::to_string(attempted.size()) + " connection attempts, expected " + std::to_string(expect_attempts) + " (in preference order, stopping at the first success)"); return; }
      }
      for (size_t i = 0; i < attempted.size() && i < dc->order.size(); i++) if (("|" + dc->order[i] + "|").find("|" + attempted[i] + "|") == std::string::npos) { w.soft_violation(key, casename + ": connection attempt " + std::to_string(i + 1) + " went to " + attempted[i] + ", expected " + dc->order[i]); return; }
      if (attempted.size() > dc->order.size()) { w.soft_violation(key, casename + ": connection attempt to " + attempted.back() + ", which is not a candidate"); return; }
      if (fam == "tcpto" && (tcpto_case == 0 || tcpto_case == 3)) { conn = false; if (!attempted.empty()) { w.soft_violation(key, casename + ": " + std::to_string(attempted.size()) + " connection attempts to addresses marked as timing out"); return; } }
      if (!conn) want = "Z";
      else {
        int last = 4 + nrcpt; bool anyr = false;
        for (int ph = 0; ph <= last; ph++) {
          int a = ph < (int) script.size() ? script[ph] : 2;
          if (ph > phase_reached) { want += "?"; break; }   // cannot happen: the client stopped earlier than the reference says
          if (a == 0 || a == 9) { want += "Z"; dup = ph == last; break; }
          if (ph == 0 || ph == 1) { if (a != 2) { want += "Z"; break; } continue; }
          if (ph == 2 || ph == 3 + nrcpt) { if (a == 5) { want += "D"; break; } if (a == 4) { want += "Z"; break; } continue; }
          if (ph >= 3 && ph < 3 + nrcpt) { want += a == 5 ? "h" : a == 4 ? "s" : "r"; if (a == 2) anyr = true; if (ph == 2 + nrcpt && !anyr) { want += "D"; break; } continue; }
          want += a == 5 ? "D" : a == 4 ? "Z" : "K";
        }
      }
    }
    if (fam == "msg" && !msg.empty() && canon(msg).back() != '\n') want = "rD";   // a message whose last line is incomplete is refused permanently (qmail-remote cannot transfer it), the terminator is never sent
    if (dc->want == '?' && fam == "dns") { if (got != "rK" && got != "Z") { w.soft_violation(key, casename + ": reports [" + got + "], expected delivery through the second MX or a deferral"); return; } }
    else if (got != want) { w.soft_violation(key, casename + ": reports [" + got + "] (" + esc(o, 160) + "), documented: [" + want + "]"); return; }
    bool gotdup = o.find("Possible duplicate") != std::string::npos;
    if (gotdup != dup) { w.soft_violation(key + ":duplicate-flag", casename + ": 'Possible duplicate' flag is " + (gotdup ? "set" : "not set") + ", expected the opposite"); return; }
    if (!got.empty() && got.back() == 'K') {
      std::string m; if (!data_done || !decode(wire_data, &m)) { w.soft_violation(key + ":wire", casename + ": success reported but the DATA payload on the wire is not a well-formed dot-terminated stream: [" + esc(wire_data, 120) + "]"); return; }
      std::string cm = canon(msg); if (!cm.empty() && cm.back() != '\n') cm += "\n";
      if (fam == "msg" && msg.find('\r') == std::string::npos && !msg.empty() && msg.back() == '\n' && m != msg) { w.soft_violation(key + ":wire", casename + ": the message decoded from the wire differs from the queued message: [" + esc(m, 100) + "]"); return; }
      if (m != cm && !(msg.empty() && m.empty())) { w.soft_violation(key + ":wire", casename + ": the message decoded from the wire [" + esc(m, 100) + "] does not have the line contents of the queued message [" + esc(cm, 100) + "]"); return; }
      w.counters["messages_decoded_from_wire"]++;
    }
    if (fam == "msg" && want == "rD" && data_done) { w.soft_violation(key + ":wire", casename + ": the end-of-data mark was sent although the message was refused"); return; }
    w.counters[std::string("verdict_") + got.back()]++;
    w.outcome_hash = fnvs(fnvs(17, casename), o.substr(0, 300)); w.description = casename + " -> " + got + (gotdup ? " +possible-duplicate" : "");
  }
};
int main(int argc, char **argv) { return vk_main(argc, argv, [](const Config &c) -> Scenario * { return new Remote(c); }, "remote"); }
