#!/bin/sh
# tools/run_all.sh [tier] [ids...]: run the checks one after the other; one summary line each.
tier=${1:-quick}; shift
ids=${*:-C01 C02 C03 C04 C05 C06 C07 C08 C09 C10 C11 C12 C13 C14 C15 C16 C17 C18 C19 C20}
cd "$(dirname "$0")/.." && mkdir -p build
for c in $ids; do
  s=$(date +%s)
  bin/check $c --tier $tier > build/run_all.$c.$tier.log 2>&1; rc=$?
  e=$(date +%s)
  echo "$c $tier rc=$rc wall=$((e-s))s $(grep -E 'tier=' build/run_all.$c.$tier.log | tail -1 | cut -c1-200)"
  grep -E "^VIOLATION|HARNESS-ERROR|^KNOWN-FINDING" build/run_all.$c.$tier.log | cut -c1-240
done
