#!/usr/bin/env python3
"""Regenerates MANIFEST.json from the table below (keeps it valid by construction)."""
import json, os
V = os.path.dirname(os.path.dirname(os.path.abspath(__file__)))
props = [json.loads(l) for l in open(os.path.join(V, "properties.jsonl"))]
SEQ_NOTE = ("trusted: gcc/ASan/UBSan, the reference model in seq/, the harness stubs that replace only I/O callbacks and "
            "_exit; the code under test is the real translation unit rebuilt from /repo's working tree")
VK_NOTE = ("trusted: the virtual kernel model (vk/kernel.hpp, vk/ops.hpp; bound to Linux by the differential conformance suite bin/conformance = vk/scn_conf.cpp), the LD_PRELOAD shim, the scenario's "
           "oracle; the programs are the unmodified binaries built from /repo's working tree by its own Makefile")
DAEMON_NOTE = VK_NOTE + "; spawners are controller scripts on the daemon's pipes (their own code is covered by C09/C11/C18), time is a virtual clock"
CHECKS = {
 "C17": dict(engine="SEQ", category="exploration", design_ref="4/C17",
             technique="bounded-exhaustive enumeration of local parts (23-byte alphabet of all specials, length <=4/5) through quote2 -> token822 parse/addrlist/unquote and addrmangle -> addrparse round trips; grammar-template address lists with mailboxes known by construction through the real qmail-inject (recording queue stand-in, VK engine) for all modes, with re-injection of the rewritten header",
             text="Agreement of quoter and parser is a for-all-strings property and envelope derivation a for-all-headers property; all strings of the bounded alphabet and all compositions of the grammar templates up to the bound are executed on the real functions/program and compared with the identity / the constructed mailboxes.",
             note=SEQ_NOTE + "; " + VK_NOTE),
 "C07": dict(engine="VK", category="fault_enumeration", design_ref="4/C07",
             technique="exhaustive enumeration, on the real qmail-smtpd/qmail-qmtpd/qmail-qmqpd with the real qmail.c under the virtual kernel, of every queue-program exit status 0..255 (+82 texts, crash, real qmail-queue), a client disconnect after every byte, size/hop/address-length/NUL/framing boundary cases, multi-message QMTP connections, every hostile peer string up to length 3-4 and every one/two failing fork/pipe/exec/read/write calls; acknowledgement compared with what a recording queue stand-in committed",
             text="'Never say 250/K unless queued' must hold for every failure point; every exit status, every cut point and every boundary case is executed on the real daemons and the acknowledgement is compared with the bytes the queue program actually committed.",
             note=VK_NOTE + "; the queue program is a stand-in following qmail-queue(8)'s abort-on-incomplete-envelope rule (validated against the real qmail-queue in one family)"),
 "C08": dict(engine="SEQ", category="model_checking", design_ref="4/C08",
             technique="explicit-state breadth-first search over SMTP command sequences on the real qmail-smtpd.c transition function (commands() loop, addrparse, rcpthosts, constmap, cdb_seek), de-duplicated on the server's own transaction state, for 90 configurations of rcpthosts/morercpthosts.cdb/badmailfrom/localiphost/RELAYCLIENT, against a reply-driven reference transaction machine and an independent policy function",
             text="Open-relay and cross-transaction leakage bugs are reachable only through particular command orders and address spellings; all command sequences up to the depth bound (all reachable transaction states) are executed for every configuration and each reply and each submitted envelope is compared with the reference.",
             note=SEQ_NOTE),
 "C11": dict(engine="VK", category="exploration", design_ref="4/C11",
             technique="bounded-exhaustive enumeration of users/assign tables compiled by the real qmail-newu x local parts through the real qmail-lspawn/spawn.c/qmail-getpw under the virtual kernel (virtual passwd, home ownership), identity observed at the exec of bin/qmail-local and compared with a reference lookup; cdb truncated at every length; every single failing call",
             text="The longest-match rules and the drop-privileges order matter only on overlapping tables and hostile local parts; every table of the bounded pool and every local part of the pool is run through the real programs and the credentials and argument vector at the exec are compared with the documented rules.",
             note=VK_NOTE),
 "C12": dict(engine="VK", category="fault_enumeration", design_ref="4/C12",
             technique="stateless exhaustive exploration of the real qmail-local (parent and maildir child) under the virtual kernel: message/sender grid x every crash point (kill, machine crash with all keep/lose patterns) x every failing call; mbox results read back with a reference mboxrd reader; 2-3 concurrent mbox deliveries under every interleaving within the preemption bound with an injected write failure",
             text="Atomicity is a statement about every crash instant of the tmp/->new/ protocol and >From quoting must be invertible for every message; every crash point, every failing call and every message of the bounded grammar is executed on the real binary, and concurrent deliveries are interleaved exhaustively within the bound.",
             note=VK_NOTE),
 "C13": dict(engine="VK", category="exploration", design_ref="4/C13",
             technique="bounded-exhaustive enumeration of virtual home directories (all subsets of .qmail files x extensions, mode grid, every instruction list of length <=3 over 14 line kinds, owner files, hostile envelope addresses) through the real qmail-local (-n and real mode, real fork/exec and forwarding) under the virtual kernel, compared with a reference interpreter of dot-qmail(5)/qmail-command(8)",
             text="Which file controls an address and what happens after a failing instruction are defined over all extensions, file sets and instruction orders; every combination of the bounded space is executed on the real binary and compared with the documented semantics.",
             note=VK_NOTE),
 "C19": dict(engine="VK", category="model_checking", design_ref="4/C19",
             technique="explicit-state exploration of POP3 sessions on the real qmail-pop3d (visited-set on deletion marks/vanished files, every (state, command) transition executed once against an RFC 1939 reference, maildir compared after QUIT/disconnect) and exhaustive short sessions on the real qmail-popup with a recording checker, both under the virtual kernel",
             text="Deleting an unmarked message or truncating at a dot line depends on command order and message content; the reachable session state graph is explored completely for each maildir population and every transition is compared with the reference, so no sampled order is involved.",
             note=VK_NOTE),
 "C20": dict(engine="VK", category="exploration", design_ref="4/C20",
             technique="bounded-exhaustive enumeration of hostile inputs on AddressSanitizer/UBSan builds: (SEQ) every truncation/field overwrite/boundary size of DNS answer templates through the real dns.c with the unused answer buffer poisoned, every address-list field body over a 16-character alphabet up to a length bound and deep nesting through token822 with exact-size buffers, every truncation/byte corruption of a cdb, every short control file, hostile SMTP reply streams (forms x codes x lengths around every limit x read sizes) through the real qmail-remote smtp() chained into qmail-rspawn report(); (VK) the real sanitised programs as processes under the virtual kernel on every single-point mutation (truncate, replace, delete, insert, number:=extreme, blow-up) of grammar-derived inputs for 19 input surfaces plus extremes around each documented limit; oracle = no sanitizer report, no fatal signal, documented exit code",
             text="Memory safety is a universally quantified negative; what a bounded exhaustive check can add to sampling is completeness over a stated input space: every single-point mutation of each grammar-derived input and every length around each limit is executed on the real, sanitised code, with buffers sized exactly so that one byte too many is a report.  Inputs outside those spaces (multi-point mutations, lengths between the probed ones) are not covered, and this is said in the evidence.",
             note=VK_NOTE + "; " + SEQ_NOTE),
 "C14": dict(engine="VK", category="model_checking", design_ref="4/C14",
             technique="bounded-exhaustive enumeration of failure texts and recipients through the real addbounce() (paragraph-integrity invariant), and deviation-bounded exploration of bounce chains on the real qmail-send/qmail-clean/qmail-queue under the virtual kernel (every subset/order of failing recipients, hostile text, expiry, sender forms, virtual/catch-all domains, failing bounces, crash) with every daemon-queued notice parsed and checked",
             text="Paragraph integrity must hold for attacker-chosen text: every text of the bounded alphabet is executed; loop freedom and addressing are properties of the whole chain of generated messages, which is followed on the real binaries until the queue is empty for every failing subset within the bound.",
             note=DAEMON_NOTE + "; " + SEQ_NOTE),
 "C02": dict(engine="VK", category="model_checking", design_ref="4/C02",
             technique="preemption-bounded exhaustive interleaving of 1-3 real qmail-queue processes with the real qmail-send and qmail-clean (and the daemon's own bounce injections) at system-call granularity under a virtual kernel with lowest-free inode allocation, plus every crash point of every process with restart, failing/hung injections with the clock moved past 24 h and 36 h, a second daemon instance, an aged backlog; state-table invariant after every namespace change",
             text="The state table is an invariant over all reachable filesystem states of four cooperating programs; every interleaving within the preemption bound and every crash point is executed on the real binaries and the S1-S5 table, the name=inode rule, number uniqueness and the 36-hour rule are evaluated after every step.",
             note=DAEMON_NOTE),
 "C16": dict(engine="VK", category="model_checking", design_ref="4/C16",
             technique="preemption-bounded exhaustive interleaving of the real qmail-queue and qmail-send/qmail-clean binaries at the trigger/todo system calls under a virtual kernel with a frozen clock (scenarios A/B/C, both POSIX readdir behaviours), fair scheduling with spin/livelock detection, plus timeout monitors on deferred-delivery and TERM histories",
             text="A lost wake-up exists only in particular interleavings of two processes; all interleavings of the injector's publish-then-signal steps with the daemon's re-arm-then-scan steps up to the preemption bound are executed on the real binaries, and at every quiescent point no committed message may be left unnoticed while the clock stands still.",
             note=DAEMON_NOTE),
 "C04": dict(engine="VK", category="model_checking", design_ref="4/C04",
             technique="the C03 history exploration (real daemon binaries under the virtual kernel, deviation-bounded, crash points, TERM/restart) with exactly-once monitors evaluated at every delivery command and mark write, plus a configured x announced concurrency grid read back from the daemon's own status line",
             text="Exactly-once and bounded concurrency are properties of all event orders; every history within the deviation bound is executed on the real binaries and each delivery command is checked against the on-disk T/D record and the outstanding-attempt ledger.",
             note=DAEMON_NOTE),
 "C03": dict(engine="VK", category="model_checking", design_ref="4/C03",
             technique="stateless deviation-bounded exploration of complete histories of the real qmail-send/qmail-clean/qmail-queue binaries under a virtual kernel: every choice of answered delivery and verdict (K/Z/D/garbled), signals, machine crash (all keep/lose patterns) or kill before every mutating call, every single failing call; ledger monitors on every system call; every history run until the queue drains",
             text="The guarantee is about all histories of a long-running daemon including restarts; the explorer enumerates every history that deviates from the all-success default in at most 2-3 places (quick/thorough), including every crash point and every failing call, on the real binaries, and checks the delivered-or-bounced ledger at every step and at the end.",
             note=DAEMON_NOTE),
 "C18": dict(engine="VK", category="exploration", design_ref="4/C18",
             technique="bounded-exhaustive request enumeration against the real qmail-clean binary under the virtual kernel (one request per quiescent interval; oracle on the exact unlink() paths and reply bytes), with every unlink failing once; bounded-exhaustive delivery-command streams (message-id catalogue x delivery numbers x address forms, every cut point, every sequence of <=3/4 commands) against the real qmail-lspawn/qmail-rspawn with recording stand-ins for the delivery programs (oracle on the spawner's open() paths, started children and their standard input, one report per command); deviation-bounded exploration of stray/mangled/oversized reports on the real qmail-send's report channels while deliveries are in flight, on a plain and an AddressSanitizer build",
             text="Validation bugs show only on malformed requests; every request of the bounded set is sent to the real helper and its system calls are compared with the documented behaviour, so within the bound acceptance and effect are decided for all requests.",
             note=VK_NOTE + "; " + DAEMON_NOTE),
 "C01": dict(engine="VK", category="fault_enumeration", design_ref="4/C01",
             technique="stateless exhaustive exploration of the real qmail-queue binary under a virtual kernel: every input of a boundary grid x every system-call index x {process kill, machine crash with every keep/lose pattern of unsynced data, every applicable errno, short write, short/interrupted read}; invariant evaluated after every call and on every post-crash image",
             text="The property quantifies over crash instants and single I/O failures; the explorer visits every one of them for every input of the grid (one deviation quick, all pairs thorough) on the real binary, so within those bounds the ordering 'fsync both, then one link' and the cleanup paths are decided exhaustively.",
             note=VK_NOTE),
 "C10": dict(engine="SEQ", category="exploration", design_ref="4/C10",
             technique="exhaustive product of control-file configurations (4x256x4x2, real files read by the real getcontrols()/regetcontrols()) x 143 generated addresses through the real rewrite(), and senderadd() over a sender/recipient grid, against an independent model of qmail-send(8)/addresses(5); deviation-bounded histories of the real qmail-send under the virtual kernel preprocessing mixed 5-recipient envelopes with locals/virtualdomains edited before every HUP (partition of the envelope into local/N and remote/N, delivery commands)",
             text="Rule precedence only shows where several rules match at once; the full subset product of a pool that contains every rule kind (user, domain, nested wildcards, catch-all, exceptions, locals, percent hack) makes every such overlap occur, and every address of the pool is routed under every configuration and compared with the model.",
             note=SEQ_NOTE + "; the order-preserving partition of recipients into local/remote files by todo_do is observed by the VK queue scenarios, not here"),
 "C09": dict(engine="SEQ", category="exploration", design_ref="4/C09",
             technique="depth-first enumeration of the full tree of scripted SMTP server behaviours (reply classes/forms, garbage, disconnect, stall at every phase, 1-3 recipients, read-split/ahead-of-time/write-failure variants) through the real smtp()/smtpcode()/blast(), chained into the real qmail-rspawn report(); report() alone on every (status, output<=6/7 bytes); preemption-bounded exhaustive interleaving of the real qmail-rspawn/qmail-lspawn with a scripted delivery program (9 fates: prints a report, closes its output, then exits 0/1/100/111 or is killed) under the virtual kernel; the real qmail-remote process with scripted resolver answers (13 DNS situations), connect() outcomes (5 per candidate address) and SMTP peer (answer tree incl. closed/stalled connections)",
             text="Every server script of the bounded tree is executed against the real client code and compared with a reference verdict function, so 'never K unless recipient and message were accepted' is decided for all scripts in the bound rather than for samples; the spawner's folding routine is covered over its whole small input space.",
             note=SEQ_NOTE + "; " + VK_NOTE),
 "C15": dict(engine="SEQ", category="exploration", design_ref="4/C15",
             technique="exhaustive evaluation of the real squareroot() for all 2^32 ages, nextretry() on a dense grid, DFS over every insert/delmin sequence (depth<=8 quick, <=10 thorough) on the real prioq.c against a multiset reference; deviation-bounded exploration of daemon histories under a virtual clock (deferrals, ticks to each deadline, ALRM, TERM/restart, queue lifetime) with schedule monitors",
             text="The arithmetic facts are decided for the complete 32-bit domain; the heap is explored over all operation sequences up to the depth, which includes every heap shape of up to depth elements; the daemon-level schedule is explored on the real qmail-send under the virtual kernel and clock.",
             note=SEQ_NOTE + "; " + DAEMON_NOTE),
 "C05": dict(engine="SEQ", category="exploration", design_ref="4/C05",
             technique="bounded-exhaustive enumeration of every byte stream over {CR,LF,'.',a[,R|SP]} (length<=10 quick, <=12 thorough) and every read chunking through the real blast()/commands() of qmail-smtpd.c against an RFC 5321 reference receiver; every message through a reference sender and the real qmail-remote encoder into the real decoder; every payload up to length 5/7 through the real qmail-smtpd process under the virtual kernel with a recording queue program",
             text="All strings of the bounded space are executed on the real decoder (function level and through the real command loop), so within the bound the for-all-inputs statement is decided, not sampled; the recogniser has 5 states and looks at one byte at a time, so length 10-12 over the 4 relevant byte classes exercises every state/byte transition in every context.",
             note=SEQ_NOTE + "; " + VK_NOTE),
 "C06": dict(engine="SEQ", category="exploration", design_ref="4/C06",
             technique="bounded-exhaustive enumeration of every message over {CR,LF,'.',a} (length<=10 quick, <=12 thorough), every read chunking and every read-error offset, through the real blast(); oracle = wire invariants + RFC 5321 reference receiver round trip; every message up to length 5/7 (+ hand-written ones) as a queue file through the real qmail-remote process under the virtual kernel to a scripted SMTP server; the real qmail-rspawn with two real qmail-remote children delivering one message at the same time to per-connection scripted servers under every interleaving within the preemption bound (stateless exploration, payload of every acknowledged DATA phase decoded against the queue file)",
             text="Every string of the bounded space is executed on the real encoder, so within the bound this is a complete decision of the for-all-strings property; the bound covers every placement of CR, LF and '.' relative to line starts (the encoder's state depends on at most the previous two bytes).",
             note=SEQ_NOTE),
}
PENDING = "check not built yet in this round (engine stage pending, see DESIGN.md appendix C); not replaced by sampling"
m = {
 "version": 1,
 "setup_cmd": "bin/setup",
 "hooks": {"guard": "NOTQMAIL_VERIF", "enable": "scratch copy of /repo's working tree built with conf-cc 'cc -O1 -g -DNOTQMAIL_VERIF [sanitizers]' and conf-ld 'cc -rdynamic'; no source hooks exist (observation is at the libc boundary or by #include of the real .c)",
           "baseline_off_cmd": "bin/baseline-off", "source_commits": [], "add_only": True},
 "engines": [
  {"name": "SEQ", "path": "seq/", "serves_properties": sorted(k for k, v in CHECKS.items() if v["engine"] == "SEQ"),
   "kind_free_text": "bounded-exhaustive enumeration of inputs / operation sequences through the real functions (file #included, I/O callbacks and _exit replaced), ASan+UBSan, compared with independent reference models"},
  {"name": "VK", "path": "vk/", "serves_properties": sorted(k for k, v in CHECKS.items() if v["engine"] == "VK"),
   "kind_free_text": "the repository-built programs as real processes under an LD_PRELOAD shim; every world-facing libc call is served by an in-memory kernel owned by a controller that enumerates schedules, faults, crash points and environment answers (stateless DFS, deviation-bounded)"},
 ],
 "checks": [], "not_applicable": [],
 "notes": "bin/check <ID> --tier quick|thorough; exit 0 held / 1 violation / 2 harness error. known-findings.txt lists fixed defects and recorded findings.",
}
LIB = {"C01","C03","C04","C05","C06","C07","C08","C09","C10","C11","C12","C13","C14","C15","C17","C18","C19","C20"}
LIB_NOTE = "; plus the library conformance harness (seq/c00_lib.c): the shared primitives the property rests on (substdio under every read/write schedule, byte/str/case functions, number scanning, constmap, cdb, control-file parsing, seek, and for C20 the growth routine of the dynamic arrays with the k-th allocation failing) exhaustively over small domains against trivial references"
for p in props:
    i = p["id"]
    if i in CHECKS:
        c = dict(CHECKS[i])
        if i in LIB: c["technique"] = c["technique"] + LIB_NOTE
        m["checks"].append({
            "property_id": i, "quick_cmd": "bin/check %s --tier quick" % i,
            "thorough_cmd": "bin/check %s --tier thorough" % i,
            "evidence_file": "evidence/%s.json" % i,
            "replay_cmd_template": "bin/check %s --replay {path}" % i,
            "engine": c["engine"],
            "level_claimed": {"category": c["category"], "text": c["text"], "design_ref": "DESIGN.md section " + c["design_ref"]},
            "level_note": c["note"], "technique": c["technique"]})
    else:
        m["not_applicable"].append({"property_id": i, "reason": PENDING})
json.dump(m, open(os.path.join(V, "MANIFEST.json"), "w"), indent=1)
print("checks:", len(m["checks"]), "not_applicable:", len(m["not_applicable"]))
