#!/usr/bin/env python3
"""tools/seed_meta.py <seed> <property> <detected_by(comma list or none)> <needs...>  -> seeded/<seed>/meta.json"""
import sys, json, os
seed, prop, det = sys.argv[1:4]
needs = " ".join(sys.argv[4:])
d = "/verif/seeded/" + seed
conf = open(d + "/confirm.txt").read().strip() if os.path.exists(d + "/confirm.txt") else ""
meta = {"seed": seed, "breaks_property": prop, "needs_to_manifest": needs,
        "source": "independent sub-agent given only the property text and a scratch worktree",
        "confirmed": conf,
        "ran": ["tools/confirm_seed.sh %s  (scratch worktree under /tmp: build, make test, demo.sh without/with patch)" % seed] +
               ["tools/try_seed.sh %s %s  -> VIOLATION (exit 1)" % (seed, c) for c in det.split(",") if c != "none"],
        "detected_by": [c for c in det.split(",") if c != "none"]}
json.dump(meta, open(d + "/meta.json", "w"), indent=1)
print("wrote", d + "/meta.json")
