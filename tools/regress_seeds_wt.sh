#!/bin/sh
# tools/regress_seeds_wt.sh [tier]: every seeded change (seeded/*/meta.json) against the check(s) named in its meta.json, each applied in its own
# scratch worktree (tools/try_seed_wt.sh), so /repo's working tree is never touched.  Writes seeded/MATRIX.txt.
tier=${1:-quick}; out=/verif/seeded/MATRIX.txt; : > $out.new
for d in /verif/seeded/*/; do
  s=$(basename $d); [ -f $d/meta.json ] || continue
  for c in $(python3 -c "import json;print(' '.join(json.load(open('$d/meta.json'))['detected_by']))"); do
    r=$(/verif/tools/try_seed_wt.sh $s $c $tier 2>&1)
    if echo "$r" | grep -q "^VIOLATION property=$c"; then v=detected; elif echo "$r" | grep -q "PATCH DOES NOT APPLY"; then v=PATCH-DOES-NOT-APPLY; elif echo "$r" | grep -q HARNESS; then v=HARNESS-ERROR; else v=MISSED; fi
    echo "$s $c $tier $v" >> $out.new; echo "$s $c $tier $v"
  done
done
mv $out.new $out
