#!/bin/sh
# tools/regress_seeds_wt.sh [tier] [part/of]: every seeded change (seeded/*/meta.json) against the check(s) named in its meta.json, each applied in its
# own scratch worktree (tools/try_seed_wt.sh), so /repo's working tree is never touched.  Without a part: all seeds, writes seeded/MATRIX.txt.  With
# "k/n": every n-th seed starting at the k-th, writes seeded/MATRIX.part.k (run the n parts side by side, then `cat seeded/MATRIX.part.* | sort > seeded/MATRIX.txt`).
tier=${1:-quick}; part=${2:-1/1}; k=${part%/*}; n=${part#*/}
out=/verif/seeded/MATRIX.txt; [ "$n" != 1 ] && out=/verif/seeded/MATRIX.part.$k
: > $out.new; i=0
for d in /verif/seeded/C*/; do
  s=$(basename $d); [ -f $d/meta.json ] || continue
  i=$((i+1)); [ $(( (i - 1) % n + 1 )) = "$k" ] || continue
  for c in $(python3 -c "import json;print(' '.join(json.load(open('$d/meta.json'))['detected_by']))"); do
    r=$(/verif/tools/try_seed_wt.sh $s $c $tier 2>&1)
    if echo "$r" | grep -q "^VIOLATION property=$c"; then v=detected; elif echo "$r" | grep -q "PATCH DOES NOT APPLY"; then v=PATCH-DOES-NOT-APPLY; elif echo "$r" | grep -q HARNESS; then v=HARNESS-ERROR; else v=MISSED; fi
    echo "$s $c $tier $v" >> $out.new; echo "$s $c $tier $v"
  done
done
mv $out.new $out
