#!/usr/bin/env python3
"""tools/thorough_table.py <run_all logs...>: markdown table of the last thorough result per check (later files win)."""
import re, sys
rows = {}
for fn in sys.argv[1:]:
    for l in open(fn, errors="replace"):
        m = re.match(r"(C\d\d) thorough rc=(\d+) wall=(\d+)s (.*)", l)
        if not m or m.group(2) != "0":
            continue
        kv = dict(re.findall(r"(\w+)=(\S+)", m.group(4)))
        rows[m.group(1)] = (int(m.group(3)), kv)
print("| check | wall (16 cores) | executions / evaluations | states | transitions (calls, steps) | distinct observations | bound completed |")
print("|---|---|---|---|---|---|---|")
for c in sorted(rows):
    w, kv = rows[c]
    print("| %s | %d s | %s | %s | %s | %s | %s |" % (c, w, kv.get("evaluations"), kv.get("states"), kv.get("transitions"), kv.get("distinct"),
          "all stated bounds" if kv.get("exhaustive") == "True" else "time/queue cap hit in at least one family: see CAPPED notes in the evidence (levels below the cap complete)"))
