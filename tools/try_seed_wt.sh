#!/bin/sh
# tools/try_seed_wt.sh <seed-name> <check-id> [tier]: like try_seed.sh, but /repo's working tree is never touched: the seeded change is
# applied in a scratch worktree under /tmp and the check is pointed at it (VERIF_REPO); evidence of that run goes to a scratch directory.
S=/verif/seeded/$1; ID=$2; TIER=${3:-quick}; W=/tmp/try-$1-$ID
git -C /repo worktree remove --force $W 2>/dev/null; rm -rf $W $W-ev
git -C /repo worktree add -q --detach $W HEAD || exit 2
if ! git -C $W apply "$S/patch.diff" 2>/tmp/apply.$1.err; then echo "seed=$1 check=$ID PATCH DOES NOT APPLY: $(head -3 /tmp/apply.$1.err)"; git -C /repo worktree remove --force $W; exit 3; fi
cd ${VERIF_DIR:-/verif} && VERIF_REPO=$W VERIF_EVIDENCE=$W-ev bin/check $ID --tier $TIER > /tmp/try_seed_wt.$1.$ID.out 2>&1; rc=$?
git -C /repo worktree remove --force $W; rm -rf $W $W-ev
echo "seed=$1 check=$ID tier=$TIER exit=$rc $(grep -c '^VIOLATION' /tmp/try_seed_wt.$1.$ID.out) violation line(s)"
grep -E "^VIOLATION|HARNESS" /tmp/try_seed_wt.$1.$ID.out | head -3
tail -1 /tmp/try_seed_wt.$1.$ID.out | cut -c1-200
exit $rc
