#!/bin/sh
# tools/benign.sh <name>...: apply seeded/benign/<name>/patch.diff in a scratch worktree and run every quick check against it
for n in "$@"; do
  W=/tmp/ben-$n; git -C /repo worktree remove --force $W 2>/dev/null; rm -rf $W $W-ev
  git -C /repo worktree add -q --detach $W HEAD || continue
  if ! git -C $W apply /verif/seeded/benign/$n/patch.diff; then echo "$n PATCH DOES NOT APPLY"; git -C /repo worktree remove --force $W; continue; fi
  for c in ${BENIGN_CHECKS:-C01 C02 C03 C04 C05 C06 C07 C08 C09 C10 C11 C12 C13 C14 C15 C16 C17 C18 C19 C20}; do
    (cd ${VERIF_DIR:-/verif} && VERIF_REPO=$W VERIF_EVIDENCE=$W-ev bin/check $c --tier quick > /tmp/benign.$n.$c.out 2>&1); rc=$?
    if [ $rc != 0 ]; then echo "$n $c rc=$rc $(grep -E '^VIOLATION|HARNESS' /tmp/benign.$n.$c.out | head -2 | cut -c1-160 | tr '\n' ' ')"; fi
  done
  echo "$n done"
  git -C /repo worktree remove --force $W; rm -rf $W $W-ev
done
