#!/bin/sh
# tools/try_seed.sh <seed-name> <check-id> [tier]: apply seeded/<seed>/patch.diff to /repo, run the check, undo.
S=/verif/seeded/$1; ID=$2; TIER=${3:-quick}
cd /repo || exit 2
if ! git diff --quiet; then echo "repo dirty"; exit 2; fi
if ! git apply "$S/patch.diff" 2>/tmp/apply.err; then
  if ! git apply -3 "$S/patch.diff" 2>>/tmp/apply.err; then echo "PATCH DOES NOT APPLY: $(cat /tmp/apply.err | head -3)"; git checkout -- . ; exit 3; fi
  git reset -q
fi
cp /verif/evidence/$ID.json /tmp/try_seed.evidence.$ID 2>/dev/null
cd /verif && bin/check $ID --tier $TIER > /tmp/try_seed.out 2>&1; rc=$?
cp /tmp/try_seed.evidence.$ID /verif/evidence/$ID.json 2>/dev/null
git -C /repo checkout -- .
echo "seed=$1 check=$ID tier=$TIER exit=$rc"
grep -E "^VIOLATION|^KNOWN|HARNESS" /tmp/try_seed.out | head -4
grep -A1 "^VIOLATION" /tmp/try_seed.out | grep -v "^VIOLATION" | head -2
tail -1 /tmp/try_seed.out
exit $rc
