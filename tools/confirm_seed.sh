#!/bin/sh
# tools/confirm_seed.sh <seed-name>: confirm in a scratch worktree (under /tmp) that seeded/<seed>/patch.diff
# applies to /repo HEAD, builds, keeps the 22 unit tests green, and that demo.sh passes without / fails with it.
# Prints one summary line; writes seeded/<seed>/confirm.txt.
N=$1; S=/verif/seeded/$N; W=/tmp/confirm-$N
git -C /repo worktree remove --force $W 2>/dev/null; rm -rf $W
git -C /repo worktree add -q --detach $W HEAD || exit 2
cd $W
r_build0=x; r_demo0=x; r_apply=x; r_build1=x; r_test=x; r_demo1=x
make -j8 it >/dev/null 2>&1; r_build0=$?
timeout 300 sh $S/demo.sh $W >$W/demo0.log 2>&1; r_demo0=$?
git apply $S/patch.diff 2>/dev/null; r_apply=$?
if [ $r_apply = 0 ]; then
  make -j8 it >/dev/null 2>&1; r_build1=$?
  make -j8 test >$W/test.log 2>&1; r_test=$?
  ntests=$(grep -c "^100%: Checks" $W/test.log)
  timeout 300 sh $S/demo.sh $W >$W/demo1.log 2>&1; r_demo1=$?
fi
HEADC=$(git -C /repo rev-parse --short HEAD)
echo "seed=$N repo_head=$HEADC build_unpatched=$r_build0 demo_unpatched_exit=$r_demo0 apply=$r_apply build_patched=$r_build1 make_test_patched=$r_test suites_100pct=$ntests demo_patched_exit=$r_demo1" | tee $S/confirm.txt
cd /; git -C /repo worktree remove --force $W; rm -rf $W
