#!/bin/sh
# tools/intake.sh <out-dir> <seed-name> <check-id>: take a sub-agent's deliverables (patch.diff, demo.sh, README.md, helpers) into
# seeded/<seed-name>, confirm them in a scratch worktree (tools/confirm_seed.sh) and try the property's quick check against the change
# in another scratch worktree (tools/try_seed_wt.sh).  /repo's working tree is never touched.
O=$1; N=$2; ID=$3
[ -f "$O/patch.diff" ] && [ -f "$O/demo.sh" ] || { echo "intake: $O lacks patch.diff or demo.sh"; exit 2; }
mkdir -p /verif/seeded/$N && cp -r $O/. /verif/seeded/$N/
/verif/tools/confirm_seed.sh $N
/verif/tools/try_seed_wt.sh $N $ID quick
