#!/bin/sh
# tools/regress_seeds.sh [tier]  -- apply every seeded change in turn to /repo, run the check(s) named in its meta.json, restore /repo.
# Writes seeded/MATRIX.txt: one line per (seed, check): detected / MISSED / patch does not apply.  Nothing else may use /repo meanwhile.
tier=${1:-quick}
out=/verif/seeded/MATRIX.txt
: > $out.new
for d in /verif/seeded/*/; do
  s=$(basename $d)
  [ -f $d/meta.json ] || continue
  checks=$(python3 -c "import json;print(' '.join(json.load(open('$d/meta.json'))['detected_by']))")
  for c in $checks; do
    r=$(/verif/tools/try_seed.sh $s $c $tier 2>&1)
    if echo "$r" | grep -q "^VIOLATION property=$c"; then v=detected; elif echo "$r" | grep -q "PATCH DOES NOT APPLY"; then v="PATCH-DOES-NOT-APPLY"; else v=MISSED; fi
    echo "$s $c $tier $v" >> $out.new
    echo "$s $c $tier $v"
  done
done
mv $out.new $out
git -C /repo status --short | grep -v '^??' && echo "WARNING: /repo not clean"
