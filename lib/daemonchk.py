"""Families of daemon histories (vk/daemon.hpp) shared by the checks of C02, C03, C04, C10, C14, C15, C16."""
from lib.common import *


def run_families(res, prop, tier, fams, scn="daemon"):
    """fams: list of dicts(name, opts(list), bounds 'p,f,c,e', total, deadline)."""
    rd = rundir(prop)
    vk_build()
    src = scratch_build(rd, "plain")
    for f in fams:
        if f.get("tier") and f["tier"] != tier:
            continue
        vk_run(res, f.get("scn", scn), src, rd, f["bounds"], f["total"], f.get("deadline", 600), f["name"], opts=f["opts"], qcap=f.get("qcap", 0))
    return src
