"""Shared driver code for /verif checks: scratch builds of /repo's working tree, harness
execution, known-findings handling, evidence writing.  See DESIGN.md sections 2.1 and 6."""
import json, os, re, shutil, subprocess, sys, time, atexit, hashlib

VERIF = os.path.dirname(os.path.dirname(os.path.abspath(__file__)))
REPO = os.environ.get("VERIF_REPO", "/repo")
BUILDROOT = os.path.join(VERIF, "build")
GUARD = "NOTQMAIL_VERIF"

ASAN_CC = "-fsanitize=address,undefined -fno-sanitize-recover=undefined -fno-omit-frame-pointer"
ASAN_ENV = {"ASAN_OPTIONS": "detect_leaks=0:abort_on_error=1:allocator_may_return_null=1",
            "UBSAN_OPTIONS": "halt_on_error=1:abort_on_error=1:print_stacktrace=1"}

_cleanup = []


def _rm_all():
    for d in _cleanup:
        shutil.rmtree(d, ignore_errors=True)


atexit.register(_rm_all)


def sh(cmd, cwd=None, env=None, check=True, capture=True, timeout=None):
    e = dict(os.environ)
    if env:
        e.update(env)
    p = subprocess.run(cmd, shell=isinstance(cmd, str), cwd=cwd, env=e, timeout=timeout,
                       stdout=subprocess.PIPE if capture else None,
                       stderr=subprocess.STDOUT if capture else None, text=True, errors="replace")
    if check and p.returncode != 0:
        sys.stderr.write("HARNESS-ERROR: command failed (%d): %s\n%s\n" % (p.returncode, cmd, (p.stdout or "")[-4000:]))
        sys.exit(2)
    return p


def rundir(tag):
    d = os.path.join(BUILDROOT, "run-%s-%d" % (tag, os.getpid()))
    shutil.rmtree(d, ignore_errors=True)
    os.makedirs(d)
    if not os.environ.get("VERIF_KEEP"):
        _cleanup.append(d)
    return d


def repo_files():
    out = subprocess.run(["git", "-C", REPO, "ls-files", "--cached", "--others", "--exclude-standard"],
                         stdout=subprocess.PIPE, text=True, check=True).stdout.split("\n")
    return [f for f in out if f and os.path.isfile(os.path.join(REPO, f))]


def scratch_build(rd, kind="plain", targets="it"):
    """Copy the *current working tree* of /repo (tracked + new untracked sources, no stale objects)
    to rd/src-<kind> and build it with the repository's own Makefile.  kind: plain | asan."""
    src = os.path.join(rd, "src-" + kind)
    os.makedirs(src)
    for f in repo_files():
        dst = os.path.join(src, f)
        os.makedirs(os.path.dirname(dst), exist_ok=True)
        shutil.copy2(os.path.join(REPO, f), dst)
    if kind == "plain":
        cc, ld = "cc -O1 -g -D%s" % GUARD, "cc -rdynamic"
    elif kind == "asan":
        cc, ld = "cc -O1 -g -D%s %s" % (GUARD, ASAN_CC), "cc -rdynamic %s" % ASAN_CC
    elif kind == "stock":
        cc = ld = None
    else:
        raise ValueError(kind)
    if cc:
        _set_first_line(os.path.join(src, "conf-cc"), cc)
        _set_first_line(os.path.join(src, "conf-ld"), ld)
    t0 = time.time()
    sh("make -j16 %s >make.log 2>&1 || { tail -50 make.log; exit 1; }" % targets, cwd=src,
       env=ASAN_ENV)
    return src


def _set_first_line(path, line):
    rest = open(path).read().split("\n", 1)
    open(path, "w").write(line + "\n" + (rest[1] if len(rest) > 1 else ""))


def load_line(src, target):
    """Objects/libraries the repository's Makefile links into <target> (after './load target')."""
    mk = open(os.path.join(src, "Makefile")).read()
    m = re.search(r"^\t\./load %s ((?:.*\\\n)*.*)$" % re.escape(target), mk, re.M)
    if not m:
        raise RuntimeError("no load line for " + target)
    words = m.group(1).replace("\\\n", " ").split()
    out, i = [], 0
    txt = " ".join(words)
    for lib in re.findall(r"`cat ([a-z.]+)`", txt):
        val = open(os.path.join(src, lib)).read().strip()
        txt = txt.replace("`cat %s`" % lib, val)
    return txt.split()


def prefixed_object(src, obj, prefix, out):
    """Copy of object file <obj> in which every *defined* global symbol is renamed <prefix><name>
    (undefined references are left alone), so that two programs' translation units can be linked
    into one harness."""
    nm = sh("nm --defined-only -g %s" % os.path.join(src, obj)).stdout
    syms = [l.split()[-1] for l in nm.split("\n") if l.strip()]
    mapf = out + ".syms"
    with open(mapf, "w") as f:
        for s_ in syms:
            f.write("%s %s%s\n" % (s_, prefix, s_))
    sh("objcopy --redefine-syms=%s %s %s" % (mapf, os.path.join(src, obj), out))
    return out


def compile_harness(src, out, sources, link_target=None, extra_objs=(), cflags="", asan=True, cxx=False, exclude=()):
    """Compile harness sources against the scratch tree.  If link_target is given, link with the
    objects and libraries of that program (its own main object excluded)."""
    cc = "g++" if cxx else "cc"
    flags = "-O1 -g -I%s -I%s/seq -D%s %s %s" % (src, VERIF, GUARD, ASAN_CC if asan else "", cflags)
    libs = []
    if link_target:
        libs = [w if w.startswith("-") else os.path.join(src, w) for w in load_line(src, link_target)
                if w not in exclude]
    libs = [o if (os.path.isabs(o) or o.startswith("-")) else os.path.join(src, o) for o in extra_objs] + libs
    cmd = "%s %s -o %s %s %s -lpthread" % (cc, flags, out, " ".join(sources), " ".join(libs))
    sh(cmd, cwd=src)
    return out


LIB_MODE_TEXT = {
    "io": "substdio input (buffers 1..9 x streams <=10 bytes x every read-size schedule x EINTR/error variants x 8 consumer patterns incl. getln), "
          "substdio output (short writes, a failing write at every call), substdio_copy return codes",
    "bytes": "byte_copy/byte_copyr at every overlap, byte_chr/rchr, str_*/case_* on every string <=4 over {a,B,z,Z,@,[,`,{,NUL}, case folding of all 256 bytes",
    "alloc": "allocation failures: the k-th allocation (k<24) fails once while a stralloc (the GEN_ALLOC growth routine shared by every dynamic array) grows by 1/7/100/1000 bytes x 150 appends; a failed call changes nothing, content exact, claimed capacity never beyond the owned block",
    "num": "fmt_ulong/fmt_uint0/scan_ulong round trips on boundary values, scan_ulong/scan_8long on every digit string <=3 followed by every byte",
    "map": "constmap on all 256 subsets of 8 keys (empty key, case twins, colon data) x 17 probes, split on/off",
    "date": "datetime_tai/datetime_untai/date822fmt/myctime against the calendar for two instants of every day 1970..2109, the last and the first second of every day and 19 edge instants (2^31, 2^32, 29 Feb 2000, 2100)",
    "cdb": "cdb_seek on a 9-record database (duplicate and high-byte keys): intact, one failing read at every call, every truncation; every two-key database whose keys (over {a..h}^1..4) share a hash table (same first slot, last slot, wrap-around) with a third absent key, and 256 crowded tables",
    "seek": "seek_set/seek_cur/seek_end/seek_trunc at offsets around 2^31 and 2^32 on a sparse file",
    "ctl": "control_readfile/readline/readint/rldef on every short file body, absent and unreadable files, with/without control/me",
}


def lib_conformance(res, rd, src, modes, tier, asan):
    """Library conformance (seq/c00_lib.c): the shared primitives this property's programs rest on, exhaustively over small domains
    against trivial references.  A boundary slip there shows only for inputs that hit the boundary (a read returning exactly
    buffer-size-1 bytes, the letter Z, a control file without a final newline), which program-level enumerations may not contain."""
    extra = [w for w in ["cdb.a", "cdbmss.o", "cdbmake.a", "myctime.o"] if w not in load_line(src, "qmail-send")]
    exe = compile_harness(src, os.path.join(rd, "c00lib"), [os.path.join(VERIF, "seq/c00_lib.c")], link_target="qmail-send", extra_objs=extra, asan=asan,
                          cflags="-Wl,--wrap=malloc -Wl,--wrap=realloc -Wl,--wrap=free")
    jobs = []
    for m in modes:
        if m == "seek":
            d = os.path.join(rd, "libseek"); os.makedirs(d, exist_ok=True)
            jobs.append(("%s seek %s" % (exe, d), "library: seek"))
        elif m == "ctl":
            d = os.path.join(rd, "libctl"); os.makedirs(d, exist_ok=True)
            jobs.append(("%s ctl %s %d" % (exe, d, 5 if tier == "quick" else 6), "library: control files"))
        else:
            jobs.append(("%s %s" % (exe, m), "library: " + m))
    res.run_parallel(jobs, timeout=1800)
    res.rule += "; library conformance (seq/c00_lib.c): " + "; ".join(LIB_MODE_TEXT[m] for m in modes)


# ---------------------------------------------------------------------------------------------
# known findings

class Known:
    def __init__(self):
        self.findings = []  # (property, key_regex, text)
        p = os.path.join(VERIF, "known-findings.txt")
        if os.path.exists(p):
            for line in open(p):
                line = line.strip()
                m = re.match(r"finding:\s+property=(\S+)\s+key=(\S+)\s+(.*)$", line)
                if m:
                    self.findings.append((m.group(1), m.group(2), m.group(3)))

    def match(self, prop, key):
        for p, k, t in self.findings:
            if p == prop and re.fullmatch(k, key):
                return (k, t)
        return None


# ---------------------------------------------------------------------------------------------
# result accumulation / evidence

class Result:
    def __init__(self, prop, tier, level):
        self.prop, self.tier, self.level = prop, tier, level
        self.t0 = time.time()
        self.stats = {}
        self.samples = []
        self.fails = []  # (key, text, replay_body)
        self.notes = []
        self.assumptions = []
        self.rule = ""
        self.exhaustive = True
        self.seed = int(os.environ.get("VERIF_SEED", "0") or 0)

    def add(self, k, v):
        self.stats[k] = self.stats.get(k, 0) + v

    def setmax(self, k, v):
        self.stats[k] = max(self.stats.get(k, v), v)

    def parse_harness_output(self, text, family=""):
        """Lines: STAT k=v ... | SAMPLE text | FAIL key text | NOTE text | CAPPED text"""
        for line in text.split("\n"):
            if line.startswith("STAT "):
                for kv in line[5:].split():
                    k, v = kv.split("=", 1)
                    self.add(k, int(v))
            elif line.startswith("SAMPLE "):
                if len(self.samples) < 12:
                    self.samples.append((family + ": " if family else "") + line[7:])
            elif line.startswith("FAIL "):
                parts = line[5:].split(" ", 1)
                self.fails.append((parts[0], parts[1] if len(parts) > 1 else "", line))
            elif line.startswith("NOTE "):
                if len(self.notes) < 20:
                    self.notes.append(line[5:])
            elif line.startswith("CAPPED"):
                self.exhaustive = False
                self.notes.append(line)

    def run_harness(self, cmd, family="", cwd=None, timeout=None, env=None):
        e = dict(ASAN_ENV)
        if env:
            e.update(env)
        p = sh(cmd, cwd=cwd, env=e, check=False, timeout=timeout)
        out = p.stdout or ""
        self.parse_harness_output(out, family)
        if p.returncode not in (0, 1):
            # the harness itself died: sanitizer abort or harness bug.  A sanitizer report inside
            # the code under test is printed by the harness as FAIL before dying where possible;
            # anything else is a harness error.
            if "ERROR: AddressSanitizer" in out or "runtime error:" in out or re.search(r"CURRENT-INPUT \S", out):
                m = re.search(r"CURRENT-INPUT (.*)", out)
                self.fails.append(("sanitizer:" + family, "sanitizer report or fatal signal in %s: %s" % (
                    family, (m.group(1) if m else "?")), out[-3000:]))
            else:
                sys.stderr.write("HARNESS-ERROR: %s exited %d\n%s\n" % (cmd, p.returncode, out[-3000:]))
                sys.exit(2)
        return out

    def run_parallel(self, jobs, workers=16, timeout=None):
        """jobs: list of (cmd, family).  Runs them concurrently, merges their outputs in order."""
        from concurrent.futures import ThreadPoolExecutor
        e = dict(os.environ); e.update(ASAN_ENV)

        def one(job):
            try:
                p = subprocess.run(job[0], shell=True, env=e, stdout=subprocess.PIPE, stderr=subprocess.STDOUT,
                                   text=True, errors="replace", timeout=timeout)
                return p.returncode, p.stdout or ""
            except subprocess.TimeoutExpired as ex:
                return -999, (ex.stdout or b"").decode(errors="replace") if isinstance(ex.stdout, bytes) else (ex.stdout or "")
        with ThreadPoolExecutor(workers) as ex:
            outs = list(ex.map(one, jobs))
        for (cmd, fam), (rc, out) in zip(jobs, outs):
            self.parse_harness_output(out, fam)
            if rc == -999:
                self.exhaustive = False
                self.notes.append("CAPPED: %s hit the time cap and was stopped; its partial counters are not included" % fam)
            elif rc not in (0, 1):
                if "ERROR: AddressSanitizer" in out or "runtime error:" in out or re.search(r"CURRENT-INPUT \S", out):
                    # a sanitizer report, or the harness's fatal-signal handler naming the input it was running
                    m = re.search(r"CURRENT-INPUT (.*)", out)
                    rep = re.search(r"(ERROR: AddressSanitizer[^\n]*|[^\n]*runtime error:[^\n]*)", out)
                    self.fails.append(("sanitizer:" + fam + ":" + (m.group(1)[:200] if m else "?"),
                                       "%s" % ("sanitizer report: " + rep.group(1) if rep else "the code under test died (exit status %d)" % rc), out[-3000:]))
                else:
                    sys.stderr.write("HARNESS-ERROR: %s exited %d\n%s\n" % (cmd, rc, out[-3000:]))
                    sys.exit(2)
        return outs

    def require_nonzero(self, *keys):
        """Non-vacuity: these counters must be non-zero, else the run is a harness error -- unless
        violations were found (a broken tree may legitimately never reach some outcome)."""
        self.required = getattr(self, "required", []) + list(keys)

    def finish(self, coverage_extra=None):
        if not self.fails:
            for k in getattr(self, "required", []):
                if not self.stats.get(k):
                    sys.stderr.write("HARNESS-ERROR: non-vacuity counter %s is zero\n" % k)
                    sys.exit(2)
        known = Known()
        nviol = 0
        lines = []
        os.makedirs(os.path.join(VERIF, "replays"), exist_ok=True)
        seen_known = set()
        seen_keys = set()
        for key, text, body in self.fails:
            if key in seen_keys:
                continue
            seen_keys.add(key)
            m = known.match(self.prop, key)
            if m:
                if m[0] not in seen_known:
                    seen_known.add(m[0])
                    lines.append("KNOWN-FINDING: property=%s %s [key %s]" % (self.prop, m[1], key))
                continue
            nviol += 1
            if nviol <= 5:
                h = hashlib.sha1(key.encode()).hexdigest()[:10]
                path = os.path.join(VERIF, "replays", "%s-%s.txt" % (self.prop, h))
                with open(path, "w") as f:
                    f.write("property=%s\nkey=%s\n%s\n%s\n" % (self.prop, key, text, body))
                lines.append("VIOLATION property=%s replay=%s" % (self.prop, path))
                lines.append("  " + key + " " + text[:300])
        cov = {
            "evaluations": int(self.stats.get("evaluations", 0)),
            "distinct_nontrivial": int(self.stats.get("distinct_nontrivial", 0)),
            "rule": self.rule,
            "samples": self.samples[:12] or ["(none)"],
            "states": int(self.stats.get("states", 0)),
            "transitions": int(self.stats.get("transitions", 0)),
            "traces_validated_against_impl": int(self.stats.get("traces_validated_against_impl",
                                                                 self.stats.get("evaluations", 0))),
            "exhaustive": bool(self.exhaustive),
            "counters": {k: v for k, v in sorted(self.stats.items())},
            "notes": self.notes,
            "known_findings_seen": sorted(seen_known),
        }
        if coverage_extra:
            cov.update(coverage_extra)
        ev = {
            "property_id": self.prop, "tier": self.tier, "seed": self.seed, "level": self.level,
            "coverage": cov, "assumptions": self.assumptions,
            "wall_s": round(time.time() - self.t0, 2), "violations": nviol,
        }
        evdir = os.environ.get("VERIF_EVIDENCE", os.path.join(VERIF, "evidence"))   # overridden only by tools/try_seed_wt.sh (runs against a scratch worktree)
        os.makedirs(evdir, exist_ok=True)
        with open(os.path.join(evdir, self.prop + ".json"), "w") as f:
            json.dump(ev, f, indent=1)
            f.write("\n")
        for l in lines:
            print(l)
        print("%s tier=%s evaluations=%d states=%d transitions=%d distinct=%d exhaustive=%s violations=%d wall=%.1fs" % (
            self.prop, self.tier, cov["evaluations"], cov["states"], cov["transitions"],
            cov["distinct_nontrivial"], cov["exhaustive"], nviol, ev["wall_s"]))
        sys.stdout.flush()
        return 1 if nviol else 0


# ---------------------------------------------------------------------------------------------
# VK engine helpers

VKB = os.path.join(BUILDROOT, "vk")


def vk_build():
    sh("make -s -C %s -j16" % os.path.join(VERIF, "vk"))
    return VKB


def vk_cmd(scn, src, outdir, bounds, total, deadline, family, opts=(), workers=16, extra=""):
    return ("%s/scn_%s --src %s --preload %s/libvk.so --standin %s/standin --out %s --workers %d --bounds %s --total %d "
            "--deadline %d --family %s %s %s" % (VKB, scn, src, VKB, VKB, outdir, workers, bounds, total, deadline, family,
                                                " ".join("-D" + o for o in opts), extra))


# Programs a VK scenario may execute for real (vk/qmailenv.hpp exec table) minus those never started under the virtual kernel
# (splogger, tcp-env, predate, qbiff are not used by any scenario).
VK_PROGRAMS = ("qmail-queue qmail-send qmail-clean qmail-local qmail-lspawn qmail-rspawn qmail-getpw qmail-smtpd qmail-qmtpd qmail-qmqpd "
               "qmail-pop3d qmail-popup qmail-inject qmail-newu qmail-newmrh qmail-start forward condredirect bouncesaying preline except "
               "qreceipt qmail-pw2u qmail-remote").split()
PURE_IMPORTS = set("malloc free realloc calloc memcmp memcpy memmove memset strcmp strncmp strcpy strdup strlen strchr strrchr sigaddset sigemptyset "
                   "__errno_location __h_errno_location __cxa_finalize __gmon_start__ _ITM_deregisterTMCloneTable _ITM_registerTMCloneTable "
                   "__stack_chk_fail __libc_start_main abort dn_expand __dn_expand __res_state".split())
_import_guard_done = set()


def vk_import_guard(src):
    """Every libc entry point through which a simulated program could observe or change the world must be served by the shim:
    an import that is neither interposed nor on the list of pure functions (say a new openat or getrandom) would silently escape
    the model, so it is a harness error (plain builds only: sanitised builds import the sanitizer runtime)."""
    if src in _import_guard_done or not src.endswith("src-plain"):
        return
    _import_guard_done.add(src)
    shim = set(l.split()[-1].split("@")[0] for l in sh("nm -D --defined-only %s/libvk.so" % VKB).stdout.split("\n") if l.strip())
    bad = []
    for prog in VK_PROGRAMS:
        path = os.path.join(src, prog)
        if not os.path.exists(path):
            continue
        for l in sh("nm -D --undefined-only %s" % path).stdout.split("\n"):
            if not l.strip():
                continue
            sym = l.split()[-1].split("@")[0]
            if sym not in shim and sym not in PURE_IMPORTS:
                bad.append("%s imports %s" % (prog, sym))
    if bad:
        sys.stderr.write("HARNESS-ERROR: libc imports that the virtual kernel does not serve (extend vk/shim.c or the pure list): %s\n" % "; ".join(bad))
        sys.exit(2)


def vk_conformance(tier="quick", deadline=1500):
    """VK-vs-Linux differential conformance (vk/scn_conf.cpp, vk/confprog.c): every sequence of d operations over the 30-operation
    alphabet (quick d=2, thorough d=3; d=4, 810000 sequences, was run once while building) and every sequence of d' operations over
    the 9 FIFO/pipe operations (quick d'=4, thorough d'=6), executed by the same binary under the model and natively on the real
    kernel; results, errno values, descriptor numbers and select() readiness after every step must agree.  Any disagreement (or
    a run that was cut short) is a harness error: the model, not notqmail, is then wrong."""
    vk_build()
    rd = rundir("conformance")
    outdir = os.path.join(rd, "vkout")
    os.makedirs(outdir)
    d, df = (2, 4) if tier == "quick" else (3, 6)
    total = 0
    for fam, opts in (("all-ops-depth-%d" % d, ["depth=%d" % d]), ("fifo-ops-depth-%d" % df, ["depth=%d" % df, "ops=16,17,18,5,25,6,26,19,20"])):
        cmd = vk_cmd("conf", "/nonexistent", outdir, "0,0,0,0", 0, deadline, fam, opts, 16, "--qcap 1000000")
        p = sh(cmd, check=False, timeout=deadline + 300)
        out = p.stdout or ""
        m = re.search(r"sequences=(\d+)", out)
        if p.returncode != 0 or "FAIL " in out or "CAPPED" in out or not m:
            sys.stderr.write("HARNESS-ERROR: the virtual kernel disagrees with Linux (or the run was cut short): %s\n%s\n" % (fam, out[-3000:]))
            sys.exit(2)
        total += int(m.group(1))
    return total


def vk_run(res, scn, src, rd, bounds, total, deadline, family, opts=(), workers=16, qcap=0):
    """Run one VK exploration; merges its STAT/SAMPLE/FAIL lines; copies a replay file to /verif/replays."""
    outdir = os.path.join(rd, "vkout")
    os.makedirs(outdir, exist_ok=True)
    vk_import_guard(src)
    cmd = vk_cmd(scn, src, outdir, bounds, total, deadline, family, opts, workers, "--qcap %d" % qcap if qcap else "")
    p = sh(cmd, check=False, timeout=deadline + 300)
    out = p.stdout or ""
    if p.returncode not in (0, 1):
        sys.stderr.write("HARNESS-ERROR: %s exited %d\n%s\n" % (cmd, p.returncode, out[-3000:]))
        sys.exit(2)
    # attach the replay file contents to FAIL lines
    m = re.search(r"\(replay: ([^)]+)\)", out)
    body = ""
    if m and os.path.exists(m.group(1)):
        body = open(m.group(1), errors="replace").read()
    before = len(res.fails)
    res.parse_harness_output(out, family)
    for i in range(before, len(res.fails)):
        k, t, b = res.fails[i]
        mc = re.search(r"\[choices ([0-9: ]*)\]", t)
        b = body
        if mc and ("key=" + k) not in body:
            # a violation after which the execution went on (no replay file of its own): options + choice vector replay it
            b = "options=%s\nchoices=%s\n" % (" ".join(opts), mc.group(1).strip())
        res.fails[i] = (k, t, "vk-scenario=%s\nvk-bounds=%s total=%d\n%s" % (scn, bounds, total, b))
    return out


def vk_replay(prop, path):
    """bin/check <ID> --replay <file>: rebuild and re-run the recorded choice vector with tracing."""
    txt = open(path, errors="replace").read()
    m = re.search(r"^vk-scenario=(\S+)", txt, re.M)
    if not m:
        print("not a VK replay file; re-run the check itself: bin/check %s --tier quick" % prop)
        return 2
    rd = rundir(prop + "-replay")
    vk_build()
    src = scratch_build(rd, "plain")
    outdir = os.path.join(rd, "vkout"); os.makedirs(outdir)
    cmd = "%s/scn_%s --src %s --preload %s/libvk.so --standin %s/standin --out %s --replay %s" % (VKB, m.group(1), src, VKB, VKB, outdir, path)
    p = sh(cmd, check=False, capture=False)
    return p.returncode
